"""Probe the real serializer on the finite set of (parent, position, child-class) shapes."""
from __future__ import annotations


def generate():
    import sympy
    from bartiq import sympy_backend as B

    x, y, z = sympy.symbols("x y z")
    f = sympy.Function("f")
    children = {
        "atom": x,
        "negnum": sympy.Integer(-2),
        "rational": sympy.Rational(2, 3),
        "add": x + y,
        "mul": x * y,
        "pow": x**y,
        "call": f(x),
        "neg": -x,
    }
    rows = []
    for cname, c in children.items():
        for pos, build in (("powBase", lambda c: sympy.Pow(c, z, evaluate=False)), ("powExp", lambda c: sympy.Pow(z, c, evaluate=False))):
            s = B.serialize(build(c))
            cs = B.serialize(c)
            if pos == "powBase":
                part = s.rsplit(" ^ ", 1)[0] if cname != "pow" else s[: len(s) - len(" ^ z")]
            else:
                part = s.split(" ^ ", 1)[1]
            paren = part.startswith("(") and part.endswith(")") and not (cs.startswith("(") and cs.endswith(")") and cname == "call")
            if cname == "call":
                paren = part != cs
            rows.append((pos, cname, bool(paren), s))
    names = {
        "pi": B.serialize(sympy.pi),
        "e": B.serialize(sympy.E),
        "sum": B.serialize(sympy.Sum(x, (y, 0, z))).split("(")[0],
        "prod": B.serialize(sympy.Product(x, (y, 0, z))).split("(")[0],
        "pow": B.serialize(x**y).replace("x", "").replace("y", ""),
    }
    body = "namespace Bartiq.Generated\n"
    body += "/-- (position, child class, parenthesised?) as observed on the real `serialize` -/\n"
    body += "def parenTable : List (String × String × Bool) :=\n  [\n" + "\n".join(
        f'   ("{p}", "{c}", {"true" if b else "false"}){"," if i + 1 < len(rows) else ""}  -- {s}' for i, (p, c, b, s) in enumerate(rows)) + "\n  ]\n"
    body += "/-- spellings used by the printer -/\n"
    body += "def printerNames : List (String × String) :=\n  [" + ", ".join(f'("{k}", "{v}")' for k, v in names.items()) + "]\n"
    body += "end Bartiq.Generated\n"
    return "Printer.lean", body, {"rows": len(rows), "names": names}
