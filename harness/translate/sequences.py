"""Closed forms of the repetition sequences, obtained by running the code's own get_sum / get_prod on fresh
symbols and translating the returned sympy expression into a Lean function over an arbitrary field."""
from __future__ import annotations

from fractions import Fraction


class OutOfFragment(Exception):
    pass


def to_lean(e, nat_syms, field_syms):
    """sympy expr -> Lean term of type K (nat symbols are cast).  Exponents must be polynomials in nat symbols."""
    import sympy

    def nat(e):
        if e.is_Integer and int(e) >= 0:
            return str(int(e))
        if e.is_Symbol and str(e) in nat_syms:
            return str(e)
        if e.is_Add:
            return "(" + " + ".join(nat(a) for a in e.args) + ")"
        if e.is_Mul:
            return "(" + " * ".join(nat(a) for a in e.args) + ")"
        raise OutOfFragment(f"exponent {e}")

    def go(e):
        if e.is_Integer:
            v = int(e)
            return f"({v} : K)" if v >= 0 else f"(-({-v} : K))"
        if e.is_Rational:
            return f"(({int(e.p)} : K) / ({int(e.q)} : K))"
        if e.is_Float:
            fr = Fraction(float(e))
            return f"(({fr.numerator} : K) / ({fr.denominator} : K))"
        if e.is_Symbol:
            s = str(e)
            if s in nat_syms:
                return f"({s} : K)"
            if s in field_syms:
                return s
            raise OutOfFragment(f"symbol {s}")
        if e.is_Add:
            return "(" + " + ".join(go(a) for a in e.args) + ")"
        if e.is_Mul:
            return "(" + " * ".join(go(a) for a in e.args) + ")"
        if e.is_Pow:
            b, x = e.args
            if x.is_Integer and int(x) < 0:
                inner = go(b) if int(x) == -1 else f"({go(b)} ^ {-int(x)})"
                return f"({inner})⁻¹"
            return f"({go(b)} ^ {nat(x)})"
        raise OutOfFragment(f"node {type(e).__name__}: {e}")

    return go(sympy.sympify(e))


def generate():
    import sympy
    from bartiq import sympy_backend as B
    from bartiq.repetitions import ArithmeticSequence, ConstantSequence, GeometricSequence

    n, mN = sympy.symbols("n m", integer=True, nonnegative=True)
    m, a, d, r, x = sympy.symbols("m a d r x")
    forms = {
        "constSum": (ConstantSequence("constant", m).get_sum(x, n, B), ["n"], ["m", "x"], "(n : ℕ) (m x : K)"),
        "arithSum": (ArithmeticSequence("arithmetic", a, d).get_sum(x, n, B), ["n"], ["a", "d", "x"], "(n : ℕ) (a d x : K)"),
        "geomSum": (GeometricSequence("geometric", r).get_sum(x, n, B), ["n"], ["r", "x"], "(n : ℕ) (r x : K)"),
        "constProd": (ConstantSequence("constant", mN).get_prod(x, n, B), ["n", "m"], ["x"], "(n m : ℕ) (x : K)"),
    }
    lines = ["import Mathlib.Algebra.Field.Basic", "namespace Bartiq.Generated", "variable {K : Type} [Field K]", ""]
    info = {}
    for name, (expr, nats, flds, binder) in forms.items():
        info[name] = str(expr)
        try:
            term = to_lean(expr, nats, flds)
            lines.append(f"/-- what `get_sum`/`get_prod` returns today: `{expr}` -/")
            lines.append(f"def {name} {binder} : K :=\n  {term}\n")
        except OutOfFragment as ex:
            lines.append(f"/-- `{expr}` is outside the translated fragment ({ex}); left opaque so that the theorem about it")
            lines.append("    cannot be proved -/")
            lines.append(f"opaque {name} {binder} : K\n")
            info[name + "_error"] = str(ex)
    lines.append("end Bartiq.Generated\n")
    return "Sequences.lean", "\n".join(lines), {"forms": info}
