from __future__ import annotations

KNOWN = {
    "propagate_child_resources": "propagateChildResources",
    "propagate_linked_params": "propagateLinkedParams",
    "promote_unlinked_inputs": "promoteUnlinkedInputs",
    "introduce_port_variables": "introducePortVariables",
}


def generate():
    from bartiq.compilation.preprocessing import DEFAULT_PREPROCESSING_STAGES
    from bartiq.compilation.postprocessing import DEFAULT_POSTPROCESSING_STAGES

    names = [getattr(f, "__name__", repr(f)) for f in DEFAULT_PREPROCESSING_STAGES]
    items = []
    for n in names:
        if n not in KNOWN:
            raise ValueError(f"preprocessing stage {n!r} has no model")
        items.append("." + KNOWN[n])
    body = f"""import BartiqModel.Pipeline
namespace Bartiq.Generated
/-- `DEFAULT_PREPROCESSING_STAGES` as read from the source: {names} -/
def defaultStages : List Stage :=
  [{', '.join(items)}]
/-- number of default post-processing stages in the source -/
def numDefaultPostStages : Nat := {len(DEFAULT_POSTPROCESSING_STAGES)}
end Bartiq.Generated
"""
    return "Stages.lean", body, {"stages": names}
