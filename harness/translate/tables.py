from __future__ import annotations

import ast
import operator

OPS = {operator.mul: "mul", operator.add: "add", operator.truediv: "div", operator.sub: "sub", operator.mod: "mod",
       operator.pow: "pow", operator.floordiv: "fdiv", operator.neg: "neg"}
AST = {ast.Mult: "*", ast.Add: "+", ast.Div: "/", ast.Sub: "-", ast.Mod: "%", ast.Pow: "**", ast.BitXor: "^",
       ast.FloorDiv: "//"}


def generate():
    from bartiq.symbolics import ast_parser, sympy_backend as sb_mod
    from bartiq.symbolics.sympy_interpreter import SPECIAL_FUNCS, SPECIAL_PARAMS
    import importlib

    sbm = importlib.import_module("bartiq.symbolics.sympy_backend")

    # the tables are private module globals: found by name, or — after a rename — by their shape
    def by_shape(pred, what):
        found = [v for v in vars(ast_parser).values() if isinstance(v, dict) and v and pred(v)]
        if len(found) != 1:
            raise ValueError(f"cannot locate {what} in ast_parser ({len(found)} candidates)")
        return found[0]

    bin_map = getattr(ast_parser, "_BINARY_OP_MAP", None) or by_shape(
        lambda d: all(isinstance(k, type) and issubclass(k, ast.operator) for k in d), "the binary operator table")
    un_map = getattr(ast_parser, "_UNARY_OP_MAP", None) or by_shape(
        lambda d: all(isinstance(k, type) and issubclass(k, ast.unaryop) for k in d), "the unary operator table")
    restricted_map = getattr(ast_parser, "_RESTRICTED_NAMES", None) or by_shape(
        lambda d: all(isinstance(k, str) and isinstance(v, str) for k, v in d.items()) and {"lambda", "in"} <= set(d), "the reserved-word table")
    binops = []
    for node, fn in bin_map.items():
        if node not in AST:
            raise ValueError(f"unknown AST operator {node}")
        binops.append((AST[node], OPS.get(fn, "unknown")))
    binops.sort()
    # unary: probe the callables on a number (lambda x: +x is not an operator.* object)
    unary = []
    for node, fn in un_map.items():
        sign = "-" if node is ast.USub else "+" if node is ast.UAdd else "?"
        val = fn(7)
        unary.append((sign, "neg" if val == -7 else "pos" if val == 7 else "unknown"))
    unary.sort()
    builtins = sorted(SPECIAL_FUNCS)
    specials = sorted(SPECIAL_PARAMS)
    restricted = sorted(restricted_map.items())
    prec = int(sbm.NUM_DIGITS_PRECISION)

    def op(o):
        return "none" if o == "unknown" else f"some BinOp.{o}"

    body = f"""import BartiqModel.Basic
namespace Bartiq.Generated
/-- `_BINARY_OP_MAP` of ast_parser.py: surface operator ↦ meaning -/
def binOpTable : List (String × Option BinOp) :=
  [{', '.join(f'("{s}", {op(o)})' for s, o in binops)}]
/-- `_UNARY_OP_MAP`: sign ↦ "neg" | "pos" -/
def unaryOpTable : List (String × String) :=
  [{', '.join(f'("{s}", "{o}")' for s, o in unary)}]
/-- keys of `SPECIAL_FUNCS` (looked up with the lower-cased name) -/
def builtinNames : List String :=
  [{', '.join(f'"{b}"' for b in builtins)}]
/-- keys of `SPECIAL_PARAMS` -/
def specialParams : List String :=
  [{', '.join(f'"{b}"' for b in specials)}]
/-- `_RESTRICTED_NAMES` -/
def restrictedNames : List (String × String) :=
  [{', '.join(f'("{a}", "{b}")' for a, b in restricted)}]
/-- `NUM_DIGITS_PRECISION` -/
def numDigitsPrecision : Nat := {prec}
end Bartiq.Generated
"""
    return "Tables.lean", body, {"binops": binops, "unary": unary, "n_builtins": len(builtins)}
