"""Structure-aware generator of QREF routine hierarchies.

A generated case is a *spec* (python dicts whose expressions are trees of harness.expr) from which we derive
  * the QREF document (expressions rendered to bartiq syntax) handed to the real code,
  * the s-expression handed to the Lean model driver (same trees, no parser in the loop),
  * the input of the independent reference semantics `harness.refsem.denote`.

Spec node:
  {name, type, input_params:[str], local_variables:[(name, tree)], linked_params:[(source, [(path, param)])],
   ports:[{name, direction, size: tree|None}], resources:[{name, type, value: tree}],
   connections:[((rt|None, port), (rt|None, port))], repetition: None | {count: tree, sequence: {...}},
   children:[node]}
"""
from __future__ import annotations

import random
from fractions import Fraction

from . import expr as E

POOL = ["N", "M", "K", "L", "x", "y"]
CHILD_NAMES = ["a", "b", "c", "d", "e"]
RES = {"T": "additive", "Q": "additive", "cost": "multiplicative", "anc": "other"}


class Opts:
    def __init__(self, **kw):
        self.max_depth = 3
        self.max_children = 3
        self.p_rep = 0.15          # probability that a child is wrapped in a repetition
        self.p_through = 0.15
        self.p_passthrough = 0.2
        self.p_deep_link = 0.3
        self.p_twin_leaf = 0.0              # some routine gets a twin of one of its port-less leaves (same definition, other name and type)
        self.p_undeclared_param = 0.0       # a deep-linked parameter is not listed in its routine's input_params
        self.locals_counts = [0, 0, 1, 2, 3]   # number of local variables of a node that has parameters
        self.p_local_chain = 0.5            # a local defined through the previous one
        self.p_const_width = 0.25          # a leaf carries a constant resource `width` (type other)
        self.p_output_child_res = 0.3      # … which its parent mentions in the declared size of an output register
        self.leaf_outputs = [0, 1, 1, 1, 2]   # number of output ports of a leaf that has inputs
        self.p_inner_wire = 0.7              # an input is fed by a waiting sibling output (rather than by a new parent input)
        self.p_fraction_param = 0.3     # numeric arithmetic/geometric sequence parameters that are half-integers
        self.p_port_sym_in_resource = 0.4   # a resource of a node mentions one of the node's port-size symbols
        self.p_multi_deep_link = 0.3   # one source linked to several parameters nested inside the same child
        self.p_fault_size = 0.0     # probability of deliberately contradicting a size
        self.rich = 0.25            # probability of non-polynomial operators in resource expressions
        self.p_shuffle_children = 0.5
        self.rep_kinds = ["constant", "arithmetic", "geometric", "closed_form", "custom"]
        self.symbolic_rep = 0.6
        self.mult_resources = True
        self.mult_under_any_rep = False
        self.p_create_links = 0.3
        self.leaf_inputs = [0, 1, 1, 1, 2]
        self.p_type_override = 0.1
        self.p_param_res_clash = 0.12
        self.p_placeholder_clash = 0.3
        self.p_placeholder_scope_clash = 0.25
        self.p_zero_size = 0.08
        self.p_port_local_clash = 0.0
        self.p_zero_resource = 0.05
        self.p_reserved_port_name = 0.1
        self.size_thresholds = (0.3, 0.55, 0.65)   # unsized | fresh symbol | repeated symbol | (constant/compound when the incoming size is known)
        self.qubit_mode = False     # generate local_ancillae / positive sizes for the highwater property
        self.__dict__.update(kw)


# ------------------------------------------------------------------------------------------------
# expressions
def gen_poly(rng, syms, depth=2, positive=False):
    """polynomial-ish expression over `syms` (trees); with positive=True only + and * of positives"""
    if depth <= 0 or rng.random() < 0.3 or not syms:
        if syms and rng.random() < 0.75:
            return E.sym(rng.choice(syms))
        return E.num(rng.randint(1, 4))
    op = rng.choice(["+", "*"] if positive else ["+", "*", "-", "+", "*"])
    a = gen_poly(rng, syms, depth - 1, positive)
    b = gen_poly(rng, syms, depth - 1, positive)
    if op == "*" and rng.random() < 0.5:
        b = E.num(rng.randint(2, 3))
    return E.bin_(op, a, b)


def gen_rich(rng, syms, depth=3):
    if depth <= 0 or rng.random() < 0.25 or not syms:
        if syms and rng.random() < 0.8:
            return E.sym(rng.choice(syms))
        return E.num(rng.choice([1, 2, 3, 5, Fraction(1, 2), 7]))
    r = rng.random()
    if r < 0.55:
        return E.bin_(rng.choice(["+", "*", "-", "+", "*"]), gen_rich(rng, syms, depth - 1), gen_rich(rng, syms, depth - 1))
    if r < 0.63:
        return E.bin_("/", gen_rich(rng, syms, depth - 1), E.num(rng.choice([2, 3, 4])))
    if r < 0.70:
        return E.bin_("**", gen_rich(rng, syms, depth - 1), E.num(rng.choice([2, 3])))
    if r < 0.78:
        return E.app(rng.choice(["ceiling", "floor"]), E.bin_("/", gen_rich(rng, syms, depth - 1), E.num(rng.choice([2, 3]))))
    if r < 0.86:
        return E.app(rng.choice(["max", "min"]), gen_rich(rng, syms, depth - 1), gen_rich(rng, syms, depth - 1))
    if r < 0.93:
        return E.app(rng.choice(["f", "g"]), gen_rich(rng, syms, depth - 2))
    if r < 0.97:
        return E.bin_("**", E.num(2), E.sym(rng.choice(syms)))
    return E.neg(gen_rich(rng, syms, depth - 1))


def _generic(rng, t):
    """the expression is defined and neither 0 nor 1 at two random integer points (so that it can safely be a
    ratio, a difference, a divisor ...)"""
    r2 = random.Random(rng.random())
    for _ in range(2):
        env = {s: Fraction(r2.randint(2, 11)) for s in E.fv(t)}
        try:
            v = E.ev(t, env)
        except (E.Undefined, ZeroDivisionError, OverflowError):
            return False
        if v in (0, 1):
            return False
    return True


def gen_expr(rng, syms, opts, depth=2):
    return gen_rich(rng, syms, depth + 1) if rng.random() < opts.rich else gen_poly(rng, syms, depth)


# ------------------------------------------------------------------------------------------------
# structure (bottom-up), sizes (top-down)
def _leaf(rng, name, opts):
    n_in = rng.choice(opts.leaf_inputs)
    n_out = rng.choice(opts.leaf_outputs) if n_in else rng.choice([0, 1])
    ports = [{"name": f"in_{i}", "direction": "input", "size": None} for i in range(n_in)]
    ports += [{"name": f"out_{i}", "direction": "output", "size": None} for i in range(n_out)]
    if rng.random() < opts.p_through:
        ports.append({"name": "thru_0", "direction": "through", "size": None})
    return {"name": name, "type": rng.choice([None, None, "leaf", "gate"]), "input_params": [], "local_variables": [],
            "linked_params": [], "ports": ports, "resources": [], "connections": [], "repetition": None, "children": []}


def _wire(rng, node, opts):
    """Create parent ports and connections so that every port has exactly the connections it needs.
    Children are wired in list order (their chronological order)."""
    avail = []   # sources waiting for a target: (routine|None, port)
    conns = []
    n_pin = 0
    n_pout = 0
    for ch in node["children"]:
        for p in ch["ports"]:
            if p["direction"] in ("input", "through"):
                if avail and rng.random() < opts.p_inner_wire:
                    src = avail.pop(rng.randrange(len(avail)))
                else:
                    pname = f"in_{n_pin}"
                    n_pin += 1
                    node["ports"].append({"name": pname, "direction": "input", "size": None})
                    src = (None, pname)
                conns.append((src, (ch["name"], p["name"])))
        for p in ch["ports"]:
            if p["direction"] in ("output", "through"):
                avail.append((ch["name"], p["name"]))
    for src in avail:
        pname = f"out_{n_pout}"
        n_pout += 1
        node["ports"].append({"name": pname, "direction": "output", "size": None})
        conns.append((src, (None, pname)))
    if rng.random() < opts.p_passthrough:
        node["ports"].append({"name": f"in_{n_pin}", "direction": "input", "size": None})
        node["ports"].append({"name": f"out_{n_pout}", "direction": "output", "size": None})
        conns.append(((None, f"in_{n_pin}"), (None, f"out_{n_pout}")))
    rng.shuffle(conns)
    node["connections"] = conns


def _structure(rng, name, depth, opts):
    if depth <= 0 or rng.random() < 0.25:
        return _leaf(rng, name, opts)
    k = rng.randint(1, opts.max_children)
    names = rng.sample(CHILD_NAMES, k)
    children = []
    for cn in names:
        ch = _structure(rng, cn, depth - 1, opts)
        if rng.random() < opts.p_rep:
            ch = _wrap_repetition(rng, ch, opts)
        children.append(ch)
    node = {"name": name, "type": rng.choice([None, "comp"]), "input_params": [], "local_variables": [],
            "linked_params": [], "ports": [], "resources": [], "connections": [], "repetition": None,
            "children": children}
    _wire(rng, node, opts)
    return node


def _wrap_repetition(rng, child, opts):
    """A wrapper with a repetition mirrors the ports of its single child."""
    wname = child["name"]
    inner = dict(child)
    inner["name"] = "core"
    ports, conns = [], []
    for p in child["ports"]:
        ports.append({"name": p["name"], "direction": p["direction"] if p["direction"] != "through" else "input", "size": None})
        if p["direction"] == "through":
            # through port of the inner routine: wrapper gets an input and an output
            ports.append({"name": p["name"] + "_o", "direction": "output", "size": None})
            conns.append(((None, p["name"]), ("core", p["name"])))
            conns.append((("core", p["name"]), (None, p["name"] + "_o")))
        elif p["direction"] == "input":
            conns.append(((None, p["name"]), ("core", p["name"])))
        else:
            conns.append((("core", p["name"]), (None, p["name"])))
    return {"name": wname, "type": None, "input_params": [], "local_variables": [], "linked_params": [],
            "ports": ports, "resources": [], "connections": conns, "repetition": "PENDING", "children": [inner]}


def _fill_repetition(rng, node, scope, opts):
    kind = rng.choice(opts.rep_kinds)
    symbolic = rng.random() < opts.symbolic_rep

    def par(lo=2, hi=4):
        if symbolic and scope:
            return E.sym(rng.choice(scope))
        return E.num(rng.randint(lo, hi))

    def parq(lo, hi):
        # now and then a half-integer (rendered as the text "3/2" or as the NUMBER 1.5, see Rendered.s)
        if not (symbolic and scope) and rng.random() < opts.p_fraction_param:
            return E.num(Fraction(2 * rng.randint(lo, hi) + 1, 2))
        return par(lo, hi)

    count = par(1, 5)
    if kind == "constant":
        seq = {"type": "constant", "multiplier": par(1, 3)}
    elif kind == "arithmetic":
        seq = {"type": "arithmetic", "initial_term": parq(0, 3), "difference": parq(1, 3)}
    elif kind == "geometric":
        seq = {"type": "geometric", "ratio": parq(2, 3)}
    elif kind == "closed_form":
        # the placeholder is a bound name of the formula: now and then it is spelled like a name of an outer scope
        tn = "T_n"
        if count[0] == "sym" and rng.random() < 0.3:
            tn = count[1]      # the customary way of writing a closed form: in terms of the count symbol itself
        elif scope and rng.random() < opts.p_placeholder_scope_clash:
            # … or like a name of the wrapper's OWN scope that is not the count (the placeholder is bound by the formulas; F18)
            tn = rng.choice([x for x in scope if not (count[0] == "sym" and count[1] == x)] or ["T_n"])
        elif rng.random() < opts.p_placeholder_clash:
            tn = rng.choice([x for x in POOL if x not in scope] or ["T_n"])
        body = E.bin_("+", E.bin_("*", E.sym(tn), E.bin_("+", E.sym(tn), par())), E.num(rng.randint(0, 2)))
        prod = E.bin_("**", E.num(2), E.sym(tn)) if rng.random() < 0.5 else None
        seq = {"type": "closed_form", "sum": body, "prod": prod, "num_terms_symbol": tn}
    else:
        if rng.random() < 0.3:
            term = E.bin_("+", par(), E.num(rng.randint(0, 2)))    # a term that does not mention the iterator at all
        else:
            term = E.bin_("+", E.bin_("*", E.sym("it"), par()), E.num(rng.randint(0, 2)))
        seq = {"type": "custom", "term_expression": term, "iterator_symbol": "it"}
    node["repetition"] = {"count": count, "sequence": seq}


def _decorate(rng, node, opts, is_root, under_rep=False, no_mult=False):
    """params, locals, resources, links (top-down so that a parent's scope exists when links are drawn)"""
    k = rng.randint(1, 3) if (is_root or rng.random() < 0.8) else 0
    node["input_params"] = rng.sample(POOL, k)
    if k and rng.random() < opts.p_param_res_clash:
        # a parameter named like a resource: `child.T` then names both the child's parameter (promoted / deep-linked) and the
        # child's resource in the parent's scope
        node["input_params"][rng.randrange(k)] = rng.choice(sorted(RES))
    scope = list(node["input_params"])
    nloc = rng.choice(opts.locals_counts) if scope else 0
    prev_local = None
    for i in range(nloc):
        cand = [s for s in POOL if s not in scope] + [f"v{i}"]
        v = rng.choice(cand)
        for _ in range(20):
            # locals stay positive (they feed counts, ratios, sizes); resources may use the full language
            t = gen_poly(rng, scope, 1, positive=True)
            if prev_local is not None and rng.random() < opts.p_local_chain:
                # a CHAIN of definitions: this local is defined through the previous one (a = x+1, b = 2*a, c = b+3)
                t = E.bin_("+", E.bin_("*", E.num(rng.randint(1, 3)), E.sym(prev_local)), E.num(rng.randint(0, 3)))
            if rng.random() < 0.2:
                t = E.app("ceiling", E.bin_("/", t, E.num(rng.choice([2, 3]))))
            if _generic(rng, t):
                break
        else:
            t = E.bin_("+", E.sym(scope[0]), E.num(1))
        node["local_variables"].append((v, t))
        scope.append(v)
        prev_local = v
    rng.shuffle(node["local_variables"]) if rng.random() < 0.5 else None
    node["_scope"] = scope
    if node["repetition"] == "PENDING":
        _fill_repetition(rng, node, scope, opts)
    if node["repetition"] is not None and node["repetition"]["sequence"]["type"] != "constant" and not opts.mult_under_any_rep:
        no_mult = True   # product formulas of non-constant sequences are outside what the properties state
    for ch in node["children"]:
        _decorate(rng, ch, opts, False, under_rep=node["repetition"] is not None, no_mult=no_mult)
    # links: for each child parameter decide linked / unlinked (promoted)
    links = {}
    if scope:
        for ch in node["children"]:
            for p in ch["input_params"]:
                if rng.random() < 0.7:
                    links.setdefault(rng.choice(scope), []).append((ch["name"], p))
            # deep links into grandchildren
            deep_done = set()
            for g in ch["children"]:
                for p in g["input_params"]:
                    if rng.random() < opts.p_deep_link * 0.5 and not _is_linked(ch, g["name"], p):
                        links.setdefault(rng.choice(scope), []).append((ch["name"] + "." + g["name"], p))
                        deep_done.add((g["name"], p))
            # ONE source feeding several parameters nested inside the same child (N -> [a.b.x, a.c.x]): the preprocessing then has to
            # forward several values of one name through that child
            cand = [(g["name"], p) for g in ch["children"] for p in g["input_params"]
                    if (g["name"], p) not in deep_done and not _is_linked(ch, g["name"], p)]
            if len(cand) >= 2 and rng.random() < opts.p_multi_deep_link:
                src = rng.choice(scope)
                for gname, p in rng.sample(cand, rng.randint(2, min(3, len(cand)))):
                    links.setdefault(src, []).append((ch["name"] + "." + gname, p))
                ch.setdefault("_clash_hint", []).append(src)   # a name the child may well use for one of its own port sizes
    node["linked_params"] = list(links.items())
    rng.shuffle(node["linked_params"])
    # a parameter that receives its value through a DEEP link need not be declared by the routine that uses it (the forwarding
    # link created by the preprocessing names it anyway): leave the declaration out now and then
    if opts.p_undeclared_param:
        for src_, tgts_ in node["linked_params"]:
            for path_, p_ in tgts_:
                if "." in path_ and rng.random() < opts.p_undeclared_param:
                    cn_, gn_ = path_.split(".", 1)
                    ch_ = next((c for c in node["children"] if c["name"] == cn_), None)
                    g_ = next((g for g in (ch_["children"] if ch_ else []) if g["name"] == gn_), None)
                    if g_ is not None and p_ in g_["input_params"] and not any(p_ == t2 and gn_ == c2 for _, ts2 in ch_["linked_params"] for c2, t2 in ts2):
                        g_["input_params"] = [x for x in g_["input_params"] if x != p_]
                        g_.setdefault("_undeclared", []).append(p_)
    # resources
    if node["repetition"] is None:
        child_res = {}
        for ch in node["children"]:
            for r in _all_resources_after_propagation(ch):
                child_res.setdefault(r, []).append(ch["name"])
        all_types = ["additive", "multiplicative", "qubits", "other"]
        names = [r for r in RES if ((opts.mult_resources and not no_mult) or RES[r] != "multiplicative")]
        if under_rep:
            names = [r for r in names if RES[r] in ("additive", "multiplicative")]
        for rname in names:
            if rng.random() < (0.6 if not node["children"] else 0.3):
                syms = [E.sym(s) for s in scope]
                refs = [f"{c}.{rname}" for c in child_res.get(rname, [])]
                val = gen_expr(rng, scope, opts, 2)
                if rng.random() < opts.p_zero_resource:
                    val = E.num(0)      # a resource that is literally 0 (absorbing for products, neutral for sums)
                elif refs and rng.random() < 0.7:
                    val = E.bin_("+", val, E.bin_("*", E.num(rng.randint(1, 3)), E.sym(rng.choice(refs))))
                ty = RES[rname]
                if not under_rep and not no_mult and rng.random() < opts.p_type_override:
                    ty = rng.choice(all_types)     # mixed typing: same name, different type than elsewhere
                node["resources"].append({"name": rname, "type": ty, "value": val})
        if not node["children"] and not under_rep and rng.random() < opts.p_const_width:
            # a constant the parent may use when it declares the size of one of its own output registers (see _assign_sizes)
            node["resources"].append({"name": "width", "type": "other", "value": E.num(rng.randint(1, 5))})
        if opts.qubit_mode and rng.random() < 0.5 and not under_rep:
            # (the type is customarily `qubits`, but any resource of that NAME counts as the routine's ancillae)
            node["resources"].append({"name": "local_ancillae", "type": rng.choice(["qubits"] * 4 + ["other", "additive"]),
                                      "value": gen_poly(rng, scope, 1, positive=True)})
    if rng.random() < opts.p_shuffle_children:
        rng.shuffle(node["children"])
    return node


def _is_linked(node, path, param):
    return any((path, param) in [tuple(t) for t in ts] for _, ts in node["linked_params"])


def _all_resources_after_propagation(node):
    """name -> type of the resources the node will have after propagate_child_resources"""
    out = {r["name"]: r["type"] for r in node["resources"]}
    add, mul = {}, {}
    for ch in node["children"]:
        for r, ty in _all_resources_after_propagation(ch).items():
            if ty == "additive":
                add[r] = ty
            elif ty == "multiplicative":
                mul[r] = ty
    for r, ty in {**add, **mul}.items():
        out.setdefault(r, ty)
    return out


# -- sizes, top-down ----------------------------------------------------------------------------
def _assign_sizes(rng, node, opts, incoming_known, is_root):
    """incoming_known: port name -> tree over this node's *own declared scope* or None (unknown)."""
    scope = node["_scope"]
    known = {}          # port name -> tree in this node's scope (None unknown)
    used_syms = {}      # fresh/param symbol -> port
    inputs = [p for p in node["ports"] if p["direction"] in ("input", "through")]
    for p in inputs:
        inc = incoming_known.get(p["name"])
        if is_root:
            if rng.random() < 0.75 and scope:
                p["size"] = gen_poly(rng, node["input_params"] + [v for v, _ in node["local_variables"]], 1, positive=True)
                known[p["name"]] = p["size"]
            else:
                p["size"] = None
                known[p["name"]] = E.sym("#" + p["name"])
            continue
        if opts.p_port_local_clash and node["local_variables"] and rng.random() < opts.p_port_local_clash:
            # a port whose declared size is the bare name of one of the routine's own local variables (the name is then defined
            # twice; only checks that look at STRUCTURE switch this on — the value-level reading of such a routine is ambiguous)
            lv = rng.choice([v for v, _ in node["local_variables"]])
            p["size"] = E.sym(lv)
            known[p["name"]] = None
            continue
        r = rng.random()
        fault = rng.random() < opts.p_fault_size
        th = opts.size_thresholds
        if r < th[0]:
            p["size"] = None
            known[p["name"]] = E.sym("#" + p["name"])
        elif r < th[1]:
            bound = set()
            if node.get("repetition"):
                sq_ = node["repetition"]["sequence"]
                bound = {sq_.get("num_terms_symbol"), sq_.get("iterator_symbol")} - {None}
            free = [s for s in POOL + ["S", "W"] if s not in scope and s not in used_syms and s not in bound]
            if not free:
                p["size"] = None
                known[p["name"]] = E.sym("#" + p["name"])
            else:
                s = rng.choice(free)
                hints = [h for h in node.get("_clash_hint", []) if h in free]
                if hints and rng.random() < 0.5:
                    s = rng.choice(hints)    # the child's own size symbol is spelled like a name an ancestor forwards through it
                used_syms[s] = p["name"]
                p["size"] = E.sym(s)
                known[p["name"]] = E.sym(s)
        elif r < th[2] and used_syms:
            # repeated symbol: consistent only if both wires carry the same size
            s = rng.choice(list(used_syms))
            p["size"] = E.sym(s)
            known[p["name"]] = E.sym(s)
            node.setdefault("_repeated", []).append(p["name"])
        elif inc is not None and inc[0] == "num":
            c = inc[1] + (1 if fault else 0)
            p["size"] = E.num(c)
            known[p["name"]] = E.num(c)
        elif inc is not None and node["input_params"] and E.fv(inc) <= set(node["input_params"]):
            # compound / param-symbol size expressed over this node's own parameters
            sz = inc
            if fault:
                # a contradiction: always different (+1), or different for most but not all assignments
                sz = E.bin_("+", sz, E.num(1)) if rng.random() < 0.5 else gen_poly(rng, list(node["input_params"]), 1, positive=True)
            p["size"] = sz
            known[p["name"]] = sz
        else:
            p["size"] = None
            known[p["name"]] = E.sym("#" + p["name"])
    # a leaf may also declare compound sizes over its symbols for *outputs*
    port_syms = list(used_syms)
    node["_port_syms"] = port_syms
    # a routine's costs are customarily written in terms of its register sizes: let some resource mention a port-size symbol
    if port_syms and node["resources"] and node["repetition"] is None and rng.random() < opts.p_port_sym_in_resource:
        rsrc = rng.choice(node["resources"])
        if rsrc["name"] != "local_ancillae":
            rsrc["value"] = E.bin_("+", rsrc["value"], E.bin_("*", E.num(rng.randint(1, 3)), E.sym(rng.choice(port_syms))))
    # children
    out_known = {}   # (child, port) -> tree in this node's scope or None

    def src_known(src):
        if src is None:
            return None
        rt, pn = src
        if rt is None:
            return known.get(pn)
        return out_known.get((rt, pn))

    order = _topo_children(node)
    by_name = {c["name"]: c for c in node["children"]}
    for cn in order:
        ch = by_name[cn]
        inc_child = {}
        for (s, t) in node["connections"]:
            if t[0] == cn:
                k = src_known(s)
                inc_child[t[1]] = _translate_down(k, node, ch, rng, opts.p_create_links)
        _assign_sizes(rng, ch, opts, inc_child, False)
        for p in ch["ports"]:
            if p["direction"] == "output":
                out_known[(cn, p["name"])] = _translate_up(ch.get("_known_out", {}).get(p["name"]), node, ch, inc_src=lambda q: src_known(_source_of(node, (cn, q))))
            elif p["direction"] == "through":
                out_known[(cn, p["name"])] = src_known(_source_of(node, (cn, p["name"])))
    # outputs
    known_out = {}
    for p in node["ports"]:
        if p["direction"] != "output":
            continue
        src = _source_of(node, (None, p["name"]))
        if src is not None:
            k = src_known(src)
            wchildren = [c for c in node["children"] if any(r["name"] == "width" and r["value"][0] == "num" for r in c["resources"])]
            if k is not None and wchildren and node["repetition"] is None and rng.random() < opts.p_output_child_res and E.fv(k) <= set(scope + port_syms):
                # declared consistently with what flows in (W7), but written in terms of a RESOURCE of a child: k + c.width - <its value>
                wc = rng.choice(wchildren)
                wv = next(r["value"] for r in wc["resources"] if r["name"] == "width")
                p["size"] = E.bin_("-", E.bin_("+", k, E.sym(wc["name"] + ".width")), wv)
            elif k is not None and rng.random() < 0.15 and E.fv(k) <= set(scope + port_syms):
                p["size"] = k      # declared consistently with what flows in (W7)
            else:
                p["size"] = None
            known_out[p["name"]] = k
        else:
            syms = scope + port_syms
            if rng.random() < opts.p_zero_size:
                p["size"] = E.num(0)       # an empty register, written as the integer 0 in the document
            else:
                p["size"] = gen_poly(rng, syms, 1, positive=True) if syms else E.num(rng.randint(1, 4))
            known_out[p["name"]] = p["size"]
    node["_known_out"] = known_out


def _source_of(node, target):
    for (s, t) in node["connections"]:
        if t == target:
            return s
    return None


def _topo_children(node):
    names = [c["name"] for c in node["children"]]
    preds = {n: set() for n in names}
    for (s, t) in node["connections"]:
        if s[0] is not None and t[0] is not None:
            preds[t[0]].add(s[0])
    out, seen = [], set()
    while len(out) < len(names):
        progressed = False
        for n in names:
            if n not in seen and preds[n] <= seen:
                out.append(n)
                seen.add(n)
                progressed = True
        if not progressed:
            raise ValueError("cycle")
    return out


def _translate_down(k, parent, child, rng=None, create=0.0):
    """Express a size known in the parent's scope in the child's scope, if every symbol of it reaches the
    child through a direct link; with probability `create` missing links (and child parameters) are created;
    otherwise unknown."""
    if k is None:
        return None
    sigma = {}
    for s in sorted(E.fv(k)):
        tgt = None
        for src, ts in parent["linked_params"]:
            if src == s:
                for (path, prm) in ts:
                    if path == child["name"]:
                        tgt = prm
        if tgt is None:
            declared_in_parent = s in parent["input_params"] or s in [v for v, _ in parent["local_variables"]]
            if rng is None or not declared_in_parent or rng.random() >= create or child["repetition"] is not None:
                return None
            taken = set(child["input_params"]) | {v for v, _ in child["local_variables"]} | set(child.get("_scope", []))
            free = [x for x in POOL + ["P", "R"] if x not in taken]
            if not free:
                return None
            tgt = rng.choice(free)
            child["input_params"].append(tgt)
            child.setdefault("_scope", []).append(tgt)
            for i, (src, ts) in enumerate(parent["linked_params"]):
                if src == s:
                    ts.append((child["name"], tgt))
                    break
            else:
                parent["linked_params"].append((s, [(child["name"], tgt)]))
        sigma[s] = E.sym(tgt)
    return E.subst(k, sigma)


def _translate_up(k, parent, child, inc_src):
    if k is None:
        return None
    sigma = {}
    for s in E.fv(k):
        if s.startswith("#"):
            v = inc_src(s[1:])
            if v is None:
                return None
            sigma[s] = v
            continue
        if s in child.get("_port_syms", []):
            port = next((p["name"] for p in child["ports"] if p["size"] == ("sym", s)), None)
            v = inc_src(port) if port else None
            if v is None:
                return None
            sigma[s] = v
            continue
        if s in child["input_params"]:
            srcs = [src for src, ts in parent["linked_params"] for (path, prm) in ts if path == child["name"] and prm == s]
            if len(srcs) != 1:
                return None
            sigma[s] = E.sym(srcs[0])
            continue
        return None
    return E.subst(k, sigma)


def _canon_sizes(node):
    """sympy canonicalises on parsing: a size such as `K * 1` *is* the single symbol K for the real code.  Keep the
    generator's classification (single symbol / constant / compound) aligned with that."""
    for p in node["ports"]:
        t = p["size"]
        if t is not None and t[0] not in ("sym", "num"):
            se = E.to_sympy(t)
            if se.is_Symbol:
                p["size"] = E.sym(str(se))
            elif se.is_Integer:
                p["size"] = E.num(int(se))
    for c in node["children"]:
        _canon_sizes(c)


def _strip(node):
    for k in [k for k in node if k.startswith("_")]:
        del node[k]
    for c in node["children"]:
        _strip(c)


def gen_routine(rng: random.Random, opts: Opts | None = None):
    opts = opts or Opts()
    depth = rng.randint(1, opts.max_depth)
    root = _structure(rng, "root", depth, opts)
    if root["repetition"] == "PENDING":
        root["repetition"] = None
    _decorate(rng, root, opts, True)
    _assign_sizes(rng, root, opts, {}, True)
    _canon_sizes(root)
    _strip(root)
    if rng.random() < opts.p_reserved_port_name:
        _reserved_port_name(rng, root)
    if rng.random() < opts.p_twin_leaf:
        _twin_leaf(rng, root)
    return root


def _twin_leaf(rng, root):
    """give some routine a TWIN of one of its port-less, parameter-less leaves: the same definition under another name and another
    type (two gates with the same cost model)"""
    cands = []

    def rec(n):
        if n["repetition"] is None:
            for c in n["children"]:
                if not c["children"] and not c["ports"] and not c["input_params"] and c["repetition"] is None and c["resources"]:
                    cands.append((n, c))
        for c in n["children"]:
            rec(c)
    rec(root)
    if not cands:
        return
    par, leaf = rng.choice(cands)
    import copy as _copy

    twin = _copy.deepcopy(leaf)
    twin["name"] = next(x for x in ["tw", "tw2", "tw3"] if all(c["name"] != x for c in par["children"]))
    twin["type"] = rng.choice([t for t in ["twin_kind", "gate", "leaf", None] if t != leaf.get("type")])
    par["children"].insert(par["children"].index(leaf) + rng.choice([0, 1]), twin)


def _reserved_port_name(rng, root):
    """rename one port of one routine to a name that is a reserved word of the expression language (`in`, `lambda`): legal QREF
    names; the port's size variable is then `#in` / `#lambda`"""
    pairs = []   # (parent or None, node)

    def rec(parent, n):
        pairs.append((parent, n))
        for c in n["children"]:
            rec(n, c)
    rec(None, root)
    cands = [(par, n) for par, n in pairs if n["ports"] and n["repetition"] is None and (par is None or par["repetition"] is None)]
    if not cands:
        return
    par, n = rng.choice(cands)
    new = rng.choice(["in", "lambda"])
    if any(p["name"] == new for p in n["ports"]):
        return
    p = rng.choice(n["ports"])
    old = p["name"]
    p["name"] = new
    n["connections"] = [((a[0], new) if a == (None, old) else a, (b[0], new) if b == (None, old) else b) for a, b in n["connections"]]
    if par is not None:
        me = n["name"]
        par["connections"] = [((me, new) if a == (me, old) else a, (me, new) if b == (me, old) else b) for a, b in par["connections"]]


# ------------------------------------------------------------------------------------------------
# rendering
class Rendered:
    """QREF dict + table string->tree for every expression string placed in the document"""

    def __init__(self):
        self.tree_of = {}

    def s(self, t, as_int_ok=True):
        if t[0] == "num" and t[1].denominator == 1 and as_int_ok:
            v = int(t[1])
            self.tree_of[str(v)] = t
            return v
        if t[0] == "num" and t[1].denominator == 2 and as_int_ok and len(self.tree_of) % 2 == 0:
            v = float(t[1])           # exactly representable: a document may hold the number 1.5 as well as the text "3/2"
            self.tree_of[str(v)] = t
            return v
        st = E.to_str(t)
        self.tree_of[st] = t
        return st


def to_qref(node, R: Rendered):
    d = {"name": node["name"]}
    if node.get("type"):
        d["type"] = node["type"]
    if node["input_params"]:
        d["input_params"] = list(node["input_params"])
    if node["local_variables"]:
        d["local_variables"] = {v: str(R.s(t)) for v, t in node["local_variables"]}
    if node["linked_params"]:
        lks = []
        for i, (s, ts) in enumerate(node["linked_params"]):
            tg = [f"{p}.{q}" for p, q in ts]
            # a document may list several links with the same source (a shape QREF accepts): split one now and then
            if len(tg) >= 2 and (len(node["name"]) + i + len(tg)) % 5 == 0:
                lks.append({"source": s, "targets": tg[:1]})
                lks.append({"source": s, "targets": tg[1:]})
            else:
                lks.append({"source": s, "targets": tg})
        d["linked_params"] = lks
    if node["ports"]:
        d["ports"] = [{"name": p["name"], "direction": p["direction"], "size": None if p["size"] is None else R.s(p["size"])}
                      for p in node["ports"]]
    if node["resources"]:
        d["resources"] = [{"name": r["name"], "type": r["type"], "value": R.s(r["value"])} for r in node["resources"]]
    if node["connections"]:
        d["connections"] = [{"source": _ep(s), "target": _ep(t)} for s, t in node["connections"]]
    if node["repetition"]:
        rep = node["repetition"]
        seq = dict(rep["sequence"])
        for k in list(seq):
            if k in ("type", "num_terms_symbol", "iterator_symbol"):
                continue
            seq[k] = None if seq[k] is None else R.s(seq[k])
        for k in ("sum", "prod", "term_expression"):
            if seq.get(k) is not None:
                seq[k] = str(seq[k])
        cnt = R.s(rep["count"])
        # optional fields may be left to the schema's defaults: an arithmetic sequence starting at 0 often omits `initial_term`
        if seq.get("type") == "arithmetic" and rep["sequence"]["initial_term"] == ("num", Fraction(0)) and len(node["name"]) % 2 == 1:
            del seq["initial_term"]
        d["repetition"] = {"count": cnt, "sequence": seq}
    if node["children"]:
        d["children"] = [to_qref(c, R) for c in node["children"]]
    return d


def _ep(e):
    return e[1] if e[0] is None else f"{e[0]}.{e[1]}"


def routine_sexp(prog, tree_of) -> str:
    """Encode a qref RoutineV1 (i.e. *after* qref's own normalisation/sorting) for the model driver."""

    def ex(v):
        if v is None:
            return "_"
        key = str(v)
        if key in tree_of:
            return E.to_sexp(tree_of[key])
        if isinstance(v, int):
            return E.to_sexp(E.num(v))
        raise KeyError(f"no tree for expression {v!r}")

    def ep(s):
        if "." in s:
            a, b = s.split(".")
            return f"({a} {b})"
        return f"(_ {s})"

    def go(r):
        ty = r.type if r.type else "_"
        ips = " ".join(r.input_params)
        lvs = " ".join(f"({v} {ex(e)})" for v, e in r.local_variables.items())
        lks = " ".join("(" + str(lk.source) + "".join(" (" + t.rsplit(".", 1)[0] + " " + t.rsplit(".", 1)[1] + ")" for t in lk.targets) + ")"
                       for lk in r.linked_params)
        ps = " ".join(f"({p.name} {p.direction} {ex(p.size)})" for p in r.ports)
        rs = " ".join(f"({x.name} {x.type} {ex(x.value)})" for x in r.resources)
        cs = " ".join(f"({ep(c.source)} {ep(c.target)})" for c in r.connections)
        rep = "_"
        if r.repetition is not None:
            q = r.repetition.sequence
            if q.type == "constant":
                sq = f"(constant {ex(q.multiplier)})"
            elif q.type == "arithmetic":
                sq = f"(arithmetic {ex(q.initial_term)} {ex(q.difference)})"
            elif q.type == "geometric":
                sq = f"(geometric {ex(q.ratio)})"
            elif q.type == "closed_form":
                sq = f"(closed_form {ex(q.sum)} {ex(q.prod)} (s {q.num_terms_symbol}))"
            else:
                sq = f"(custom {ex(q.term_expression)} (s {q.iterator_symbol}))"
            rep = f"(rep {ex(r.repetition.count)} {sq})"
        ch = " ".join(go(c) for c in r.children)
        return f"(routine {r.name} {ty} ({ips}) ({lvs}) ({lks}) ({ps}) ({rs}) ({cs}) {rep} ({ch}))"

    return go(prog)
