"""Thin layer over the real PsiQ/bartiq code (imported from /repo/src) used by every check."""
from __future__ import annotations

import os
import sys
import warnings

REPO = os.environ.get("BARTIQ_REPO", "/repo")
sys.path.insert(0, os.path.join(REPO, "src"))
warnings.filterwarnings("ignore")

import bartiq  # noqa: E402
from bartiq import compile_routine, evaluate, sympy_backend  # noqa: E402
from bartiq.errors import BartiqCompilationError, BartiqPreprocessingError  # noqa: E402
from qref import SchemaV1  # noqa: E402

assert os.path.realpath(bartiq.__file__).startswith(os.path.realpath(os.path.join(REPO, "src"))), \
    f"bartiq imported from {bartiq.__file__}, not from {REPO}/src"


def schema(program: dict) -> SchemaV1:
    return SchemaV1(version="v1", program=program)


def exc_class(e: BaseException) -> str:
    if isinstance(e, BartiqCompilationError):
        return "compilation"
    if isinstance(e, BartiqPreprocessingError):
        return "preprocessing"
    return "internal:" + type(e).__name__


DEFAULT_FORM = "schema"    # --replay sets it to the recorded input form


def try_compile(program: dict, form: str | None = None, **kw):
    """-> ('ok', CompilationResult) | (error class, exception).  `form` selects which of the input shapes the public API
    accepts is handed over: the whole document (`schema`), its `program` (`program`), or a plain dict dump of the document
    validated again (`dict`) — all three are verified and must behave alike."""
    form = form or DEFAULT_FORM
    try:
        q = schema(program)
        if form == "program":
            q = q.program
        elif form == "dict":
            q = SchemaV1.model_validate(q.model_dump())
        elif form == "rawdict":
            q = q.model_dump()                   # a plain Python dict with the version/program wrapper
        elif form == "rawprogram":
            q = q.program.model_dump()           # … and without it
    except Exception as e:  # schema-invalid input: not bartiq's business
        return "schema", e
    if form in ("routine", "routine-twice"):
        # the fourth input shape: a bartiq.Routine object built by the caller (verification is the caller's business then);
        # `routine-twice`: the SAME object has already been compiled once — compiling must not have changed it
        try:
            q = bartiq.Routine.from_qref(q, sympy_backend)
            if form == "routine-twice":
                try:
                    compile_routine(q, **kw)
                except Exception:
                    pass
        except Exception as e:
            return exc_class(e), e
    try:
        return "ok", compile_routine(q, **kw)
    except Exception as e:
        return exc_class(e), e


def walk(cr, path=()):
    """yield (path tuple, CompiledRoutine) in pre-order"""
    yield path, cr
    for name, ch in cr.children.items():
        yield from walk(ch, path + (name,))
