"""Lean side of every check: regenerate Generated/*.lean from /repo, build, audit axioms, scan sources.

The result for a property id is a dict
  {ok, obligations, discharged, theorems:[{name, axioms, ok}], failures:[str], build_log_tail, checker_cmd}
`ok` is False when the property's module (or the model, or a generated file) no longer elaborates, when a theorem
depends on an axiom outside {propext, Classical.choice, Quot.sound}, or when a forbidden token appears.
"""
from __future__ import annotations

import fcntl
import hashlib
import json
import os
import re
import subprocess
import time

ROOT = os.path.dirname(os.path.dirname(os.path.abspath(__file__)))
LEAN = os.path.join(ROOT, "lean")
ALLOWED_AXIOMS = {"propext", "Classical.choice", "Quot.sound"}
FORBIDDEN = re.compile(r"\bsorry\b|\badmit\b|^\s*axiom\s|native_decide|bv_decide|implemented_by|\bunsafe\s|maxHeartbeats\s+0")


class Lock:
    def __enter__(self):
        self.f = open(os.path.join(LEAN, ".build.lock"), "w")
        fcntl.flock(self.f, fcntl.LOCK_EX)
        return self

    def __exit__(self, *a):
        fcntl.flock(self.f, fcntl.LOCK_UN)
        self.f.close()


def _run(cmd, timeout=3600):
    p = subprocess.run(cmd, cwd=LEAN, capture_output=True, text=True, timeout=timeout)
    return p.returncode, (p.stdout + p.stderr)


def translate():
    """run every translator; each rewrites its Generated file only when the content changes"""
    from .translate import run_all

    return run_all()


def strip_comments(src: str) -> str:
    src = re.sub(r"/-.*?-/", "", src, flags=re.S)
    return "\n".join(ln.split("--")[0] for ln in src.split("\n"))


def scan_sources():
    hits = []
    for d in ("BartiqModel", "BartiqProofs", "Properties", "Generated"):
        for dp, _, fs in os.walk(os.path.join(LEAN, d)):
            for f in fs:
                if f.endswith(".lean"):
                    path = os.path.join(dp, f)
                    for i, ln in enumerate(strip_comments(open(path).read()).split("\n")):
                        if FORBIDDEN.search(ln):
                            hits.append(f"{os.path.relpath(path, LEAN)}:{i + 1}: {ln.strip()[:80]}")
    return hits


def theorems_of(prop_id: str):
    path = os.path.join(LEAN, "Properties", f"{prop_id}.lean")
    if not os.path.exists(path):
        return []
    src = strip_comments(open(path).read())
    return re.findall(r"^\s*theorem\s+(" + prop_id + r"_\w+)", src, flags=re.M)


def _sources_hash():
    h = hashlib.sha256()
    for d in ("BartiqModel", "BartiqProofs", "Properties", "Generated"):
        for dp, dn, fs in sorted(os.walk(os.path.join(LEAN, d))):
            dn.sort()
            for f in sorted(fs):
                if f.endswith(".lean"):
                    h.update(f.encode())
                    h.update(open(os.path.join(dp, f), "rb").read())
    return h.hexdigest()


def gate(prop_id: str, thorough=False):
    t0 = time.time()
    out = {"ok": True, "obligations": 0, "discharged": 0, "theorems": [], "failures": [], "build_log_tail": "",
           "checker_cmd": f"cd lean && lake build Properties.{prop_id} driver && lake env lean <generated #print axioms audit>"}
    with Lock():
        try:
            gen = translate()
            out["generated"] = gen
            from .translate import DEPENDS

            for fname, info in gen.items():
                if "error" in info:
                    if prop_id in DEPENDS.get(fname, set()):
                        # the translator this property's theorems depend on could not read the source: the tie itself is broken
                        out["ok"] = False
                        out["failures"].append(f"translator of {fname} failed: {info['error']}")
                    else:
                        out.setdefault("notes", []).append(f"translator of {fname} failed (not used by {prop_id}): {info['error']}")
        except Exception as e:
            out["ok"] = False
            out["failures"].append(f"translators failed: {type(e).__name__}: {e}")
            gen = {}
        rc, log = _run(["lake", "build", "BartiqModel", "Generated", "driver"])
        if rc != 0:
            out["ok"] = False
            out["failures"].append("model/driver build failed")
            out["build_log_tail"] = log[-1500:]
        names = theorems_of(prop_id)
        out["obligations"] = len(names)
        if not names:
            # no theorem file for this property (claimed as exploration): only the model/driver/translators are gated
            rc, log = 0, ""
        else:
            rc, log = _run(["lake", "build", f"Properties.{prop_id}"])
        if not names:
            pass
        elif rc != 0:
            out["ok"] = False
            out["failures"].append(f"Properties.{prop_id} does not build")
            out["build_log_tail"] = log[-2500:]
            out["theorems"] = [{"name": n, "axioms": None, "ok": False} for n in names]
        else:
            cache_path = os.path.join(LEAN, ".audit_cache.json")
            key = _sources_hash() + ":" + prop_id
            cache = {}
            if os.path.exists(cache_path):
                try:
                    cache = json.load(open(cache_path))
                except Exception:
                    cache = {}
            if key in cache:
                res = cache[key]
            else:
                audit = f"import Properties.{prop_id}\nopen Bartiq\n" + "".join(f"#print axioms {n}\n" for n in names)
                apath = os.path.join(LEAN, f".Audit_{prop_id}.lean")
                open(apath, "w").write(audit)
                rc, log = _run(["lake", "env", "lean", apath])
                os.unlink(apath)
                res = {}
                for m in re.finditer(r"'([\w.]+)' (depends on axioms: \[([^\]]*)\]|does not depend on any axioms)", log):
                    res[m.group(1).split(".")[-1]] = [a.strip() for a in (m.group(3) or "").replace("\n", " ").split(",") if a.strip()]
                if rc != 0:
                    res["__error__"] = log[-800:]
                cache = {k: v for k, v in cache.items() if k.split(":")[0] == key.split(":")[0]}
                cache[key] = res
                json.dump(cache, open(cache_path, "w"))
            if "__error__" in res:
                out["ok"] = False
                out["failures"].append("axiom audit failed: " + res["__error__"][-300:])
            for n in names:
                ax = res.get(n)
                good = ax is not None and set(ax) <= ALLOWED_AXIOMS
                out["theorems"].append({"name": n, "axioms": ax, "ok": good})
                if good:
                    out["discharged"] += 1
                else:
                    out["ok"] = False
                    out["failures"].append(f"theorem {n}: axioms {ax}")
        hits = scan_sources()
        if hits:
            out["ok"] = False
            out["failures"].append("forbidden tokens: " + "; ".join(hits[:5]))
        if thorough and out["ok"]:
            rc, log = _run(["lake", "env", "leanchecker", f"Properties.{prop_id}"], timeout=3600)
            out["leanchecker_rc"] = rc
            if rc != 0:
                out["ok"] = False
                out["failures"].append("leanchecker rejected Properties." + prop_id + ": " + log[-300:])
    out["wall_s"] = round(time.time() - t0, 2)
    return out
