"""Common machinery of every check: context, violation/replay/evidence writing, verdict logic."""
from __future__ import annotations

import collections
import json
import os
import random
import sys
import time
import traceback

ROOT = os.path.dirname(os.path.dirname(os.path.abspath(__file__)))
TRUSTED_BASE = [
    "Lean 4.33 kernel; Mathlib v4.33 lemmas used by the proofs",
    "axioms admitted in property theorems: propext, Classical.choice, Quot.sound (audited by #print axioms every run)",
    "translators harness/translate/*.py (tables, stage order, closed forms extracted from /repo/src)",
    "correspondence harness (generators, line protocol, exact rational evaluators, semantic comparator); CPython 3.12, sympy 1.14 rational arithmetic",
    "modelled, not verified: sympy canonicalisation/expand/N/printers, ast.parse, graphlib, pydantic/qref validators, IEEE floats",
]


def jsonable(x):
    from fractions import Fraction

    if isinstance(x, Fraction):
        return str(x)
    if isinstance(x, (str, int, float, bool)) or x is None:
        return x
    if isinstance(x, dict):
        return {str(k): jsonable(v) for k, v in x.items()}
    if isinstance(x, (list, tuple, set)):
        return [jsonable(v) for v in x]
    return str(x)


class Ctx:
    def __init__(self, prop, tier, seed, level="proof"):
        self.prop = prop
        self.tier = tier
        self.seed = seed
        self.level = level
        self.rng = random.Random(seed * 1000003 + sum(map(ord, prop)))
        self.stats = collections.Counter()
        self.samples = []
        self.violations = []      # unlisted violations: dicts
        self.known_hits = []      # listed findings re-observed
        self.distinct = set()
        self.disagreements = []   # model/implementation disagreements (correspondence)
        self.t0 = time.time()
        self.rule = ""
        self.notes = []
        self.exhaustive = False
        kf = json.load(open(os.path.join(ROOT, "known_findings.json")))
        self.known = kf.get("known", [])

    def thorough(self):
        return self.tier == "thorough"

    def n(self, quick, thorough):
        return thorough if self.thorough() else quick

    def sample(self, s, cap=6):
        if len(self.samples) < cap:
            self.samples.append(jsonable(s))

    def nontrivial(self, key):
        """count a distinct non-trivial case (key must be hashable and canonical)"""
        self.distinct.add(key)

    def is_known(self, witness_id):
        for k in self.known:
            if k.get("property") == self.prop and k.get("witness_id") == witness_id:
                return k
        return None

    def violation(self, kind, what, replay_input, observed=None, expected=None, witness_id=None):
        if witness_id is not None:
            k = self.is_known(witness_id)
            if k is not None:
                self.known_hits.append(k)
                return
        self.violations.append({"kind": kind, "what": what, "input": jsonable(replay_input),
                                "observed": jsonable(observed), "expected": jsonable(expected)})

    def disagreement(self, name, replay_input, model, impl):
        self.disagreements.append({"correspondence": name, "input": jsonable(replay_input),
                                   "model": jsonable(model), "impl": jsonable(impl)})


def write_replay(ctx, payload, idx):
    d = os.path.join(ROOT, "replays")
    os.makedirs(d, exist_ok=True)
    path = os.path.join(d, f"{ctx.prop}-{ctx.seed}-{idx}.json")
    payload = dict(payload)
    payload["property"] = ctx.prop
    payload["seed"] = ctx.seed
    payload["tier"] = ctx.tier
    with open(path, "w") as f:
        json.dump(jsonable(payload), f, indent=1)
    return path


def finish(ctx, lean):
    """Verdict logic of DESIGN §3.2.  Returns the exit code."""
    lines = []
    code = 0
    for k in {json.dumps(k, sort_keys=True): k for k in ctx.known_hits}.values():
        lines.append(f"KNOWN-FINDING: property={ctx.prop} {k.get('what', '')}")
    if ctx.violations:
        v = ctx.violations[0]
        path = write_replay(ctx, {"kind": "failing-input", **v, "other_violations": len(ctx.violations) - 1}, 0)
        lines.append(f"VIOLATION property={ctx.prop} replay={os.path.relpath(path, ROOT)}")
        code = 1
    elif lean is not None and not lean["ok"]:
        path = write_replay(ctx, {"kind": "broken-theorem", "failures": lean["failures"],
                                  "theorems": lean["theorems"], "build_log_tail": lean["build_log_tail"],
                                  "searched": dict(ctx.stats)}, 0)
        lines.append(f"VIOLATION property={ctx.prop} replay={os.path.relpath(path, ROOT)} no-failing-input-found")
        code = 1
    elif ctx.disagreements:
        d = ctx.disagreements[0]
        path = write_replay(ctx, {"kind": "broken-correspondence", **d, "other_disagreements": len(ctx.disagreements) - 1,
                                  "searched": dict(ctx.stats)}, 0)
        lines.append(f"VIOLATION property={ctx.prop} replay={os.path.relpath(path, ROOT)} no-failing-input-found")
        code = 1
    wall = round(time.time() - ctx.t0, 2)
    cov = {
        "obligations": (lean or {}).get("obligations", 0),
        "discharged": (lean or {}).get("discharged", 0),
        "checker_cmd": (lean or {}).get("checker_cmd", ""),
        "trusted_base": TRUSTED_BASE,
        "theorems": (lean or {}).get("theorems", []),
        "generated": (lean or {}).get("generated", {}),
        "evaluations": int(ctx.stats.get("evaluations", 0)),
        "distinct_nontrivial": len(ctx.distinct),
        "rule": ctx.rule,
        "samples": ctx.samples or ["(no sample recorded)"],
        "disagreements_checked": int(ctx.stats.get("model_vs_impl_compared", 0)),
        "traces_validated_against_impl": int(ctx.stats.get("model_vs_impl_compared", 0)),
        "distribution": {k: v for k, v in sorted(ctx.stats.items())},
        "exhaustive": bool(ctx.exhaustive),
        "lean_failures": (lean or {}).get("failures", []),
        "explanation": "; ".join(ctx.notes) if ctx.notes else "see level_note in MANIFEST.json and DESIGN.md",
    }
    ev = {
        "property_id": ctx.prop, "tier": ctx.tier, "seed": ctx.seed, "level": ctx.level, "coverage": cov,
        "assumptions": TRUSTED_BASE, "wall_s": wall, "violations": len(ctx.violations) + (0 if code == 0 else (0 if ctx.violations else 1)),
    }
    # a development run without the Lean gate is not evidence for a proof-level claim: it is written elsewhere
    evdir = os.path.join(ROOT, "evidence" if lean is not None else "evidence-dev")
    os.makedirs(evdir, exist_ok=True)
    with open(os.path.join(evdir, f"{ctx.prop}.json"), "w") as f:
        json.dump(jsonable(ev), f, indent=1)
    for ln in lines:
        print(ln)
    print(f"[{ctx.prop}] tier={ctx.tier} seed={ctx.seed} level={ctx.level} lean={'skipped' if lean is None else ('ok' if lean.get('ok') else 'BROKEN')} "
          f"theorems={cov['discharged']}/{cov['obligations']} evaluations={cov['evaluations']} "
          f"nontrivial={cov['distinct_nontrivial']} model-vs-impl={cov['disagreements_checked']} "
          f"disagreements={len(ctx.disagreements)} violations={len(ctx.violations)} wall={wall}s")
    return code


def main(argv):
    import argparse
    import importlib

    ap = argparse.ArgumentParser()
    ap.add_argument("prop")
    ap.add_argument("--tier", default=os.environ.get("VERIF_TIER", "quick"))
    ap.add_argument("--replay", default=None)
    ap.add_argument("--no-lean", action="store_true", help="development only: skip the Lean gate")
    a = ap.parse_args(argv)
    seed = int(os.environ.get("VERIF_SEED", "0") or 0)
    mod = importlib.import_module(f"harness.props.{a.prop.lower()}")
    if a.replay:
        payload = json.load(open(a.replay))
        if isinstance(payload.get("input"), dict) and payload["input"].get("input_form"):
            from . import real

            real.DEFAULT_FORM = payload["input"]["input_form"]
            print("input form:", real.DEFAULT_FORM)
        return mod.replay(payload)
    from . import leangate

    level = getattr(mod, "LEVEL", "proof")
    has_theorems = bool(leangate.theorems_of(a.prop))
    if not has_theorems and level == "proof":
        level = "exploration"      # no theorem file yet for this property: claim only what is there (see MANIFEST level_claimed)
    ctx = Ctx(a.prop, a.tier, seed, level=level)
    lean = None
    try:
        if not a.no_lean:

            lean = leangate.gate(a.prop, thorough=ctx.thorough())
            if not lean["ok"]:
                ctx.notes.append("Lean obligations broken: " + "; ".join(lean["failures"])[:300])
        mod.run(ctx, widen=bool(lean and not lean["ok"]))
    except (ImportError, AttributeError) as e:
        # an observation point the harness ties the model to (a module, a function, an attribute of the implementation) is gone:
        # the tie is broken, which is reported like any other broken correspondence — not as an infrastructure failure
        traceback.print_exc()
        ctx.disagreement("observation point missing in the implementation", {"error": f"{type(e).__name__}: {e}"},
                         "present when the model was written", f"{type(e).__name__}: {e}")
        ctx.notes.append("the search for a failing input was cut short by the missing observation point")
    except Exception:
        traceback.print_exc()
        print(f"[{a.prop}] infrastructure failure", file=sys.stderr)
        return 2
    return finish(ctx, lean)
