"""Independent reference semantics: the *bottom-up reading* of a source routine (properties C01, C02, C06,
C08), computed numerically with exact fractions directly on the generator's spec.  No substitution, no
preprocessing, no sympy, no bartiq code: names are looked up per scope.

denote(root, top) -> NodeVal tree:  {"ports": {name: value}, "resources": {name: value}, "children": {...},
                                    "mismatch": [...], "o1": [...]}
`top` maps top-level input names (root parameters, `path.param` of unlinked parameters, `#port` of unsized root
input ports) to Fractions.
"""
from __future__ import annotations

from fractions import Fraction

from . import expr as E


class Ill(Exception):
    """the source routine is outside the domain of the reading (not well-scoped, cyclic, ...)"""


def top_level_inputs(root):
    """names of the inputs of the compiled top-level routine, as the property C01 defines them"""
    out = list(root["input_params"])
    for p in root["ports"]:
        if p["direction"] in ("input", "through") and p["size"] is None:
            out.append("#" + p["name"])

    def rec(node, path, linked_here):
        for ch in node["children"]:
            cpath = path + [ch["name"]]
            # parameters of ch (or deeper) linked from this node or an ancestor
            linked = set(linked_here.get(ch["name"], set()))
            deeper = {}
            for k, v in linked_here.items():
                if k.startswith(ch["name"] + "."):
                    deeper[k[len(ch["name"]) + 1:]] = v
            for src, ts in node["linked_params"]:
                for (pth, prm) in ts:
                    if pth == ch["name"]:
                        linked.add(prm)
                    elif pth.startswith(ch["name"] + "."):
                        deeper.setdefault(pth[len(ch["name"]) + 1:], set()).add(prm)
            for prm in ch["input_params"]:
                if prm not in linked:
                    out.append(".".join(cpath + [prm]))
            rec(ch, cpath, deeper)

    rec(root, [], {})
    return out


def seq_total(rep, scope_ev, kind):
    """Σ_{i<count} term_i  (kind='sum')  as the unrolled reading; returns a function value -> total"""
    raise NotImplementedError


def _iter_terms(rep, ev, count):
    seq = rep["sequence"]
    t = seq["type"]
    if t == "constant":
        m = ev(seq["multiplier"])
        return [m for _ in range(count)]
    if t == "arithmetic":
        a, d = ev(seq["initial_term"]), ev(seq["difference"])
        return [a + i * d for i in range(count)]
    if t == "geometric":
        r = ev(seq["ratio"])
        return [r**i for i in range(count)]
    if t == "custom":
        return [ev(seq["term_expression"], {seq["iterator_symbol"]: Fraction(i)}) for i in range(count)]
    raise KeyError(t)


def denote(root, top, salt=0, funcs=None, child_order=None):
    def node_val(node, path, given, incoming, is_root):
        scope = {}
        mismatch, o1 = [], []
        # 1 parameters
        for p in node["input_params"]:
            if p in given:
                scope[p] = given[p]
            else:
                key = ".".join(path + [p])
                if key not in top:
                    raise Ill(f"top-level input {key} missing")
                scope[p] = top[key]
        local_names = [v for v, _ in node["local_variables"]]
        portvals = {}
        # 2 non-output ports
        nonout = [p for p in node["ports"] if p["direction"] in ("input", "through")]
        if is_root:
            pass
        else:
            def key(p):
                single = p["size"] is None or p["size"][0] == "sym"
                return (not single, p["name"])

            bound_by_port = {}
            for p in sorted(nonout, key=key):
                if p["name"] not in incoming:
                    raise Ill(f"port {'.'.join(path)}.{p['name']} has no incoming wire")
                inc = incoming[p["name"]]
                scope["#" + p["name"]] = inc
                portvals[p["name"]] = inc
                sz = p["size"]
                if sz is None:
                    continue
                if sz[0] == "sym":
                    s = sz[1]
                    if s in bound_by_port:
                        if bound_by_port[s] != inc:
                            mismatch.append((".".join(path), p["name"], "repeated-symbol"))
                    elif s in node["input_params"]:
                        bound_by_port[s] = inc
                        if scope[s] != inc:
                            o1.append((".".join(path), p["name"], "param-redeclared"))
                    elif s in local_names:
                        bound_by_port[s] = inc
                        o1.append((".".join(path), p["name"], "local-redeclared"))
                        scope[s] = inc
                    else:
                        bound_by_port[s] = inc
                        scope[s] = inc
                    continue
                pending_compound.append((p, inc)) if False else None
                # constant or compound: evaluated after locals (below)
        # 3 locals in dependency order
        remaining = [(v, t) for v, t in node["local_variables"] if v not in scope]
        guard = 0
        while remaining:
            guard += 1
            if guard > 50:
                raise Ill("cyclic local variables")
            nxt = []
            for v, t in remaining:
                deps = {s for s in E.fv(t) if s in local_names and s != v}
                if all(d in scope for d in deps) and v not in E.fv(t):
                    try:
                        scope[v] = E.ev(t, scope, salt, funcs)
                    except KeyError as e:
                        raise Ill(f"undeclared symbol {e} in local {v} of {'.'.join(path)}")
                else:
                    nxt.append((v, t))
            remaining = nxt
        # root ports / declared-size checks
        if is_root:
            for p in nonout:
                if p["size"] is None:
                    k = "#" + p["name"]
                    if k not in top:
                        raise Ill(f"top-level input {k} missing")
                    portvals[p["name"]] = top[k]
                    scope[k] = top[k]
                else:
                    try:
                        portvals[p["name"]] = E.ev(p["size"], scope, salt, funcs)
                    except KeyError as e:
                        raise Ill(f"undeclared symbol {e} in root port size")
        else:
            for p in nonout:
                sz = p["size"]
                if sz is None or sz[0] == "sym":
                    continue
                try:
                    declared = E.ev(sz, scope, salt, funcs)
                except KeyError as e:
                    raise Ill(f"undeclared symbol {e} in size of port {p['name']} of {'.'.join(path)}")
                if declared != portvals[p["name"]]:
                    mismatch.append((".".join(path), p["name"], "constant" if sz[0] == "num" else "compound"))
        # 4 children, demand driven over the wiring DAG
        by_name = {c["name"]: c for c in node["children"]}
        child_vals = {}
        in_progress = set()

        def source_value(src):
            rt, pn = src
            if rt is None:
                if pn not in portvals:
                    raise Ill(f"connection from non-input port {pn} of {'.'.join(path) or 'root'}")
                return portvals[pn]
            cv = child_val(rt)
            if pn not in cv["ports"]:
                raise Ill(f"no port {rt}.{pn}")
            return cv["ports"][pn]

        def child_val(cn):
            if cn in child_vals:
                return child_vals[cn]
            if cn in in_progress:
                raise Ill("cyclic wiring")
            if cn not in by_name:
                raise Ill(f"no child {cn}")
            in_progress.add(cn)
            ch = by_name[cn]
            inc = {}
            for (s, t) in node["connections"]:
                if t[0] == cn:
                    inc[t[1]] = source_value(s)
            giv = {}
            for src, ts in node["linked_params"]:
                for (pth, prm) in ts:
                    if pth == cn or pth.startswith(cn + "."):
                        if src not in scope:
                            raise Ill(f"link source {src} undeclared in {'.'.join(path) or 'root'}")
                        key = prm if pth == cn else pth[len(cn) + 1:] + "." + prm
                        giv[key] = scope[src]
            # deep links handed down from above
            for k, v in given.items():
                if k.startswith(cn + "."):
                    giv[k[len(cn) + 1:]] = v
            child_vals[cn] = node_val(ch, path + [cn], giv, inc, False)
            in_progress.discard(cn)
            return child_vals[cn]

        order = child_order(node) if child_order else [c["name"] for c in node["children"]]
        for cn in order:
            child_val(cn)
        # 5 resources
        res_scope = dict(scope)
        for cn, cv in child_vals.items():
            for rn, rv in cv["resources"].items():
                res_scope[f"{cn}.{rn}"] = rv
        resources, restypes = {}, {}
        if node["repetition"] is not None:
            rep = node["repetition"]
            if len(node["children"]) != 1:
                raise Ill("repetition without exactly one child")
            cv = child_vals[node["children"][0]["name"]]

            def evs(t, extra=None):
                sc = dict(res_scope)
                if extra:
                    sc.update(extra)
                return E.ev(t, sc, salt, funcs)

            cnt = evs(rep["count"])
            if cnt.denominator != 1 or cnt < 0 or cnt > 300:
                raise E.Undefined("count not a small natural")
            cnt = int(cnt)
            seq = rep["sequence"]
            for rn, rv in cv["resources"].items():
                ty = cv["restypes"][rn]
                if ty == "additive":
                    if seq["type"] == "closed_form":
                        if seq["sum"] is None:
                            raise Ill("closed form without sum")
                        resources[rn] = None if rv is None else rv * evs(seq["sum"], {seq["num_terms_symbol"]: Fraction(cnt)})
                    else:
                        resources[rn] = None if rv is None else sum((t * rv for t in _iter_terms(rep, evs, cnt)), Fraction(0))
                    restypes[rn] = ty
                elif ty == "multiplicative":
                    if seq["type"] == "constant":
                        m = evs(seq["multiplier"])
                        resources[rn] = None if rv is None else E.fpow(rv, cnt * m)
                        restypes[rn] = ty
                    else:
                        resources[rn] = None      # outside what C07 states
                        restypes[rn] = ty
                elif ty == "qubits" and seq["type"] == "constant":
                    continue
                else:
                    raise Ill("resource type not allowed under repetition")
        else:
            for r in node["resources"]:
                try:
                    resources[r["name"]] = E.ev(r["value"], res_scope, salt, funcs)
                except KeyError as e:
                    raise Ill(f"undeclared symbol {e} in resource {r['name']} of {'.'.join(path) or 'root'}")
                except TypeError:
                    resources[r["name"]] = None
                restypes[r["name"]] = r["type"]
            # default propagation of additive / multiplicative resources
            add_names, mul_names = {}, {}
            for ch in node["children"]:
                cv = child_vals[ch["name"]]
                for rn, ty in cv["restypes"].items():
                    if ty == "additive":
                        add_names.setdefault(rn, []).append(ch["name"])
                    elif ty == "multiplicative":
                        mul_names.setdefault(rn, []).append(ch["name"])
            for rn, chs in add_names.items():
                if rn not in resources and rn not in mul_names:
                    vals = [child_vals[c]["resources"][rn] for c in chs]
                    resources[rn] = None if any(v is None for v in vals) else sum(vals, Fraction(0))
                    restypes[rn] = "additive"
            for rn, chs in mul_names.items():
                if rn not in resources:
                    vals = [child_vals[c]["resources"][rn] for c in chs]
                    if any(v is None for v in vals):
                        resources[rn] = None
                    else:
                        acc = Fraction(1)
                        for v in vals:
                            acc *= v
                        resources[rn] = acc
                    restypes[rn] = "multiplicative"
        # 6 output ports
        for p in node["ports"]:
            if p["direction"] != "output":
                continue
            src = None
            for (s, t) in node["connections"]:
                if t == (None, p["name"]):
                    src = s
            if p["size"] is not None:
                try:
                    portvals[p["name"]] = E.ev(p["size"], res_scope, salt, funcs)
                except KeyError as e:
                    raise Ill(f"undeclared symbol {e} in output size {p['name']} of {'.'.join(path) or 'root'}")
                if src is not None and source_value(src) != portvals[p["name"]]:
                    o1.append((".".join(path), p["name"], "output-redeclared"))
            elif src is not None:
                portvals[p["name"]] = source_value(src)
            else:
                raise Ill(f"unsized output {p['name']} of {'.'.join(path) or 'root'} with nothing wired to it")
        return {"ports": portvals, "resources": resources, "restypes": restypes,
                "children": child_vals, "mismatch": mismatch, "o1": o1, "scope": scope}

    pending_compound = []
    return node_val(root, [], {}, {}, True)


def collect(nv, key):
    out = list(nv[key])
    for c in nv["children"].values():
        out += collect(c, key)
    return out
