"""Semantic comparison of expressions coming from the real code (sympy objects / numbers) with trees coming from
the generator, the reference semantics or the Lean model."""
from __future__ import annotations

import random
from fractions import Fraction

from . import expr as E


def has_float(e) -> bool:
    import sympy

    if isinstance(e, float):
        return True
    if isinstance(e, int):
        return False
    return any(a.is_Float for a in sympy.preorder_traversal(e))


def close(a: Fraction, b: Fraction, floaty: bool) -> bool:
    if a == b:
        return True
    if not floaty:
        return False
    scale = max(abs(a), abs(b), Fraction(1, 10**300))
    return abs(a - b) <= scale * Fraction(1, 10**12)


def points(names, rng: random.Random, k=4, lo=2, hi=12, integer=True):
    out = []
    for _ in range(k):
        env = {}
        for n in sorted(names):
            v = Fraction(rng.randint(lo, hi))
            if not integer and rng.random() < 0.3:
                v = v / rng.randint(2, 5)
            env[n] = v
        out.append(env)
    return out


def sem_equal(real, tree, rng: random.Random, extra_names=(), k=4, funcs=None):
    """real: sympy expr / number from the implementation;  tree: harness tree.
    -> (verdict, detail) with verdict in {'equal', 'different', 'undecided'}"""
    fr, ft = E.sympy_fv(real), E.fv(tree)
    if not fr <= ft | set(extra_names):
        return "different", f"implementation mentions symbols {sorted(fr - ft)} the model/reference does not"
    hr, ht = E.sympy_heads(real), E.heads(tree)
    if not hr <= ht:
        return "different", f"implementation calls {sorted(hr - ht)} the model/reference does not"
    floaty = has_float(real)
    decided = 0
    for env in points(ft | fr, rng, k + 4):
        salt = rng.randint(0, 10**6)
        try:
            a = E.ev(tree, env, salt, funcs)
        except (E.Undefined, OverflowError):
            continue
        except KeyError:
            continue
        try:
            b = E.sympy_ev(real, dict(env), salt, funcs)
        except (E.Undefined, OverflowError):
            continue
        if not close(a, b, floaty):
            return "different", {"point": {k_: str(v) for k_, v in env.items()}, "model": str(a), "impl": str(b)}
        decided += 1
        if decided >= k:
            break
    return ("equal", decided) if decided else ("undecided", "no common point of definition found")
