"""Semantic comparison of expressions coming from the real code (sympy objects / numbers) with trees coming from
the generator, the reference semantics or the Lean model."""
from __future__ import annotations

import random
from fractions import Fraction

from . import expr as E


def has_float(e) -> bool:
    import sympy

    if isinstance(e, float):
        return True
    if isinstance(e, int):
        return False
    return any(a.is_Float for a in sympy.preorder_traversal(e))


def close(a: Fraction, b: Fraction, floaty: bool, tol: Fraction = Fraction(1, 10**12), inter: Fraction = Fraction(0)) -> bool:
    """`inter`: largest intermediate magnitude met while evaluating the float-carrying side; a 15-digit constant of that size
    contributes an absolute error of about 1e-15 * inter, which cancellation leaves in a small result"""
    if a == b:
        return True
    if not floaty and max(abs(a), abs(b)) < 10**12:
        return False   # (larger numbers are rounded by bartiq's numeric folding to about 15 digits even when the result is printed
        #                as an integer: 1508529953308672/27 = 55871479752172.296 is folded to the integer 55871479752173)
    inter = max(inter, getattr(a, "inter", 0), getattr(b, "inter", 0))
    scale = max(abs(a), abs(b), Fraction(1, 10**300), inter if floaty else Fraction(0))
    return abs(a - b) <= scale * tol


def points(names, rng: random.Random, k=4, lo=2, hi=12, integer=True):
    out = []
    for _ in range(k):
        env = {}
        for n in sorted(names):
            v = Fraction(rng.randint(lo, hi))
            if not integer and rng.random() < 0.3:
                v = v / rng.randint(2, 5)
            env[n] = v
        out.append(env)
    return out


def sem_equal(real, tree, rng: random.Random, extra_names=(), k=4, funcs=None):
    """real: sympy expr / number from the implementation;  tree: harness tree.
    -> (verdict, detail) with verdict in {'equal', 'different', 'undecided'}"""
    fr, ft = E.sympy_fv(real), E.fv(tree)
    if not fr <= ft | set(extra_names):
        return "different", f"implementation mentions symbols {sorted(fr - ft)} the model/reference does not"
    hr, ht = E.sympy_heads(real), E.heads(tree)
    if not hr <= ht:
        return "different", f"implementation calls {sorted(hr - ht)} the model/reference does not"
    floaty = has_float(real)
    decided = 0
    for env in points(ft | fr, rng, k + 4):
        salt = rng.randint(0, 10**6)
        try:
            a = E.ev(tree, env, salt, funcs)
        except (E.Undefined, OverflowError):
            continue
        except KeyError:
            continue
        trk = [] if floaty else None
        try:
            b = E.sympy_ev(real, dict(env), salt, funcs, track=trk)
        except (E.Undefined, OverflowError):
            continue
        if not close(a, b, floaty, inter=(trk[0] if trk else Fraction(0))):
            return "different", {"point": {k_: str(v) for k_, v in env.items()}, "model": str(a), "impl": str(b)}
        decided += 1
        if decided >= k:
            break
    return ("equal", decided) if decided else ("undecided", "no common point of definition found")


def sem_equal_real(a, b, rng: random.Random, rename=None, k=3, funcs=None, tol: Fraction = Fraction(1, 10**12)):
    """both sides come from the implementation (sympy / numbers).  `rename` maps symbol names of `a` to names of `b`.
    -> (verdict, detail)"""
    rename = rename or {}
    fa, fb = E.sympy_fv(a), E.sympy_fv(b)
    names_b = fb | {rename.get(n, n) for n in fa}
    decided = 0
    if not fa and not fb and not funcs and (has_float(a) or has_float(b)):
        # two CLOSED expressions of which one is a float: a constant such as log2(20) is written out as 4.32192809488736 (15 significant
        # digits); the exact evaluator reads `log2` as an uninterpreted function and cannot meet a float — compare numerically instead
        # (thorough seed 25, C13).  Calls of unknown functions do not evaluate: those fall through to the exact comparison below.
        try:
            import sympy

            za, zb = complex(sympy.N(sympy.sympify(a), 30)), complex(sympy.N(sympy.sympify(b), 30))
            if za == za and zb == zb:
                scale = max(1.0, abs(za), abs(zb))
                return ("equal", 1) if abs(za - zb) <= 1e-12 * scale else ("different", {"point": {}, "left": str(za), "right": str(zb)})
        except Exception:
            pass
    for env_b in points(names_b, rng, k + 4):
        salt = rng.randint(0, 10**6)
        env_a = {n: env_b[rename.get(n, n)] for n in fa}
        fl = has_float(a) or has_float(b)
        trk = [] if fl else None
        try:
            va = E.sympy_ev(a, env_a, salt, funcs, track=trk)
            vb = E.sympy_ev(b, dict(env_b), salt, funcs, track=trk)
        except (E.Undefined, OverflowError, KeyError):
            continue
        if not close(va, vb, fl, tol, inter=(trk[0] if trk else Fraction(0))):
            return "different", {"point": {k_: str(v) for k_, v in env_b.items()}, "left": str(va), "right": str(vb)}
        decided += 1
        if decided >= k:
            break
    return ("equal", decided) if decided else ("undecided", "no common point of definition found")


def trees_equal_real(ca, cb, rng, rename=None, constraints=True, path=()):
    """two real CompiledRoutine trees, matched by name; -> list of differences"""
    out = []
    where = ".".join(path) or "root"
    if set(ca.children) != set(cb.children):
        return [(where, "children", sorted(ca.children), sorted(cb.children))]
    if set(ca.resources) != set(cb.resources):
        return [(where, "resource names", sorted(ca.resources), sorted(cb.resources))]
    if set(ca.ports) != set(cb.ports):
        return [(where, "port names", sorted(ca.ports), sorted(cb.ports))]
    for rn in ca.resources:
        if ca.resources[rn].type != cb.resources[rn].type:
            out.append((where, f"type of {rn}", ca.resources[rn].type.value, cb.resources[rn].type.value))
        v, d = sem_equal_real(ca.resources[rn].value, cb.resources[rn].value, rng, rename)
        if v == "different":
            out.append((where, f"resource {rn}", str(ca.resources[rn].value), str(cb.resources[rn].value), d))
    for pn in ca.ports:
        v, d = sem_equal_real(ca.ports[pn].size, cb.ports[pn].size, rng, rename)
        if v == "different":
            out.append((where, f"port {pn}", str(ca.ports[pn].size), str(cb.ports[pn].size), d))
    if constraints:
        la, lb = list(ca.constraints), list(cb.constraints)
        if len(la) != len(lb):
            out.append((where, "number of constraints", [(str(c.lhs), str(c.rhs)) for c in la], [(str(c.lhs), str(c.rhs)) for c in lb]))
        else:
            # match as multisets: each constraint of a must equal (both sides, either orientation) an unused one of b
            used = set()
            for c in la:
                hit = None
                for j, d in enumerate(lb):
                    if j in used:
                        continue
                    ok1 = sem_equal_real(c.lhs, d.lhs, rng, rename)[0] != "different" and sem_equal_real(c.rhs, d.rhs, rng, rename)[0] != "different"
                    if ok1:
                        hit = j
                        break
                if hit is None:
                    out.append((where, "constraint without counterpart", (str(c.lhs), str(c.rhs)), [(str(d.lhs), str(d.rhs)) for d in lb]))
                else:
                    used.add(hit)
    for cn in ca.children:
        out += trees_equal_real(ca.children[cn], cb.children[cn], rng, rename, constraints, path + (cn,))
    return out
