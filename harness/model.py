"""Interface to the Lean model driver (line protocol)."""
from __future__ import annotations

import os
import subprocess

from . import expr as E

LEAN_DIR = os.path.join(os.path.dirname(os.path.dirname(os.path.abspath(__file__))), "lean")
DRIVER = os.path.join(LEAN_DIR, ".lake", "build", "bin", "driver")


def run_driver(lines: list[str], timeout=600) -> list:
    """send request lines, return parsed s-expression responses (one per line)"""
    if not lines:
        return []
    if os.path.exists(DRIVER):
        cmd = [DRIVER]
    else:
        cmd = ["lake", "env", "lean", "--run", "Driver.lean"]
    p = subprocess.run(cmd, input="\n".join(lines) + "\n", cwd=LEAN_DIR, capture_output=True, text=True, timeout=timeout)
    if p.returncode != 0:
        raise RuntimeError(f"model driver failed: {p.stderr[:500]}")
    out = [ln for ln in p.stdout.split("\n") if ln.strip()]
    if len(out) != len(lines):
        raise RuntimeError(f"model driver answered {len(out)} lines for {len(lines)} requests; stderr={p.stderr[:300]}")
    return [E.parse_sexp(ln) for ln in out]


def decode_croutine(x):
    """s-expression (read) of a compiled routine -> dict with trees"""
    assert x[0] == "croutine", x[0]
    _, name, ty, ips, ports, res, conns, rep, cons, children = x
    return {
        "name": name,
        "type": None if ty == "_" else ty,
        "input_params": list(ips),
        "ports": {p[0]: (p[1], E.from_sx(p[2])) for p in ports},
        "resources": {r[0]: (r[1], E.from_sx(r[2])) for r in res},
        "connections": [((None if c[0][0] == "_" else c[0][0], c[0][1]), (None if c[1][0] == "_" else c[1][0], c[1][1])) for c in conns],
        "repetition": None if rep == "_" else decode_rep(rep),
        "constraints": [(E.from_sx(c[0]), E.from_sx(c[1]), c[2]) for c in cons],
        "children": [decode_croutine(c) for c in children],
    }


def decode_rep(x):
    _, count, seq = x
    kind = seq[0]
    d = {"type": kind}
    if kind == "constant":
        d["multiplier"] = E.from_sx(seq[1])
    elif kind == "arithmetic":
        d["initial_term"], d["difference"] = E.from_sx(seq[1]), E.from_sx(seq[2])
    elif kind == "geometric":
        d["ratio"] = E.from_sx(seq[1])
    elif kind == "closed_form":
        d["sum"] = None if seq[1] == "_" else E.from_sx(seq[1])
        d["prod"] = None if seq[2] == "_" else E.from_sx(seq[2])
        d["num_terms_symbol"] = E.from_sx(seq[3])
    else:
        d["term_expression"], d["iterator_symbol"] = E.from_sx(seq[1]), E.from_sx(seq[2])
    return {"count": E.from_sx(count), "sequence": d}
