"""Expression trees shared by every generator, renderer and exact evaluator of the harness.

A tree is a nested tuple:
  ('num', Fraction) | ('sym', name) | ('neg', a) | ('bin', op, a, b) | ('app', f, (args...)) |
  ('big', 'sum'|'prod', body, iterator_name, lo, hi)
with op in  + - * / ** // %.

The same tree is rendered (i) to bartiq's textual syntax for the real code, (ii) to an s-expression for
the Lean model driver, and (iii) evaluated exactly with `fractions.Fraction` by `ev`, which is the
independent reference ("standard mathematical reading").  `sympy_ev` evaluates a sympy object produced by
the real code exactly at a rational point, with the same surrogate interpretation of opaque functions.
"""
from __future__ import annotations

import hashlib
import math
import sys
from fractions import Fraction

sys.set_int_max_str_digits(0)
OPS = ("+", "-", "*", "/", "**", "//", "%")
EXACT_FUNCS = {"max", "min", "floor", "ceiling", "ceil", "abs", "mod", "frac", "sum", "prod", "re", "im"}


class Undefined(Exception):
    """the expression has no value at this point (division by zero, non-integer exponent, ...)"""


def num(x):
    return ("num", Fraction(x))


def sym(s):
    return ("sym", s)


def neg(a):
    return ("neg", a)


def bin_(op, a, b):
    return ("bin", op, a, b)


def app(f, *args):
    return ("app", f, tuple(args))


def big(kind, body, it, lo, hi):
    return ("big", kind, body, it, lo, hi)


# ------------------------------------------------------------------------------------------------
# rendering to bartiq syntax
_PREC = {"+": 1, "-": 1, "*": 2, "/": 2, "//": 2, "%": 2, "neg": 3, "**": 4}


def _num_str(q: Fraction) -> str:
    if q.denominator == 1:
        return str(q.numerator)
    return f"{q.numerator}/{q.denominator}"


def to_str(t, power="**", rng=None, extra=0.0) -> str:
    """Minimal-parenthesis rendering following the Python expression grammar bartiq's parser relies on:
    expr(1) := term (('+'|'-') term)* ; term(2) := factor (('*'|'/'|'//'|'%') factor)* ;
    factor(3) := '-' factor | power ; power(4) := atom ['**' factor] ; atom(5).
    With `rng` and `extra` > 0, redundant parentheses are added at random."""

    def wrap(s, level, minlevel):
        if level < minlevel or (rng is not None and rng.random() < extra):
            return f"({s})"
        return s

    def go(t, minlevel):
        k = t[0]
        if k == "num":
            q = t[1]
            if q < 0:
                return go(("neg", ("num", -q)), minlevel)
            if q.denominator != 1:
                return wrap(f"{q.numerator}/{q.denominator}", 2, max(minlevel, 3))
            return wrap(str(q.numerator), 5, minlevel)
        if k == "sym":
            return wrap(t[1], 5, minlevel)
        if k == "neg":
            return wrap("-" + go(t[1], 3), 3, minlevel)
        if k == "bin":
            op = t[1]
            if op in "+-":
                return wrap(go(t[2], 1) + f" {op} " + go(t[3], 2), 1, minlevel)
            if op == "**":
                return wrap(go(t[2], 5) + f" {power} " + go(t[3], 3), 4, minlevel)
            return wrap(go(t[2], 2) + f" {op} " + go(t[3], 3), 2, minlevel)
        if k == "app":
            return wrap(f"{t[1]}(" + ", ".join(go(a, 0) for a in t[2]) + ")", 5, minlevel)
        if k == "big":
            name = "sum_over" if t[1] == "sum" else "prod_over"
            return wrap(f"{name}({go(t[2], 0)}, {t[3]}, {go(t[4], 0)}, {go(t[5], 0)})", 5, minlevel)
        raise ValueError(t)

    return go(t, 0)


def to_str_full(t, power="**") -> str:
    """Fully parenthesised rendering (no reliance on precedence)."""
    k = t[0]
    if k == "num":
        q = t[1]
        return f"({q.numerator}/{q.denominator})" if q.denominator != 1 else (f"({q.numerator})" if q < 0 else str(q.numerator))
    if k == "sym":
        return t[1]
    if k == "neg":
        return f"(-{to_str_full(t[1], power)})"
    if k == "bin":
        op = power if t[1] == "**" else t[1]
        return f"({to_str_full(t[2], power)} {op} {to_str_full(t[3], power)})"
    if k == "app":
        return f"{t[1]}(" + ", ".join(to_str_full(a, power) for a in t[2]) + ")"
    if k == "big":
        name = "sum_over" if t[1] == "sum" else "prod_over"
        return f"{name}({to_str_full(t[2], power)}, {t[3]}, {to_str_full(t[4], power)}, {to_str_full(t[5], power)})"
    raise ValueError(t)


# ------------------------------------------------------------------------------------------------
# s-expressions (line protocol with the Lean driver)
_OPNAME = {"+": "add", "-": "sub", "*": "mul", "/": "div", "**": "pow", "//": "fdiv", "%": "mod"}
_OPSYM = {v: k for k, v in _OPNAME.items()}


def to_sexp(t) -> str:
    k = t[0]
    if k == "num":
        return f"(n {t[1].numerator} {t[1].denominator})"
    if k == "sym":
        return f"(s {t[1]})"
    if k == "neg":
        return f"(neg {to_sexp(t[1])})"
    if k == "bin":
        return f"({_OPNAME[t[1]]} {to_sexp(t[2])} {to_sexp(t[3])})"
    if k == "app":
        return f"(app {t[1]}" + "".join(" " + to_sexp(a) for a in t[2]) + ")"
    if k == "big":
        return f"(big {t[1]} {to_sexp(t[2])} {t[3]} {to_sexp(t[4])} {to_sexp(t[5])})"
    raise ValueError(t)


def parse_sexp(s: str):
    """Generic s-expression reader: atoms are strings, lists are python lists."""
    toks = s.replace("(", " ( ").replace(")", " ) ").split()
    pos = 0

    def rd():
        nonlocal pos
        tok = toks[pos]
        pos += 1
        if tok == "(":
            out = []
            while toks[pos] != ")":
                out.append(rd())
            pos += 1
            return out
        if tok == ")":
            raise ValueError("unbalanced")
        return tok

    v = rd()
    if pos != len(toks):
        raise ValueError("trailing tokens in sexp: " + s[:80])
    return v


def from_sx(x):
    """s-expression (already read) -> tree"""
    h = x[0]
    if h == "n":
        return ("num", Fraction(int(x[1]), int(x[2])))
    if h == "s":
        return ("sym", x[1])
    if h == "neg":
        return ("neg", from_sx(x[1]))
    if h in _OPSYM:
        return ("bin", _OPSYM[h], from_sx(x[1]), from_sx(x[2]))
    if h == "app":
        return ("app", x[1], tuple(from_sx(a) for a in x[2:]))
    if h == "big":
        return ("big", x[1], from_sx(x[2]), x[3], from_sx(x[4]), from_sx(x[5]))
    raise ValueError(f"bad expr sexp {x!r}")


# ------------------------------------------------------------------------------------------------
# exact evaluation
def surrogate(name: str, args, salt: int = 0) -> Fraction:
    """Deterministic pseudo-random rational 'interpretation' of an opaque function at exact arguments."""
    # arguments are keyed by 10 significant digits so that a value the implementation folded to a float
    # (1/3 -> 0.333333333333333) and the exact rational on the other side meet at the same key
    key = name.lower() + "|" + "|".join(f"{float(a):.9e}" for a in args) + f"|{salt}"
    h = int.from_bytes(hashlib.sha256(key.encode()).digest()[:6], "big")
    return Fraction(h % 2003 + 1, (h >> 20) % 5 + 1)


def ffloor(q: Fraction) -> Fraction:
    return Fraction(math.floor(q))


def fceil(q: Fraction) -> Fraction:
    return Fraction(math.ceil(q))


def fpow(a: Fraction, b: Fraction) -> Fraction:
    if b.denominator != 1:
        if a == 1:
            return Fraction(1)
        raise Undefined("non-integer exponent")
    n = b.numerator
    if abs(n) > 200:
        raise Undefined("exponent too large")
    if n < 0 and a == 0:
        raise Undefined("0**negative")
    return a**n


def apply_op(op, a, b):
    if op == "+":
        return a + b
    if op == "-":
        return a - b
    if op == "*":
        return a * b
    if op == "/":
        if b == 0:
            raise Undefined("division by zero")
        return a / b
    if op == "**":
        return fpow(a, b)
    if op == "//":
        if b == 0:
            raise Undefined("division by zero")
        return ffloor(a / b)
    if op == "%":
        if b == 0:
            raise Undefined("mod zero")
        return a - b * ffloor(a / b)
    raise ValueError(op)


def apply_exact(fname, args):
    f = fname.lower()
    if f == "max":
        return max(args)
    if f == "min":
        return min(args)
    if f == "floor":
        return ffloor(args[0])
    if f in ("ceiling", "ceil"):
        return fceil(args[0])
    if f == "abs":
        return abs(args[0])
    if f == "mod":
        return apply_op("%", args[0], args[1])
    if f == "frac":
        return args[0] - ffloor(args[0])
    if f == "re":
        return args[0]
    if f == "im":
        return Fraction(0)
    if f == "sum":
        return sum(args, Fraction(0))
    if f == "prod":
        out = Fraction(1)
        for a in args:
            out *= a
        return out
    raise KeyError(fname)


def ev(t, env, salt: int = 0, funcs=None) -> Fraction:
    """Exact value of tree `t` at `env` (name -> Fraction).  Unbound symbols raise KeyError."""
    k = t[0]
    if k == "num":
        return t[1]
    if k == "sym":
        return env[t[1]]
    if k == "neg":
        return -ev(t[1], env, salt, funcs)
    if k == "bin":
        return apply_op(t[1], ev(t[2], env, salt, funcs), ev(t[3], env, salt, funcs))
    if k == "app":
        args = [ev(a, env, salt, funcs) for a in t[2]]
        if funcs and t[1] in funcs:
            return funcs[t[1]](*args)
        if t[1].lower() in EXACT_FUNCS:
            return apply_exact(t[1], args)
        return surrogate(t[1], args, salt)
    if k == "big":
        lo, hi = ev(t[4], env, salt, funcs), ev(t[5], env, salt, funcs)
        if lo.denominator != 1 or hi.denominator != 1:
            raise Undefined("non-integer limits")
        if hi - lo > 400:
            raise Undefined("range too long")
        acc = Fraction(0) if t[1] == "sum" else Fraction(1)
        for j in range(int(lo), int(hi) + 1):
            e2 = dict(env)
            e2[t[3]] = Fraction(j)
            v = ev(t[2], e2, salt, funcs)
            acc = acc + v if t[1] == "sum" else acc * v
        return acc
    raise ValueError(t)


def fv(t, acc=None) -> set:
    acc = set() if acc is None else acc
    k = t[0]
    if k == "sym":
        acc.add(t[1])
    elif k == "neg":
        fv(t[1], acc)
    elif k == "bin":
        fv(t[2], acc)
        fv(t[3], acc)
    elif k == "app":
        for a in t[2]:
            fv(a, acc)
    elif k == "big":
        inner = fv(t[2])
        inner.discard(t[3])
        acc |= inner
        fv(t[4], acc)
        fv(t[5], acc)
    return acc


def heads(t, acc=None) -> set:
    """names of uninterpreted (non-exact) function heads"""
    acc = set() if acc is None else acc
    k = t[0]
    if k == "neg":
        heads(t[1], acc)
    elif k == "bin":
        heads(t[2], acc)
        heads(t[3], acc)
    elif k == "app":
        if t[1].lower() not in EXACT_FUNCS:
            acc.add(t[1])
        for a in t[2]:
            heads(a, acc)
    elif k == "big":
        heads(t[2], acc)
        heads(t[4], acc)
        heads(t[5], acc)
    return acc


def subst(t, sigma):
    """Simultaneous substitution (the reference reading of 'replace all at once')."""
    k = t[0]
    if k == "sym":
        return sigma.get(t[1], t)
    if k == "num":
        return t
    if k == "neg":
        return ("neg", subst(t[1], sigma))
    if k == "bin":
        return ("bin", t[1], subst(t[2], sigma), subst(t[3], sigma))
    if k == "app":
        return ("app", t[1], tuple(subst(a, sigma) for a in t[2]))
    if k == "big":
        inner = {x: v for x, v in sigma.items() if x != t[3]}
        return ("big", t[1], subst(t[2], inner), t[3], subst(t[4], sigma), subst(t[5], sigma))
    raise ValueError(t)


def size(t) -> int:
    k = t[0]
    if k in ("num", "sym"):
        return 1
    if k == "neg":
        return 1 + size(t[1])
    if k == "bin":
        return 1 + size(t[2]) + size(t[3])
    if k == "app":
        return 1 + sum(size(a) for a in t[2])
    if k == "big":
        return 1 + size(t[2]) + size(t[4]) + size(t[5])
    raise ValueError(t)


# ------------------------------------------------------------------------------------------------
# exact evaluation of sympy objects produced by the real code
class TV(Fraction):
    """a value that remembers the largest intermediate magnitude met while it was computed (see compare.close)"""
    __slots__ = ("inter",)


def sympy_ev(e, env, salt: int = 0, funcs=None, track=None) -> Fraction:
    """exact value of a sympy expression at a rational point.  `track`, when a list, receives in track[0] the largest
    magnitude of any intermediate value (used to bound the effect of 15-digit float constants under cancellation)"""
    import sympy
    from sympy.core.function import AppliedUndef

    if isinstance(e, bool):
        raise Undefined("bool")
    if isinstance(e, int):
        return Fraction(e)
    if isinstance(e, float):
        return Fraction(e)
    if isinstance(e, Fraction):
        return e

    def go(e):
        v = go0(e)
        if track is not None and (not track or abs(v) > track[0]):
            track[:] = [abs(v)]
        return v

    def go0(e):
        if e.is_Integer:
            return Fraction(int(e))
        if e.is_Rational:
            return Fraction(int(e.p), int(e.q))
        if e.is_Float:
            return Fraction(float(e))
        if e.is_Symbol:
            return env[str(e)]
        if e.is_Add:
            return sum((go(a) for a in e.args), Fraction(0))
        if e.is_Mul:
            out = Fraction(1)
            for a in e.args:
                out *= go(a)
            return out
        if e.is_Pow:
            return fpow(go(e.args[0]), go(e.args[1]))
        if isinstance(e, sympy.Max):
            return max(go(a) for a in e.args)
        if isinstance(e, sympy.Min):
            return min(go(a) for a in e.args)
        if isinstance(e, sympy.floor):
            return ffloor(go(e.args[0]))
        if isinstance(e, sympy.ceiling):
            return fceil(go(e.args[0]))
        if isinstance(e, sympy.Abs):
            return abs(go(e.args[0]))
        if isinstance(e, sympy.Mod):
            return apply_op("%", go(e.args[0]), go(e.args[1]))
        if isinstance(e, sympy.frac):
            a = go(e.args[0])
            return a - ffloor(a)
        if isinstance(e, (sympy.re, sympy.conjugate)):
            return go(e.args[0])          # every quantity here is real
        if isinstance(e, sympy.im):
            return Fraction(0)
        if isinstance(e, sympy.sign):
            v = go(e.args[0])
            return Fraction((v > 0) - (v < 0))
        if isinstance(e, (sympy.Sum, sympy.Product)):
            body, lim = e.args[0], e.args[1]
            if len(e.args) != 2 or len(lim) != 3:
                raise Undefined("unsupported Sum")
            it, lo, hi = lim
            lo, hi = go(lo), go(hi)
            if lo.denominator != 1 or hi.denominator != 1 or hi - lo > 400:
                raise Undefined("limits")
            acc = Fraction(0) if isinstance(e, sympy.Sum) else Fraction(1)
            saved = env.get(str(it), None)
            try:
                for j in range(int(lo), int(hi) + 1):
                    env[str(it)] = Fraction(j)
                    v = go(body)
                    acc = acc + v if isinstance(e, sympy.Sum) else acc * v
            finally:
                if saved is None:
                    env.pop(str(it), None)
                else:
                    env[str(it)] = saved
            return acc
        if isinstance(e, AppliedUndef) or isinstance(e, sympy.Function):
            name = type(e).__name__
            args = [go(a) for a in e.args]
            if funcs and name in funcs:
                return funcs[name](*args)
            return surrogate(name, args, salt)
        if e is sympy.S.Exp1:
            return surrogate("exp", [Fraction(1)], salt)      # the printer writes exp(1)
        if e is sympy.pi:
            return env["PI"] if "PI" in env else surrogate("pi", [], salt)   # the printer writes PI
        if e is sympy.S.NaN or e is sympy.zoo or e is sympy.oo or e is -sympy.oo:
            raise Undefined(str(e))
        raise Undefined(f"unsupported sympy node {type(e).__name__}")

    if track is None:
        track = []
    out = TV(go(sympy.sympify(e)))
    out.inter = track[0] if track else Fraction(0)
    return out


def sympy_fv(e) -> set:
    if isinstance(e, (int, float)):
        return set()
    return {str(s) for s in e.free_symbols}


def sympy_heads(e) -> set:
    import sympy
    from sympy.core.function import AppliedUndef

    if isinstance(e, (int, float)):
        return set()
    return {type(a).__name__ for a in sympy.preorder_traversal(e) if isinstance(a, AppliedUndef)}


def to_sympy(t):
    """Rebuild a tree with plain sympy constructors (NOT bartiq's parser): the independent bridge."""
    import sympy

    k = t[0]
    if k == "num":
        return sympy.Rational(t[1].numerator, t[1].denominator)
    if k == "sym":
        return sympy.Symbol(t[1])
    if k == "neg":
        return -to_sympy(t[1])
    if k == "bin":
        a, b = to_sympy(t[2]), to_sympy(t[3])
        op = t[1]
        if op == "+":
            return a + b
        if op == "-":
            return a - b
        if op == "*":
            return a * b
        if op == "/":
            return a / b
        if op == "**":
            return a**b
        if op == "//":
            return sympy.floor(a / b)
        if op == "%":
            return sympy.Mod(a, b)
    if k == "app":
        args = [to_sympy(a) for a in t[2]]
        f = t[1].lower()
        table = {"max": sympy.Max, "min": sympy.Min, "floor": sympy.floor, "ceiling": sympy.ceiling,
                 "ceil": sympy.ceiling, "abs": sympy.Abs, "mod": sympy.Mod, "frac": sympy.frac}
        if f in table:
            return table[f](*args)
        if f == "sum":
            return sympy.Add(*args)
        if f == "prod":
            return sympy.Mul(*args)
        return sympy.Function(t[1])(*args)
    if k == "big":
        cls = sympy.Sum if t[1] == "sum" else sympy.Product
        return cls(to_sympy(t[2]), (sympy.Symbol(t[3]), to_sympy(t[4]), to_sympy(t[5])))
    raise ValueError(t)


def sympy_to_tree(e):
    """sympy object (or python number) -> harness tree, structurally (used to hand compiled routines to the model)"""
    import sympy
    from sympy.core.function import AppliedUndef

    if isinstance(e, bool):
        raise ValueError("bool")
    if isinstance(e, int):
        return ("num", Fraction(e))
    if isinstance(e, float):
        return ("num", Fraction(e))
    e = sympy.sympify(e)
    if e.is_Integer:
        return ("num", Fraction(int(e)))
    if e.is_Rational:
        return ("num", Fraction(int(e.p), int(e.q)))
    if e.is_Float:
        return ("num", Fraction(float(e)))
    if e.is_Symbol:
        return ("sym", str(e))
    if e.is_Add:
        args = [sympy_to_tree(a) for a in e.args]
        out = args[0]
        for a in args[1:]:
            out = ("bin", "+", out, a)
        return out
    if e.is_Mul:
        args = [sympy_to_tree(a) for a in e.args]
        out = args[0]
        for a in args[1:]:
            out = ("bin", "*", out, a)
        return out
    if e.is_Pow:
        return ("bin", "**", sympy_to_tree(e.args[0]), sympy_to_tree(e.args[1]))
    names = {sympy.Max: "max", sympy.Min: "min", sympy.floor: "floor", sympy.ceiling: "ceiling", sympy.Abs: "abs", sympy.Mod: "mod", sympy.frac: "frac"}
    for cls, nm in names.items():
        if isinstance(e, cls):
            return ("app", nm, tuple(sympy_to_tree(a) for a in e.args))
    if isinstance(e, (sympy.Sum, sympy.Product)) and len(e.args) == 2 and len(e.args[1]) == 3:
        it, lo, hi = e.args[1]
        return ("big", "sum" if isinstance(e, sympy.Sum) else "prod", sympy_to_tree(e.args[0]), str(it), sympy_to_tree(lo), sympy_to_tree(hi))
    if isinstance(e, (AppliedUndef, sympy.Function)):
        return ("app", type(e).__name__, tuple(sympy_to_tree(a) for a in e.args))
    raise ValueError(f"cannot convert {type(e).__name__}: {e}")


def croutine_sexp(cr) -> str:
    """real CompiledRoutine -> wire form of the model's CRoutine (constraints omitted)"""
    def ex(v):
        return to_sexp(sympy_to_tree(v))

    def ep(x):
        return f"({x.routine_name if x.routine_name is not None else '_'} {x.port_name})"

    ports = " ".join(f"({p.name} {p.direction} {ex(p.size)})" for p in cr.ports.values())
    res = " ".join(f"({r.name} {r.type.value} {ex(r.value)})" for r in cr.resources.values())
    conns = " ".join(f"({ep(s)} {ep(t)})" for s, t in cr.connections.items())
    ch = " ".join(croutine_sexp(c) for c in cr.children.values())
    rep = "_"
    if cr.repetition is not None:
        sq = cr.repetition.sequence
        opt = lambda v: "_" if v is None else ex(v)  # noqa: E731
        body = {"constant": lambda: f"(constant {ex(sq.multiplier)})",
                "arithmetic": lambda: f"(arithmetic {ex(sq.initial_term)} {ex(sq.difference)})",
                "geometric": lambda: f"(geometric {ex(sq.ratio)})",
                "closed_form": lambda: f"(closed_form {opt(sq.sum)} {opt(sq.prod)} {ex(sq.num_terms_symbol)})",
                "custom": lambda: f"(custom {ex(sq.term_expression)} {ex(sq.iterator_symbol)})"}[sq.type]()
        rep = f"(rep {ex(cr.repetition.count)} {body})"
    return f"(croutine {cr.name} {cr.type or '_'} ({' '.join(cr.input_params)}) ({ports}) ({res}) ({conns}) {rep} () ({ch}))"
