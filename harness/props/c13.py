"""C13 — routines survive QREF export and import.

Search: real export -> schema validation -> real import, for uncompiled routines (Routine.from_qref(q).to_qref()) and for
compilation results (CompilationResult.to_qref() -> CompiledRoutine.from_qref): same structure, names, connections, links,
repetition kind, mathematically equal expressions; compiling the re-imported routine gives the same result."""
from __future__ import annotations

import json
import random

from .. import compare, expr as E, pipeline, routinegen as G
from ..real import compile_routine, schema, sympy_backend as B, try_compile, walk

LEVEL = "proof"


def gen(seed, extra):
    rng = random.Random(seed)
    o = dict(p_rep=0.35, p_deep_link=0.5, symbolic_rep=0.7, mult_under_any_rep=False)
    o.update(extra or {})
    spec = G.gen_routine(rng, G.Opts(**o))
    # listed known finding (compiled-export-port-variable-input): unsized root input ports are kept out of the generated
    # family; the pinned witness is replayed by known_witnesses()
    syms = list(spec["input_params"]) + [v for v, _ in spec["local_variables"]]
    for p in spec["ports"]:
        if p["direction"] in ("input", "through") and p["size"] is None:
            p["size"] = E.sym(rng.choice(syms)) if syms else E.num(rng.randint(1, 4))
    return spec


def struct_of(prog):
    """structure of a qref RoutineV1, expressions excluded"""
    return {
        "name": prog.name, "type": prog.type,
        "input_params": sorted(prog.input_params),
        "ports": sorted((p.name, p.direction) for p in prog.ports),   # size null and the port's own variable `#name` are the same thing
        "resources": sorted((r.name, r.type) for r in prog.resources),
        "connections": sorted((c.source, c.target) for c in prog.connections),
        # several entries with the same source are one link with the union of the targets (that is how they are read)
        "linked_params": sorted((src, tuple(sorted(t for lk in prog.linked_params if str(lk.source) == src for t in lk.targets)))
                                for src in {str(lk.source) for lk in prog.linked_params}),
        "local_variables": sorted(prog.local_variables),
        "repetition": None if prog.repetition is None else (prog.repetition.sequence.type,
                                                            sorted(k for k, v in prog.repetition.sequence.model_dump().items() if v is not None)),
        "children": [struct_of(c) for c in sorted(prog.children, key=lambda c: c.name)],
    }


def exprs_of(prog, path=()):
    for p in prog.ports:
        yield path + ("port", p.name), (p.size if p.size is not None else "#" + p.name)
    for r in prog.resources:
        yield path + ("resource", r.name), r.value
    for v, e in prog.local_variables.items():
        yield path + ("local", v), e
    if prog.repetition is not None:
        yield path + ("rep", "count"), prog.repetition.count
        for k, v in prog.repetition.sequence.model_dump().items():
            if k != "type" and v is not None:
                yield path + ("rep", k), v
    for c in sorted(prog.children, key=lambda c: c.name):
        yield from exprs_of(c, path + (c.name,))


def same_exprs(pa, pb, rng):
    ea, eb = dict(exprs_of(pa)), dict(exprs_of(pb))
    if set(ea) != set(eb):
        return f"expression fields differ: {sorted(set(ea) ^ set(eb))[:3]}"
    for k in ea:
        a, b = B.as_expression(str(ea[k])), B.as_expression(str(eb[k]))
        v, d = compare.sem_equal_real(a, b, rng)
        if v == "different":
            return f"expression {k}: {ea[k]!r} became {eb[k]!r} ({d})"
    return None


def model_correspondence(case, exported, res):
    """Lean `Routine.toQ` (the export the C13 theorems are about) vs the document the real `Routine.to_qref` produced for the
    same routine: every field, level by level; expressions compared semantically"""
    from .. import model

    if case.sexp is None:
        return
    r = model.run_driver(["toq " + case.sexp])[0]
    res.stats["model_vs_impl_compared"] += 1
    replay = {"qref": case.qref}
    if r[0] != "ok":
        res.disagreement("Routine.to_qref vs Bartiq.Routine.toQ (outcome)", replay, str(r)[:200], "exported")
        return
    if r[2] != "reimported":
        res.disagreement("model re-import of its own export", replay, r[2], "reimported")
    rng = random.Random(case.seed * 17 + 9)
    diffs = []

    def same_expr(where, mx, real):
        if real is None:
            real = "#" + where[-1] if where[-2] == "port" else None
        if real is None:
            diffs.append((where, "absent in the real export", E.to_str(E.from_sx(mx)), None))
            return
        v, d = compare.sem_equal(B.as_expression(str(real)), E.from_sx(mx), rng)
        if v == "different":
            diffs.append((where, "expression", str(real), E.to_str(E.from_sx(mx))))

    def cmp(q, prog, path):
        _, name, ty, ips, lvs, lks, ports, ress, conns, rep, kids = q
        if name != prog.name or (None if ty == "_" else ty) != prog.type:
            diffs.append((path, "name/type", (prog.name, prog.type), (name, ty)))
        if sorted(ips) != sorted(prog.input_params):
            diffs.append((path, "input_params", sorted(prog.input_params), sorted(ips)))
        if sorted(v[0] for v in lvs) != sorted(prog.local_variables):
            diffs.append((path, "local variable names", sorted(prog.local_variables), sorted(v[0] for v in lvs)))
        else:
            for v, e in lvs:
                same_expr(path + ("local", v), e, prog.local_variables[v])
        # targets and endpoints come out of the model already in their string encodings (BartiqModel/Qref.lean: targetToStr, Endpoint.toStr)
        ml = sorted((lk[0], tuple(sorted(lk[1:]))) for lk in lks)
        rl = sorted((str(lk.source), tuple(sorted(lk.targets))) for lk in prog.linked_params)
        if ml != rl:
            diffs.append((path, "linked_params", rl, ml))
        rp = {p.name: p for p in prog.ports}
        if sorted((p[0], p[1]) for p in ports) != sorted((p.name, p.direction) for p in prog.ports):
            diffs.append((path, "ports", sorted(rp), sorted(p[0] for p in ports)))
        else:
            for pn, _, sz in ports:
                same_expr(path + ("port", pn), sz, rp[pn].size)
        rr = {x.name: x for x in prog.resources}
        if sorted((x[0], x[1]) for x in ress) != sorted((x.name, x.type) for x in prog.resources):
            diffs.append((path, "resources", sorted((x.name, x.type) for x in prog.resources), sorted((x[0], x[1]) for x in ress)))
        else:
            for rn, _, val in ress:
                same_expr(path + ("resource", rn), val, rr[rn].value)
        mc = sorted((c[0], c[1]) for c in conns)
        rc = sorted((c.source, c.target) for c in prog.connections)
        if mc != rc:
            diffs.append((path, "connections", rc, mc))
        if (rep == "_") != (prog.repetition is None):
            diffs.append((path, "repetition presence", prog.repetition is not None, rep != "_"))
        elif rep != "_":
            sq = prog.repetition.sequence
            kind = rep[2][0]
            if kind != sq.type:
                diffs.append((path, "sequence kind", sq.type, kind))
            else:
                same_expr(path + ("rep", "count"), rep[1], prog.repetition.count)
                fields = {"constant": ["multiplier"], "arithmetic": ["initial_term", "difference"], "geometric": ["ratio"],
                          "closed_form": ["sum", "prod", "num_terms_symbol"], "custom": ["term_expression", "iterator_symbol"]}[kind]
                for f, mx in zip(fields, rep[2][1:]):
                    rv = getattr(sq, f)
                    if mx == "_" or rv is None:
                        if (mx == "_") != (rv is None):
                            diffs.append((path, f"optional sequence field {f}", rv, mx))
                    else:
                        same_expr(path + ("rep", f), mx, rv)
        rk = {c.name: c for c in prog.children}
        if sorted(k[1] for k in kids) != sorted(rk):
            diffs.append((path, "children", sorted(rk), sorted(k[1] for k in kids)))
        else:
            for k in kids:
                cmp(k, rk[k[1]], path + (k[1],))

    cmp(r[1], exported.program, ())
    if diffs:
        res.disagreement("Routine.to_qref vs Bartiq.Routine.toQ (document)", replay, [str(d[3])[:200] for d in diffs[:3]],
                         [(list(map(str, d[0])), d[1], str(d[2])[:200]) for d in diffs[:3]])


def oracle(case, res, extra):
    from bartiq import CompiledRoutine, Routine
    from qref import SchemaV1

    rng = random.Random(case.seed * 41 + 3)
    try:
        doc = schema(case.qref)
        arg_doc = schema(case.qref)     # what is handed to the library; `doc` stays pristine for the expectations
    except Exception:
        return
    feats = set()
    if any(True for _ in [1]):
        def scan(n, d=0):
            if n["repetition"]:
                feats.add("repetition-" + n["repetition"]["sequence"]["type"])
                if E.fv(n["repetition"]["count"]) or any(isinstance(v, tuple) and E.fv(v) for v in n["repetition"]["sequence"].values()):
                    feats.add("symbolic-sequence-parameter")
            if any("." in p for _, ts in n["linked_params"] for p, _ in ts):
                feats.add("deep-link")
            if n["local_variables"]:
                feats.add("locals")
            for c in n["children"]:
                scan(c, d + 1)
        scan(case.spec)
    # ---- uncompiled
    try:
        r1 = Routine.from_qref(arg_doc, B)
        out = r1.to_qref(B)
    except Exception as e:
        res.violation("failing-input", f"exporting an uncompiled routine raised {type(e).__name__}", {"qref": case.qref}, str(e)[:300], "a schema-valid document")
        return
    try:
        out2 = SchemaV1.model_validate(json.loads(out.model_dump_json()))
    except Exception as e:
        res.violation("failing-input", f"exported document is not schema-valid ({type(e).__name__})", {"qref": case.qref}, str(e)[:300], "valid")
        return
    res.stats["uncompiled_exports"] += 1
    model_correspondence(case, out2, res)
    # history: the document returned by an export belongs to the caller — editing it in place must not leak into later exports
    snapshot = out.model_dump_json()
    try:
        for n_ in [out.program] + list(out.program.children):
            for r_ in n_.resources:
                r_.value = "123456789"
            for p_ in n_.ports:
                p_.size = "987654321"
        again = r1.to_qref(B).model_dump_json()
    except Exception as e:
        again = None
        res.stats["export_history_raised_" + type(e).__name__] += 1
    if again is not None:
        res.stats["export_histories"] += 1
        if again != snapshot:
            res.violation("failing-input", "exporting the same routine again after editing the first exported document in place gives a different document",
                          {"qref": case.qref, "history": "to_qref, edit returned document in place, to_qref"}, "documents differ", "identical documents")
            return
    sa, sb = struct_of(doc.program), struct_of(out2.program)
    if sa != sb:
        diff = [k for k in sa if sa[k] != sb[k]]
        res.violation("failing-input", f"re-imported uncompiled routine differs in structure ({diff})", {"qref": case.qref}, {k: sb[k] for k in diff if k != "children"}, {k: sa[k] for k in diff if k != "children"})
        return
    # the order in which a routine lists its children is part of the document (it is the chronology `children_order` records): the
    # uncompiled round trip keeps it at every level
    def child_orders(pa, pb, path=()):
        if [c.name for c in pa.children] != [c.name for c in pb.children]:
            return (".".join(path) or "root", [c.name for c in pa.children], [c.name for c in pb.children])
        for ca in pa.children:
            r_ = child_orders(ca, next(c for c in pb.children if c.name == ca.name), path + (ca.name,))
            if r_:
                return r_
        return None
    co = child_orders(doc.program, out2.program)
    if co:
        res.violation("failing-input", f"re-imported uncompiled routine lists the children of {co[0]} in another order", {"qref": case.qref}, co[2], co[1])
        return
    res.stats["children_order_preserved"] += 1
    err = same_exprs(doc.program, out2.program, rng)
    if err:
        res.violation("failing-input", "re-imported uncompiled routine differs: " + err, {"qref": case.qref}, err, "mathematically equal expressions")
        return
    # ---- compile(original) vs compile(re-imported)
    if case.status == "ok":
        try:
            c2 = compile_routine(out2).routine
        except Exception as e:
            res.violation("failing-input", f"the re-imported routine does not compile ({type(e).__name__}) although the original does", {"qref": case.qref}, str(e)[:300], "same result")
            return
        diffs = compare.trees_equal_real(case.result.routine, c2, rng, constraints=False)
        if diffs:
            res.violation("failing-input", f"compiling the re-imported routine gives a different result: {diffs[0][:2]}", {"qref": case.qref}, [str(x)[:200] for x in diffs[0]], "equal")
            return
        res.stats["recompiled_equal"] += 1
        # ---- compiled export / import
        try:
            cout = case.result.to_qref()
            cdoc = SchemaV1.model_validate(json.loads(cout.model_dump_json()))
        except Exception as e:
            res.violation("failing-input", f"exporting a compilation result raised {type(e).__name__}", {"qref": case.qref}, str(e)[:300], "a schema-valid document")
            return
        # same history for the compilation result
        try:
            csnap = cout.model_dump_json()
            for n_ in [cout.program] + list(cout.program.children):
                for r_ in n_.resources:
                    r_.value = "123456789"
                for p_ in n_.ports:
                    p_.size = "987654321"
            if case.result.to_qref().model_dump_json() != csnap:
                res.violation("failing-input", "exporting the same compilation result again after editing the first exported document in place gives a different document",
                              {"qref": case.qref, "history": "CompilationResult.to_qref, edit returned document in place, to_qref"}, "documents differ", "identical documents")
                return
        except Exception as e:
            res.stats["compiled_export_history_raised_" + type(e).__name__] += 1
        try:
            back = CompiledRoutine.from_qref(cdoc, B)
        except Exception as e:
            res.violation("failing-input", f"importing an exported compilation result raised {type(e).__name__}", {"qref": case.qref}, str(e)[:300], "an equivalent routine")
            return
        res.stats["compiled_exports"] += 1
        for (pa, a), (pb, b) in zip(walk(case.result.routine), walk(back)):
            where = ".".join(pa) or "root"
            if pa != pb or sorted(a.input_params) != sorted(b.input_params) or set(a.ports) != set(b.ports) or \
                    {k: v.type for k, v in a.resources.items()} != {k: v.type for k, v in b.resources.items()} or \
                    set(map(str, a.connections.items())) != set(map(str, b.connections.items())) or (a.repetition is None) != (b.repetition is None):
                res.violation("failing-input", f"re-imported compiled routine differs in structure at {where}", {"qref": case.qref}, None, None)
                return
            if a.repetition is not None and a.repetition.sequence.type != b.repetition.sequence.type:
                res.violation("failing-input", f"repetition kind changed at {where}", {"qref": case.qref}, b.repetition.sequence.type, a.repetition.sequence.type)
                return
        diffs = compare.trees_equal_real(case.result.routine, back, rng, constraints=False)
        if diffs:
            res.violation("failing-input", f"re-imported compiled routine has a different value: {diffs[0][:2]}", {"qref": case.qref}, [str(x)[:200] for x in diffs[0]], "equal")
            return
        # repetition fields
        for (pa, a), (_, b) in zip(walk(case.result.routine), walk(back)):
            if a.repetition is not None:
                for fld in ("multiplier", "initial_term", "difference", "ratio", "sum", "prod", "term_expression"):
                    if hasattr(a.repetition.sequence, fld):
                        x, y = getattr(a.repetition.sequence, fld), getattr(b.repetition.sequence, fld)
                        if (x is None) != (y is None):
                            res.violation("failing-input", f"sequence field {fld} appeared/disappeared in the round trip", {"qref": case.qref}, str(y), str(x))
                            return
                        if x is not None and compare.sem_equal_real(x, y, rng)[0] == "different":
                            res.violation("failing-input", f"sequence field {fld} changed in the round trip", {"qref": case.qref}, str(y), str(x))
                            return
                if compare.sem_equal_real(a.repetition.count, b.repetition.count, rng)[0] == "different":
                    res.violation("failing-input", "repetition count changed in the round trip", {"qref": case.qref}, str(b.repetition.count), str(a.repetition.count))
                    return
    if feats & {"symbolic-sequence-parameter", "deep-link", "locals"} or any(f.startswith("repetition") for f in feats):
        res.nontrivial.append((case.seed, tuple(sorted(feats))))
    for f in feats:
        res.stats["feature_" + f] += 1
    if case.seed % 53 == 0:
        res.samples.append({"qref": case.qref, "features": sorted(feats)})


def known_witnesses(ctx):
    q = {"name": "root", "ports": [{"name": "in_0", "direction": "input", "size": None}, {"name": "out_0", "direction": "output", "size": None}],
         "connections": [{"source": "in_0", "target": "a.in_0"}, {"source": "a.out_0", "target": "out_0"}],
         "children": [{"name": "a", "ports": [{"name": "in_0", "direction": "input", "size": "N"}, {"name": "out_0", "direction": "output", "size": "2*N"}],
                       "resources": [{"name": "T", "type": "additive", "value": "N"}]}]}
    st, r = try_compile(q)
    ctx.stats["evaluations"] += 1
    if st == "ok":
        try:
            r.to_qref()
        except Exception as e:
            ctx.violation("failing-input", f"exporting the compilation result of a routine with an unsized root input port raises {type(e).__name__}",
                          {"qref": q}, str(e)[:200], "a schema-valid document", witness_id="compiled-export-port-variable-input")


def corpus(ctx):
    """F6/F7: symbolic sequence parameters; closed form without prod"""
    from bartiq import Routine

    core = {"name": "core", "resources": [{"name": "T", "type": "additive", "value": "3"}]}
    for seq in ({"type": "constant", "multiplier": "m"}, {"type": "arithmetic", "initial_term": "m", "difference": "2*m"},
                {"type": "closed_form", "sum": "Tn*(Tn+1)/2", "num_terms_symbol": "Tn"}):
        q = {"name": "root", "input_params": ["m", "c"], "children": [core], "repetition": {"count": "c", "sequence": seq}}
        ctx.stats["corpus_cases"] += 1
        try:
            out = Routine.from_qref(schema(q), B).to_qref(B)
        except Exception as e:
            ctx.violation("failing-input", f"corpus: export of a {seq['type']} sequence with symbolic parameters raised {type(e).__name__}", {"qref": q}, str(e)[:200], "document")
            continue
        sq = out.program.repetition.sequence
        if seq["type"] == "closed_form" and sq.prod is not None:
            ctx.violation("failing-input", "corpus: absent prod of a closed-form sequence is exported as a value", {"qref": q}, repr(sq.prod), None)


def gen_shape(rng, syms, depth):
    """expressions whose printed form needs care: power towers on either side, negated and fractional exponents, quotient
    chains, products under powers, floor-division, calls"""
    if depth <= 0 or rng.random() < 0.15:
        return E.sym(rng.choice(syms)) if rng.random() < 0.75 else E.num(rng.randint(1, 5))
    r = rng.random()
    a = gen_shape(rng, syms, depth - 1)
    if r < 0.4:
        b = gen_shape(rng, syms, depth - 1)
        if rng.random() < 0.3:
            b = rng.choice([E.neg(b), E.bin_("/", E.num(1), E.num(rng.choice([2, 3]))), E.bin_("/", b, E.num(2))])
        return E.bin_("**", a, b)
    if r < 0.55:
        return E.bin_("/", a, gen_shape(rng, syms, depth - 1))
    if r < 0.7:
        return E.bin_("*", a, gen_shape(rng, syms, depth - 1))
    if r < 0.8:
        return E.bin_("+", a, gen_shape(rng, syms, depth - 1))
    if r < 0.87:
        return E.bin_("-", a, gen_shape(rng, syms, depth - 1))
    if r < 0.93:
        # applied to symbolic arguments only: a call on a literal (log2(3)) is folded to a 15-digit float on import, which the
        # exact comparator cannot relate to the surrogate value of the unevaluated call
        return E.app(rng.choice(["log2", "ceiling", "f", "sqrt"]), a if E.fv(a) else E.bin_("+", a, E.sym(rng.choice(syms))))
    return E.neg(a)


def field_stream(ctx):
    """every expression-bearing field of a QREF document (port size, resource value, local variable, repetition count and each
    sequence parameter) is filled with an expression of an awkward shape; export -> validate -> import must keep its value"""
    from bartiq import Routine
    from qref import SchemaV1

    import signal

    class _Slow(BaseException):
        pass

    def _alarm(signum, frame):
        raise _Slow()

    signal.signal(signal.SIGVTALRM, _alarm)
    rng = ctx.rng
    S = ["N", "M", "k", "L"]
    for i in range(ctx.n(200, 4000)):
        x = lambda d=3: E.to_str(gen_shape(rng, S, d), power=rng.choice(["**", "^"]))  # noqa: E731
        kind = rng.choice(["constant", "arithmetic", "geometric", "closed_form", "custom"])
        # the count stays a small polynomial: a literal tower like 3^3^4 repetitions sends sympy's numeric evaluation of the
        # resulting Product into minutes of work (not what this property is about)
        cnt = E.to_str(G.gen_poly(rng, ["n", "M", "k", "L"], 1, positive=True))
        seq = {"constant": lambda: {"type": "constant", "multiplier": x(2)},
               "arithmetic": lambda: {"type": "arithmetic", "initial_term": x(2), "difference": x(2)},
               "geometric": lambda: {"type": "geometric", "ratio": x(2)},
               "closed_form": lambda: {"type": "closed_form", "sum": "Tn * (" + x(2) + ")", "prod": "(" + x(2) + ") ** Tn", "num_terms_symbol": "Tn"},
               "custom": lambda: {"type": "custom", "term_expression": "it + (" + x(2) + ")", "iterator_symbol": "it"}}[kind]()
        # (a multiplicative resource only under a constant sequence: the product formulas of the other kinds are outside what the
        #  properties state, and their gamma-function constants are folded to floats that no exact comparison can follow)
        core = {"name": "core", "input_params": ["n"], "resources": [{"name": "T", "type": "additive", "value": x()},
                                                                      {"name": "P", "type": "multiplicative" if kind == "constant" else "additive", "value": x(2)}]}
        core["resources"][0]["value"] = core["resources"][0]["value"].replace("N", "n")
        core["resources"][1]["value"] = core["resources"][1]["value"].replace("N", "n")
        rep = {"name": "a", "input_params": ["n", "M", "k", "L"], "children": [dict(core, input_params=["n", "M", "k", "L"])],
               "linked_params": [{"source": q_, "targets": ["core." + q_]} for q_ in ("n", "M", "k", "L")],
               "repetition": {"count": cnt, "sequence": {k_: (v.replace("N", "n") if k_ not in ("type", "num_terms_symbol", "iterator_symbol") else v) for k_, v in seq.items()}}}
        q = {"name": "root", "input_params": S, "local_variables": {"v": x()},
             "ports": [{"name": "in_0", "direction": "input", "size": x(2)}, {"name": "out_0", "direction": "output", "size": None}],
             "connections": [{"source": "in_0", "target": "out_0"}],
             "resources": [{"name": "R", "type": "other", "value": x()}],
             "children": [rep], "linked_params": [{"source": "v", "targets": ["a.n"]}] + [{"source": q_, "targets": ["a." + q_]} for q_ in ("M", "k", "L")]}
        ctx.stats["evaluations"] += 1
        try:
            doc = schema(q)
            out = Routine.from_qref(doc, B).to_qref(B)
            out2 = SchemaV1.model_validate(json.loads(out.model_dump_json()))
        except Exception as e:
            ctx.stats["field_stream_raised_" + type(e).__name__] += 1
            continue
        ctx.stats["field_stream_cases"] += 1
        ctx.stats["field_stream_seq_" + kind] += 1
        err = same_exprs(doc.program, out2.program, rng)
        if err:
            ctx.violation("failing-input", "re-imported uncompiled routine differs: " + err, {"qref": q}, err, "mathematically equal expressions")
            return
        ctx.nontrivial(("fields", i))
        signal.setitimer(signal.ITIMER_VIRTUAL, 20)
        try:
            st, r = try_compile(q)
        except _Slow:
            ctx.stats["field_stream_compile_slow"] += 1
            continue
        finally:
            signal.setitimer(signal.ITIMER_VIRTUAL, 0)
        ctx.stats["field_stream_compile_" + st] += 1
        if st == "ok":
            try:
                c2 = compile_routine(out2).routine
            except Exception as e:
                ctx.violation("failing-input", f"the re-imported routine does not compile ({type(e).__name__}) although the original does", {"qref": q}, str(e)[:300], "same result")
                return
            diffs = compare.trees_equal_real(r.routine, c2, rng, constraints=False)
            if diffs:
                ctx.violation("failing-input", f"compiling the re-imported routine gives a different result: {diffs[0][:2]}", {"qref": q}, [str(z)[:200] for z in diffs[0]], "equal")
                return
            try:
                back = __import__("bartiq").CompiledRoutine.from_qref(SchemaV1.model_validate(json.loads(r.to_qref().model_dump_json())), B)
            except Exception as e:
                ctx.violation("failing-input", f"export/import of the compilation result raised {type(e).__name__}", {"qref": q}, str(e)[:300], "an equivalent routine")
                return
            diffs = compare.trees_equal_real(r.routine, back, rng, constraints=False)
            if diffs:
                ctx.violation("failing-input", f"re-imported compiled routine has a different value: {diffs[0][:2]}", {"qref": q}, [str(z)[:200] for z in diffs[0]], "equal")
                return
            ctx.stats["field_stream_compiled_roundtrips"] += 1
        if i % 70 == 0:
            ctx.sample({"field_stream": q})


def codec_stream(ctx):
    """the string encodings of connection endpoints and link targets (theorems C13_endpoint_encoding_roundtrip,
    C13_link_target_encoding_roundtrip and the NamesOK hypotheses of C13_roundtrip_structure): the model's `Endpoint.ofStr`,
    `targetOfStr` and their inverses against `_endpoint_from_qref`, `_endpoint_to_qref`, the `rsplit` of `Routine.from_qref`
    and `_linked_params_to_qref`, on strings with 0, 1 and several dots"""
    from bartiq import _routine as R
    from .. import model

    rng = ctx.rng
    parts = ["a", "b", "in_0", "out", "child", "x1", "Mid", "q_2", "n", "N"]
    strs = []
    for _ in range(ctx.n(150, 2000)):
        k = rng.choice([1, 1, 2, 2, 2, 3, 4])
        strs.append(".".join(rng.choice(parts) for _ in range(k)))
    lines = [f"endpoint {x}" for x in strs] + [f"target {x}" for x in strs]
    outs = model.run_driver(lines)
    for x, o in zip(strs, outs[:len(strs)]):
        ctx.stats["evaluations"] += 1
        ctx.stats["model_vs_impl_compared"] += 1
        try:
            e = R._endpoint_from_qref(x)
            real = ["ok", "_" if e.routine_name is None else e.routine_name, e.port_name, R._endpoint_to_qref(e)]
        except TypeError:
            real = ["error", "TypeError"]
        ctx.stats["codec_endpoint_" + real[0]] += 1
        if list(o) != real:
            ctx.disagreement("Endpoint.ofStr / toStr vs _endpoint_from_qref / _endpoint_to_qref", {"endpoint": x}, list(o), real)
            return
        if real[0] == "ok" and real[3] != x:
            ctx.violation("failing-input", "an endpoint string is not read back as written", {"endpoint": x}, real[3], x)
            return
    for x, o in zip(strs, outs[len(strs):]):
        ctx.stats["evaluations"] += 1
        ctx.stats["model_vs_impl_compared"] += 1
        try:
            t = ((split := x.rsplit(".", 1))[0], split[1])
            back = R._linked_params_to_qref({"s": (t,)})[0].targets[0]
            real = ["ok", t[0] or "_", t[1] or "_", back]
        except IndexError:
            real = ["error", "IndexError"]
        ctx.stats["codec_target_" + real[0]] += 1
        if list(o) != real:
            ctx.disagreement("targetOfStr / targetToStr vs rsplit / _linked_params_to_qref", {"target": x}, list(o), real)
            return
        if real[0] == "ok" and real[3] != x:
            ctx.violation("failing-input", "a link target string is not read back as written", {"target": x}, real[3], x)
            return
        if real[0] == "ok" and x.count(".") >= 2:
            ctx.nontrivial(("deep-target", x))


def port_symbol_stream(ctx):
    """port sizes written in terms of ANOTHER port's size variable (`#in_0`, `2*#in_0 + 1`, …): such a size is a declared size like any
    other — export -> validate -> import must give back the very same routine (the port variable of an unsized port `p` is `#p`
    and is exported as an absent size; the variable of another port is not)"""
    from bartiq import Routine
    from qref import SchemaV1

    rng = ctx.rng
    base = ctx.seed * 1000003 + 10900000
    for seed in range(base, base + ctx.n(120, 2500)):
        spec = gen(seed, None)
        case = pipeline.Case(seed, spec)
        q = json.loads(json.dumps(case.qref))
        touched = []

        def edit(n, path=()):
            ins = [p for p in n.get("ports", []) if p["direction"] in ("input", "through")]
            outs = [p for p in n.get("ports", []) if p["direction"] == "output"]
            if ins and outs and rng.random() < 0.6:
                src, dst = rng.choice(ins), rng.choice(outs)
                shape = rng.choice(["#{}", "#{}", "2*#{} + 1", "#{} + 1"])
                dst["size"] = shape.format(src["name"])
                touched.append((".".join(path) or "root", dst["name"], dst["size"]))
            for c in n.get("children", []):
                edit(c, path + (c["name"],))
        edit(q)
        if not touched:
            continue
        ctx.stats["evaluations"] += 1
        try:
            r1 = Routine.from_qref(schema(q), B)
        except Exception:
            ctx.stats["port_symbol_docs_not_imported"] += 1
            continue
        try:
            out = SchemaV1.model_validate(json.loads(r1.to_qref(B).model_dump_json()))
            r2 = Routine.from_qref(out, B)
        except Exception as e:
            ctx.violation("failing-input", f"round trip of a routine with a port sized by another port's variable raised {type(e).__name__}", {"qref": q}, str(e)[:300], "the same routine")
            return
        ctx.stats["port_symbol_round_trips"] += 1
        ctx.stats["port_symbol_shape_bare" if any(t[2].startswith("#") and "+" not in t[2] for t in touched) else "port_symbol_shape_compound"] += 1
        if len(touched) >= 2:
            ctx.nontrivial(("port-variable-sizes", len(touched)))
        def sizes(r, path=()):
            for n_, p_ in r.ports.items():
                yield (".".join(path) or "root", n_), str(p_.size)
            for cn, c in r.children.items():
                yield from sizes(c, path + (cn,))
        a, b = dict(sizes(r1)), dict(sizes(r2))
        diff = {k: (a[k], b.get(k)) for k in a if a[k] != b.get(k)}
        if diff:
            ctx.violation("failing-input", "a routine with a port sized by another port's variable is not read back as written",
                          {"qref": q, "ports_edited": touched}, {"port sizes (written, read back)": {f"{k[0]}:{k[1]}": v for k, v in diff.items()}}, "the same port sizes")
            return


def run(ctx, widen=False):
    n = ctx.n(300, 8000) * (3 if widen else 1)
    ctx.rule = ("routine trees with repetitions of all five kinds (70% symbolic parameters), deep links, locals; export -> validate -> import for the uncompiled routine and "
                "for the compilation result; unsized root input ports excluded (listed finding, witness replayed); non-trivial = has a repetition, a deep link or locals")
    known_witnesses(ctx)
    corpus(ctx)
    field_stream(ctx)
    codec_stream(ctx)
    port_symbol_stream(ctx)
    base = ctx.seed * 1000003 + 10500000
    pipeline.run_stream(ctx, __name__, range(base, base + n), use_model=False)


def replay(payload):
    from bartiq import Routine

    q = payload["input"]["qref"]
    print("recorded:", payload.get("what"))
    try:
        out = Routine.from_qref(schema(q), B).to_qref(B)
        print("uncompiled export ok")
    except Exception as e:
        print("uncompiled export raised", type(e).__name__, str(e)[:200])
    st, r = try_compile(q)
    print("compile:", st)
    if st == "ok":
        try:
            r.to_qref()
            print("compiled export ok")
        except Exception as e:
            print("compiled export raised", type(e).__name__, str(e)[:200])
    return 0
