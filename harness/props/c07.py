"""C07 — repetition arithmetic equals the unrolled sum.

Theorems (Properties/C07.lean) are about the closed forms regenerated from the code each run.  Search on the real code:
(A) get_sum / get_prod of every sequence class at counts 0..40 and random rational parameters against the unrolled sum;
(B) wrappers embedded at depth 1-3 with symbolic and numeric counts/parameters, compiled and evaluated at counts 0..40,
    against the unrolled sum of the child's compiled resource;  (C) the general hierarchy stream with many repetitions
    against the bottom-up reading and against the Lean model."""
from __future__ import annotations

import random
from fractions import Fraction

from .. import compare, expr as E, pipeline, refsem, routinegen as G
from ..real import BartiqCompilationError, evaluate, sympy_backend as B, try_compile, walk
from . import c01

LEVEL = "proof"


def gen(seed, extra):
    rng = random.Random(seed)
    return G.gen_routine(rng, G.Opts(p_rep=0.6, max_depth=3, **(extra or {})))


oracle = c01.oracle


def direct(ctx):
    import sympy
    from bartiq.repetitions import ArithmeticSequence, ClosedFormSequence, ConstantSequence, CustomSequence, GeometricSequence

    rng = ctx.rng
    R = sympy.Rational

    def rq(lo=1, hi=5):
        return Fraction(rng.randint(lo, hi), rng.choice([1, 1, 2, 3]))

    top = ctx.n(24, 40)
    for trial in range(ctx.n(6, 40)):
        x = rq()
        m, a, d, r = rq(), rq(0, 4), rq(), rq(2, 5)
        if r == 1:
            r = Fraction(3, 2)
        for n in range(0, top + 1):
            cases = [
                ("constant.sum", ConstantSequence("constant", R(m.numerator, m.denominator)).get_sum, sum((m * x for _ in range(n)), Fraction(0))),
                ("arithmetic.sum", ArithmeticSequence("arithmetic", R(a.numerator, a.denominator), R(d.numerator, d.denominator)).get_sum,
                 sum(((a + i * d) * x for i in range(n)), Fraction(0))),
                ("geometric.sum", GeometricSequence("geometric", R(r.numerator, r.denominator)).get_sum, sum((r**i * x for i in range(n)), Fraction(0))),
            ]
            mi = rng.randint(0, 3)
            cases.append(("constant.prod", ConstantSequence("constant", sympy.Integer(mi)).get_prod, x ** (n * mi)))
            it = sympy.Symbol("it")
            cases.append(("custom.sum", CustomSequence("custom", it * R(d.numerator, d.denominator) + 2, it).get_sum,
                          sum(((i * d + 2) * x for i in range(n)), Fraction(0))))
            # a term that does not mention the iterator: Σ_{i<n} c·x = n·c·x
            cases.append(("custom.sum(iterator-free term)", CustomSequence("custom", R(d.numerator, d.denominator) + 2, it).get_sum,
                          sum(((d + 2) * x for _ in range(n)), Fraction(0))))
            cases.append(("custom.sum(symbolic iterator-free term)",
                          (lambda xx, nn, bb, _k=sympy.Symbol("k"): CustomSequence("custom", _k + 1, it).get_sum(xx, nn, bb).subs(_k, R(m.numerator, m.denominator))),
                          sum(((m + 1) * x for _ in range(n)), Fraction(0))))
            T = sympy.Symbol("T")
            cases.append(("closed_form.sum", ClosedFormSequence("closed_form", T * (T + 1) / 2, None, T).get_sum, x * Fraction(n * (n + 1), 2)))
            for name, fn, exp in cases:
                got = fn(R(x.numerator, x.denominator), sympy.Integer(n), B)
                ctx.stats["evaluations"] += 1
                ctx.stats["direct_" + name] += 1
                try:
                    gv = E.sympy_ev(sympy.sympify(got).doit(), {})
                except (E.Undefined, OverflowError):
                    continue
                if not compare.close(gv, exp, True):
                    ctx.violation("failing-input", f"{name} of the sequence class differs from the unrolled iteration at count {n}",
                                  {"sequence": name, "count": n, "params": {"m": m, "a": a, "d": d, "r": r, "mi": mi, "x": x}}, str(got), exp)
                    return
        ctx.nontrivial(("direct", trial))


def wrapper_doc(kind, symbolic, depth, rng):
    """root -> (mid)* -> w(rep) -> core; parameters reach the wrapper through links from root"""
    core = {"name": "core", "input_params": ["z"], "resources": [{"name": "T", "type": "additive", "value": "z + 2"}]}
    if kind == "constant":
        core["resources"].append({"name": "cost", "type": "multiplicative", "value": "z"})
    w = {"name": "w", "input_params": ["c", "p", "q", "z"], "children": [core],
         "linked_params": [{"source": "z", "targets": ["core.z"]}]}
    cnt = "c" if symbolic else rng.randint(0, 6)
    seqs = {
        "constant": {"type": "constant", "multiplier": "p" if symbolic else 3},
        "arithmetic": {"type": "arithmetic", "initial_term": "p" if symbolic else 2, "difference": "q" if symbolic else 3},
        "geometric": {"type": "geometric", "ratio": "p" if symbolic else 3},
        "closed_form": {"type": "closed_form", "sum": "Tn*(Tn + p)" if symbolic else "Tn*(Tn + 2)", "num_terms_symbol": "Tn"},
        "custom": {"type": "custom", "term_expression": "it*p + q" if symbolic else "it*2 + 1", "iterator_symbol": "it"},
    }
    w["repetition"] = {"count": cnt, "sequence": seqs[kind]}
    node = w
    path = "w"
    for i in range(depth - 1):
        node = {"name": f"m{i}", "input_params": ["c", "p", "q", "z"], "children": [node],
                "linked_params": [{"source": s, "targets": [f"{node['name']}.{s}"]} for s in ("c", "p", "q", "z")]}
    root = {"name": "root", "input_params": ["c", "p", "q", "z"], "children": [node],
            "linked_params": [{"source": s, "targets": [f"{node['name']}.{s}"]} for s in ("c", "p", "q", "z")]}
    return root, cnt


def unrolled(kind, n, p, q, z, symbolic):
    if not symbolic:
        p, q = {"constant": (3, 0), "arithmetic": (2, 3), "geometric": (3, 0), "closed_form": (2, 0), "custom": (2, 1)}[kind]
        p, q = Fraction(p), Fraction(q)
    x = z + 2
    if kind == "constant":
        return sum((p * x for _ in range(n)), Fraction(0)), z ** (n * p) if p.denominator == 1 else None
    if kind == "arithmetic":
        return sum(((p + i * q) * x for i in range(n)), Fraction(0)), None
    if kind == "geometric":
        return sum((p**i * x for i in range(n)), Fraction(0)), None
    if kind == "closed_form":
        return x * (n * (n + p)), None
    return sum(((i * p + q) * x for i in range(n)), Fraction(0)), None


def hierarchy(ctx):
    rng = ctx.rng
    top = ctx.n(16, 40)
    for kind in ("constant", "arithmetic", "geometric", "closed_form", "custom"):
        for symbolic in (True, False):
            for depth in ((1, 2) if not ctx.thorough() else (1, 2, 3)):
                q, cnt = wrapper_doc(kind, symbolic, depth, rng)
                st, r = try_compile(q)
                ctx.stats["evaluations"] += 1
                if st != "ok":
                    ctx.violation("failing-input", f"{kind} repetition wrapper at depth {depth} does not compile: {st}", {"qref": q}, str(r)[:300], "ok")
                    return
                counts = range(0, top + 1) if symbolic else [cnt]
                for n in counts:
                    p, qq, z = Fraction(rng.randint(2, 5)), Fraction(rng.randint(1, 4)), Fraction(rng.randint(1, 5))
                    if not symbolic:
                        asg = {"z": int(z)}
                    else:
                        asg = {"c": n, "p": int(p), "q": int(qq), "z": int(z)}
                    try:
                        ev = evaluate(r.routine, asg).routine
                    except Exception as e:
                        ctx.violation("failing-input", f"evaluate of a {kind} repetition at count {n} raised {type(e).__name__}", {"qref": q, "assignments_in_order": list(asg.items())}, str(e)[:200], "a value")
                        return
                    es, ep = unrolled(kind, n, p, qq, z, symbolic)
                    for path, node in walk(ev):
                        if node.name != "w":
                            continue
                        got = node.resources["T"].value
                        ctx.stats["hierarchy_points"] += 1
                        try:
                            gv = E.sympy_ev(__import__("sympy").sympify(got).doit(), {})
                        except (E.Undefined, OverflowError):
                            continue
                        if not compare.close(gv, es, True):
                            ctx.violation("failing-input", f"additive resource of a routine repeated with a {kind} sequence differs from the unrolled sum at count {n}",
                                          {"qref": q, "assignments_in_order": list(asg.items())}, str(got), es)
                            return
                        if ep is not None and "cost" in node.resources:
                            gp = E.sympy_ev(__import__("sympy").sympify(node.resources["cost"].value), {})
                            if not compare.close(gp, ep, True):
                                ctx.violation("failing-input", f"multiplicative resource under a constant sequence is not child ** (count*multiplier) at count {n}",
                                              {"qref": q, "assignments_in_order": list(asg.items())}, str(node.resources["cost"].value), ep)
                                return
                if kind == "custom" and symbolic:
                    # "symbols evaluated later": a parameter that occurs only in the CHILD's resource is first given a value that mentions a
                    # symbol spelled like the sequence's iterator.  That outer symbol is not the bound index: either the assignment is
                    # refused (the implementation's guard) or, once the outer symbol gets a number, the resource is the unrolled sum with
                    # the child's resource taken at that number — never a sum in which the index has captured it
                    for n in (1, 2, 3, 5):
                        pv, qv, itv = rng.randint(2, 5), rng.randint(1, 4), rng.randint(3, 9)
                        hist = [{"z": "2*it"}, {"c": n, "p": pv, "q": qv}]      # the outer `it` stays free; it gets its number outside bartiq
                        ctx.stats["iterator_named_assignments"] += 1
                        try:
                            ev = evaluate(evaluate(r.routine, hist[0]).routine, hist[1]).routine
                        except BartiqCompilationError:
                            ctx.stats["iterator_named_assignment_refused"] += 1
                            continue
                        except Exception as e:
                            ctx.violation("failing-input", f"evaluate of a custom repetition raised {type(e).__name__}", {"qref": q, "history": hist}, str(e)[:200], "a value or bartiq's own error")
                            return
                        es, _ = unrolled(kind, n, Fraction(pv), Fraction(qv), Fraction(2 * itv), True)
                        for path, node in walk(ev):
                            if node.name != "w":
                                continue
                            got = node.resources["T"].value
                            try:
                                sp = __import__("sympy")
                                gv = E.sympy_ev(sp.sympify(got).doit().subs(sp.Symbol("it"), itv), {})
                            except (E.Undefined, OverflowError):
                                continue
                            ctx.stats["iterator_named_assignment_compared"] += 1
                            if not compare.close(gv, es, True):
                                ctx.violation("failing-input", f"additive resource of a custom repetition differs from the unrolled sum at count {n} when the child's parameter was first "
                                              "assigned an expression mentioning a symbol spelled like the iterator (captured by the sum)",
                                              {"qref": q, "history": hist}, str(got), es)
                                return
                ctx.nontrivial(("hierarchy", kind, symbolic, depth))
                ctx.sample({"kind": kind, "symbolic": symbolic, "depth": depth, "qref": q}, cap=3)


def run(ctx, widen=False):
    ctx.rule = ("(A) 6 closed forms x counts 0..24|40 x random rational parameters on the sequence classes directly; (B) wrappers of the 5 kinds x "
                "{symbolic, numeric} parameters x depth 1..2|3, evaluated at counts 0..16|40; (C) hierarchy stream with p_rep=0.6 against the bottom-up "
                "reading and the Lean model; non-trivial = symbolic count/parameter or nesting, distinct (stream, kind, symbolic, depth | seed)")
    direct(ctx)
    if ctx.violations:
        return
    hierarchy(ctx)
    if ctx.violations:
        return
    n = ctx.n(200, 6000) * (3 if widen else 1)
    base = ctx.seed * 1000003 + 8500000
    pipeline.run_stream(ctx, __name__, range(base, base + n))
    # second family: closed forms whose bound placeholder is spelled like a name of the wrapper's own scope (or of an outer one), with
    # the wrapper's parameters bound by the parent to locals and expressions: the formula is taken at the COUNT, whatever those names mean
    pipeline.run_stream(ctx, __name__, range(base + 70000, base + 70000 + n // 2),
                        extra={"rep_kinds": ["closed_form", "closed_form", "closed_form", "custom", "arithmetic"], "p_placeholder_scope_clash": 0.3,
                               "p_placeholder_clash": 0.9, "symbolic_rep": 0.6})


def replay(payload):
    inp = payload["input"]
    if "qref" in inp:
        st, r = try_compile(inp["qref"])
        print("compile:", st, "| recorded:", payload.get("what"))
        if st == "ok":
            asg = dict(map(tuple, inp.get("assignments_in_order", [])))
            ev = evaluate(r.routine, asg).routine if asg else r.routine
            for step in inp.get("history", []) if isinstance(inp.get("history"), list) else []:
                print("evaluate", step)
                ev = evaluate(ev, step).routine
            for p, a in walk(ev):
                for rn, x in a.resources.items():
                    print(".".join(p) or "root", rn, "=", x.value)
    else:
        print(payload)
    return 0
