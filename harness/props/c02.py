"""C02 — port sizes follow the wires.

Oracle on the real compiled tree: (i) both ends of every connection at every node have equal size at random points;
(ii) every port size equals the size the bottom-up reading assigns to it (unsized ports carry what is wired to them,
incl. pass-throughs and through ports; declared ports carry their expression read in the node's own scope)."""
from __future__ import annotations

import random
from fractions import Fraction

from .. import expr as E, pipeline, refsem, routinegen as G
from ..compare import close, has_float
from ..real import evaluate, walk
from .c01 import gen  # noqa: F401  (same generator family)

LEVEL = "proof"


def wiring_features(spec):
    f = set()

    def rec(n, depth):
        for (s, t) in n["connections"]:
            if s[0] is not None and t[0] is not None:
                f.add("child->child")
            if s[0] is None and t[0] is None:
                f.add("pass-through")
        for p in n["ports"]:
            if p["direction"] == "through":
                f.add("through-port")
            if p["direction"] == "output" and p["size"] is None:
                f.add("unsized-output")
        if depth >= 2:
            f.add("depth>=2")
        for c in n["children"]:
            rec(c, depth + 1)

    rec(spec, 0)
    return f


def oracle(case, res, extra):
    if case.status != "ok":
        return
    spec, cr = case.spec, case.result.routine
    tops = refsem.top_level_inputs(spec)
    rng = random.Random(case.seed * 17 + 3)
    feats = wiring_features(spec)
    checked = 0
    for k in range(3):
        top = {n: Fraction(rng.randint(2, 9)) for n in set(tops) | set(cr.input_params)}
        salt = rng.randint(0, 10**6)
        try:
            nv = refsem.denote(spec, top, salt)
        except refsem.Ill:
            res.stats["reference_ill_formed"] += 1
            return
        except (E.Undefined, OverflowError):
            continue
        if refsem.collect(nv, "mismatch") or refsem.collect(nv, "o1"):
            res.stats["skipped_inconsistent_sizes"] += 1
            return
        for path, node in walk(cr):
            v = nv
            for p in path:
                v = v["children"][p]

            def size_of(ep):
                owner = node if ep.routine_name is None else node.children[ep.routine_name]
                return owner.ports[ep.port_name].size

            try:
                for s, t in node.connections.items():
                    a, b = size_of(s), size_of(t)
                    va, vb = E.sympy_ev(a, dict(top), salt), E.sympy_ev(b, dict(top), salt)
                    checked += 1
                    if not close(va, vb, has_float(a) or has_float(b)):
                        res.violation("failing-input", f"ends of connection {s.routine_name}.{s.port_name}->{t.routine_name}.{t.port_name} "
                                      f"at {'.'.join(path) or 'root'} have different sizes",
                                      {"qref": case.qref, "point": top}, {"source": str(a), "target": str(b), "values": [va, vb]}, "equal")
                        return
                for pn, port in node.ports.items():
                    got = E.sympy_ev(port.size, dict(top), salt)
                    checked += 1
                    if not close(got, v["ports"][pn], has_float(port.size)):
                        res.violation("failing-input", f"size of port {'.'.join(path) or 'root'}.{pn} is not the size that flows to it",
                                      {"qref": case.qref, "point": top}, {"compiled": str(port.size), "value": got}, v["ports"][pn])
                        return
            except (E.Undefined, OverflowError):
                res.stats["impl_undefined_point"] += 1
            except KeyError as e:
                res.violation("failing-input", f"a port size at {'.'.join(path) or 'root'} mentions {e}, which is not a top-level input",
                              {"qref": case.qref}, None, None)
                return
    # "for every input value", also when the values arrive in STAGES: one input is first replaced by an expression in a fresh symbol,
    # then the fresh symbol and all other inputs get numbers — the two ends of every connection still agree, and agree with the
    # compiled size taken at that point
    names = sorted(n for n in cr.input_params if "#" not in n)
    if checked and names and case.seed % 2 == 0:
        a = rng.choice(names)
        top = {n: Fraction(rng.randint(3, 9)) for n in names}
        hist = [{a: "kk_ + 3"}, {**{n: int(v) for n, v in top.items() if n != a}, "kk_": int(top[a]) - 3}]
        try:
            ev = evaluate(evaluate(cr, hist[0]).routine, hist[1]).routine
        except Exception as e:
            res.stats["staged_evaluation_raised_" + type(e).__name__] += 1
            ev = None
        if ev is not None:
            res.stats["staged_evaluations"] += 1
            for (path, node), (_, node0) in zip(walk(ev), walk(cr)):
                def size_of2(ep, nd=node):
                    owner = nd if ep.routine_name is None else nd.children[ep.routine_name]
                    return owner.ports[ep.port_name].size
                try:
                    for s_, t_ in node.connections.items():
                        a_, b_ = size_of2(s_), size_of2(t_)
                        va, vb = E.sympy_ev(a_, dict(top), 0), E.sympy_ev(b_, dict(top), 0)
                        if not close(va, vb, True):
                            res.violation("failing-input", f"after a staged evaluation the ends of connection {s_.routine_name}.{s_.port_name}->{t_.routine_name}.{t_.port_name} "
                                          f"at {'.'.join(path) or 'root'} have different sizes", {"qref": case.qref, "history": hist},
                                          {"source": str(a_), "target": str(b_)}, "equal")
                            return
                    for pn, port in node.ports.items():
                        left = {str(x) for x in getattr(port.size, "free_symbols", ())} & (set(hist[1]) | {a})
                        if left:
                            res.violation("failing-input", f"after a staged evaluation the size of port {'.'.join(path) or 'root'}.{pn} still mentions {sorted(left)}, which were assigned numbers",
                                          {"qref": case.qref, "history": hist}, str(port.size), "a size at the assigned values")
                            return
                        got, exp = E.sympy_ev(port.size, dict(top), 0), E.sympy_ev(node0.ports[pn].size, dict(top), 0)
                        if not close(got, exp, True):
                            res.violation("failing-input", f"after a staged evaluation the size of port {'.'.join(path) or 'root'}.{pn} is not the compiled size at that point",
                                          {"qref": case.qref, "history": hist}, {"evaluated": str(port.size), "compiled": str(node0.ports[pn].size)}, exp)
                            return
                except (E.Undefined, OverflowError, KeyError):
                    res.stats["staged_undefined_point"] += 1
    res.stats["port_facts_checked"] += checked
    if checked and feats & {"child->child", "pass-through", "through-port", "depth>=2"}:
        res.nontrivial.append((case.seed, tuple(sorted(feats))))
        for ft in feats:
            res.stats["feature_" + ft] += 1
    if case.seed % 101 == 0:
        res.samples.append({"qref": case.qref, "features": sorted(feats)})


def run(ctx, widen=False):
    n = ctx.n(400, 12000) * (3 if widen else 1)
    ctx.rule = ("routine trees from harness.routinegen with random wiring DAGs (parent-input->child, child->child, child->parent-output, "
                "pass-through, through ports); non-trivial = contains a child->child wire, a pass-through, a through port or nesting depth>=2; "
                "distinct generator seeds whose connections and port sizes were checked at 3 random points")
    base = ctx.seed * 1000003 + 500000
    pipeline.run_stream(ctx, __name__, range(base, base + n), extra={"p_through": 0.3, "p_passthrough": 0.35, "p_shuffle_children": 0.9, "max_children": 4, "leaf_inputs": [1, 2, 2, 3]})


def replay(payload):
    from ..real import try_compile

    st, res = try_compile(payload["input"]["qref"])
    print("compile:", st, "| recorded:", payload.get("what"))
    if st == "ok":
        for path, node in walk(res.routine):
            for pn, p in node.ports.items():
                print(".".join(path) or "root", pn, "=", p.size)
        if payload["input"].get("history"):
            from ..real import evaluate
            ev = res.routine
            for step in payload["input"]["history"]:
                print("evaluate", step)
                ev = evaluate(ev, step).routine
            for path, node in walk(ev):
                for pn, p in node.ports.items():
                    print(".".join(path) or "root", pn, "=", p.size)
    return 0
