"""C05 — evaluation is simultaneous substitution, composable and order-free."""
from __future__ import annotations

import itertools
import random
from fractions import Fraction

from .. import compare, expr as E, pipeline, routinegen as G
from ..real import evaluate, try_compile, walk
from .c01 import gen  # noqa: F401

LEVEL = "proof"
PARTIAL_NOTE = "rounding of folded numbers (IEEE/mpmath) is not modelled; checked numerically to 1e-14 relative"


def exprs(node):
    for rn, r in node.resources.items():
        yield ("resource", rn), r.value
    for pn, p in node.ports.items():
        yield ("port", pn), p.size


def same_everywhere(ta, tb, rng, what, res, case, replay_extra):
    nb = dict(walk(tb))
    for path, a in walk(ta):
        b = nb.get(path)
        if b is None:
            res.violation("failing-input", f"{what}: node {'.'.join(path) or 'root'} is missing", {"qref": case.qref, **replay_extra}, None, None)
            return False
        if sorted(a.input_params) != sorted(b.input_params):
            res.violation("failing-input", f"{what}: input_params of {'.'.join(path) or 'root'} differ", {"qref": case.qref, **replay_extra},
                          list(a.input_params), list(b.input_params))
            return False
        eb = dict(exprs(b))
        if set(dict(exprs(a))) != set(eb):
            res.violation("failing-input", f"{what}: ports/resources of {'.'.join(path) or 'root'} differ", {"qref": case.qref, **replay_extra},
                          sorted(map(str, dict(exprs(a)))), sorted(map(str, eb)))
            return False
        for k, x in exprs(a):
            y = eb[k]
            v, d = compare.sem_equal_real(x, y, rng)
            if v == "different":
                res.violation("failing-input", f"{what}: {k[0]} {'.'.join(path) or 'root'}.{k[1]} differs", {"qref": case.qref, **replay_extra},
                              {"left": str(x), "right": str(y)}, d)
                return False
    return True


# the implementations the functions_map streams use, as (parameters, body): what the Python lambdas compute on symbolic arguments
IMPL_TREES = {
    "f": (("x",), E.bin_("+", E.bin_("*", E.sym("x"), E.sym("x")), E.num(1))),
    "g": (("x",), E.bin_("+", E.bin_("*", E.num(2), E.sym("x")), E.num(3))),
    "h": (("x", "y"), E.bin_("+", E.sym("x"), E.bin_("*", E.num(2), E.sym("y")))),
}
IMPL_LAMBDAS = {"f": (lambda x: x * x + 1), "g": (lambda x: 2 * x + 3), "h": (lambda x, y: x + 2 * y)}
# other implementations under the SAME names (a later evaluate call of the same process must use the ones it is given)
IMPL_TREES_B = {
    "f": (("x",), E.bin_("*", E.num(3), E.sym("x"))),
    "g": (("x",), E.bin_("+", E.sym("x"), E.num(10))),
    "h": (("x", "y"), E.bin_("-", E.bin_("*", E.sym("x"), E.sym("y")), E.num(1))),
}
# value-inspecting implementations (no symbolic counterpart: the model's implementations are expressions; oracle only)
IMPL_LAMBDAS_C = {"f": (lambda x: 1 if x % 2 == 0 else 2), "g": (lambda x: 5 if x == 3 else 7), "h": (lambda x, y: 1 if x == y else 0)}
IMPL_LAMBDAS_B = {"f": (lambda x: 3 * x), "g": (lambda x: x + 10), "h": (lambda x, y: x * y - 1)}


def model_correspondence(cr, items, impl_tree, res, case, rng, fns=(), trees=None):
    """the Lean model of `_evaluate_internal` (about which C05's theorems are stated) on the same compiled routine and the
    same assignment (and the same functions_map, in dictionary order): ports, resources, repetition and remaining input
    parameters of every node must agree"""
    from .. import model, pipeline

    try:
        line = "evaluate " + E.croutine_sexp(cr) + " (" + " ".join(f"({k} {E.to_sexp(v)})" for k, v in items) + ")"
        if fns:
            trees = trees or IMPL_TREES
            line += " (" + " ".join(f"({k} ({' '.join(trees[k][0])}) {E.to_sexp(trees[k][1])})" for k in fns) + ")"
    except ValueError:
        res.stats["model_evaluate_unsupported_expression"] += 1
        return
    r = model.run_driver([line])[0]
    res.stats["model_vs_impl_compared"] += 1
    if fns:
        res.stats["model_vs_impl_with_functions_map"] += 1
    replay = {"qref": case.qref, "assignments_in_order": [[k, E.to_str(v)] for k, v in items]}
    if fns:
        replay["functions_map"] = list(fns)
    if r[0] != "ok":
        res.disagreement("evaluate vs Bartiq.evaluate (outcome)", replay, str(r)[:200], "ok")
        return
    m = model.decode_croutine(r[1])
    diffs = pipeline.compare_trees(impl_tree, m, random.Random(case.seed * 13 + 5), constraints=False)

    def ips(t, mt, path=()):
        if sorted(t.input_params) != sorted(mt["input_params"]):
            diffs.append((path, "remaining input_params", sorted(t.input_params), sorted(mt["input_params"])))
        for (cn, cc), mc in zip(t.children.items(), mt["children"]):
            ips(cc, mc, path + (cn,))
    if not diffs:
        ips(impl_tree, m)
    if diffs:
        res.disagreement("evaluate vs Bartiq.evaluate (tree)", replay, [d[3] for d in diffs[:3]], [(list(d[0]), d[1], d[2]) for d in diffs[:3]])


def oracle(case, res, extra):
    if case.status != "ok":
        return
    cr = case.result.routine
    rng = random.Random(case.seed * 19 + 11)
    names = sorted(cr.input_params)
    if not names:
        return
    # (c) empty assignment changes nothing
    try:
        e0 = evaluate(cr, {}).routine
    except Exception as e:
        res.violation("failing-input", f"evaluate with an empty assignment raised {type(e).__name__}", {"qref": case.qref, "assignments_in_order": []}, str(e), "unchanged routine")
        return
    if not same_everywhere(cr, e0, rng, "empty assignment", res, case, {"assignments_in_order": []}):
        return
    res.stats["empty_assignment_checked"] += 1
    # assignment: numbers and expressions, some mentioning other keys
    k = min(len(names), rng.randint(1, 4))
    keys = rng.sample(names, k)
    sigma = {}
    for kx in keys:
        r = rng.random()
        if r < 0.5:
            sigma[kx] = E.num(rng.randint(1, 9))
        elif r < 0.8 and len(names) > 1:
            sigma[kx] = E.bin_("+", E.sym(rng.choice([x for x in names if x != kx])), E.num(rng.randint(1, 3)))
        else:
            sigma[kx] = E.bin_("*", E.num(2), E.sym("zz"))
    items = list(sigma.items())

    def asg_of(its):
        return {kx: (int(v[1]) if v[0] == "num" else E.to_str(v)) for kx, v in its}

    perms = list(itertools.permutations(items)) if len(items) <= 4 else [items]
    if len(perms) > 24:
        perms = rng.sample(perms, 24)
    results = []
    for pm in perms:
        try:
            results.append(evaluate(cr, asg_of(pm)).routine)
        except Exception as e:
            results.append(e)
    res.stats["orderings_evaluated"] += len(perms)
    first = results[0]
    for pm, r in zip(perms[1:], results[1:]):
        if isinstance(first, Exception) != isinstance(r, Exception):
            res.violation("failing-input", "evaluate raises for one ordering of the assignment and not for another",
                          {"qref": case.qref, "assignments_in_order": list(asg_of(perms[0]).items()), "other_order": list(asg_of(pm).items())}, str(r)[:200], str(first)[:200])
            return
        if not isinstance(first, Exception):
            if not same_everywhere(first, r, rng, "order of assignments", res, case,
                                   {"assignments_in_order": list(asg_of(perms[0]).items()), "other_order": list(asg_of(pm).items())}):
                return
    if isinstance(first, Exception):
        res.stats["evaluate_raised_" + type(first).__name__] += 1
        return
    model_correspondence(cr, items, first, res, case, rng)
    # history: export the compilation result, import it again, evaluate THAT with the same assignment — the same routine results
    try:
        import json as _json

        from bartiq import CompiledRoutine
        from qref import SchemaV1

        from ..real import sympy_backend as _B
        back = CompiledRoutine.from_qref(SchemaV1.model_validate(_json.loads(case.result.to_qref().model_dump_json())), _B)
    except Exception:
        back = None       # (export of routines with unsized root inputs is a listed C13 finding)
        res.stats["reimport_unavailable"] += 1
    if back is not None:
        try:
            ev_back = evaluate(back, asg_of(perms[0])).routine
        except Exception as e:
            res.violation("failing-input", f"evaluating the re-imported compilation result raises {type(e).__name__} although evaluating the result itself does not",
                          {"qref": case.qref, "assignments_in_order": list(asg_of(perms[0]).items()), "history": "compile, to_qref, from_qref, evaluate"}, str(e)[:200], "same result")
            return
        res.stats["evaluated_after_reimport"] += 1
        if not same_everywhere(first, ev_back, rng, "evaluate after export and import vs evaluate", res, case,
                               {"assignments_in_order": list(asg_of(perms[0]).items()), "history": "compile, to_qref, from_qref, evaluate"}):
            return
    # reference: simultaneous substitution, everywhere (ports, resources, all descendants), unassigned untouched
    allnames = set(names) | {"zz"}
    for (path, a), (_, b) in zip(walk(cr), walk(first)):
        exp_inputs = sorted(set(a.input_params) - set(keys))
        if list(b.input_params) != exp_inputs:
            res.violation("failing-input", f"remaining input parameters of {'.'.join(path) or 'root'} are not exactly those not assigned",
                          {"qref": case.qref, "assignments_in_order": list(asg_of(items).items())}, list(b.input_params), exp_inputs)
            return
        for (kk, x), (_, y) in zip(exprs(a), exprs(b)):
            for _ in range(2):
                rho = {n: Fraction(rng.randint(2, 9)) for n in allnames}
                salt = rng.randint(0, 10**6)
                try:
                    rho2 = dict(rho)
                    for kx, v in sigma.items():
                        rho2[kx] = E.ev(v, rho, salt)
                    exp = E.sympy_ev(x, rho2, salt)
                    got = E.sympy_ev(y, dict(rho), salt)
                except (E.Undefined, OverflowError, KeyError):
                    continue
                res.stats["substitution_facts_checked"] += 1
                if not compare.close(got, exp, True):
                    res.violation("failing-input", f"evaluate is not the simultaneous substitution in {kk[0]} {'.'.join(path) or 'root'}.{kk[1]}",
                                  {"qref": case.qref, "assignments_in_order": list(asg_of(items).items())}, {"evaluated": str(y), "value": got}, exp)
                    return
    mentions = any(E.fv(v) & set(keys) for v in sigma.values())
    # (b) staging with disjoint numeric assignments
    num_keys = rng.sample(names, min(len(names), rng.randint(2, 4))) if len(names) >= 2 else []
    staged = False
    if num_keys:
        vals = {kx: rng.randint(1, 9) for kx in num_keys}
        cut = rng.randint(1, len(num_keys) - 1)
        s1 = {kx: vals[kx] for kx in num_keys[:cut]}
        s2 = {kx: vals[kx] for kx in num_keys[cut:]}
        try:
            once = evaluate(cr, vals).routine
            twice = evaluate(evaluate(cr, s1).routine, s2).routine
        except Exception as e:
            once = twice = None
            res.stats["staging_raised_" + type(e).__name__] += 1
        if once is not None:
            staged = True
            res.stats["staged_pairs"] += 1
            if not same_everywhere(once, twice, rng, "evaluating in two steps vs once", res, case, {"assignments_in_order": list(vals.items()), "split_after": cut}):
                return
    # (e) all inputs numeric: exact value to 15 significant digits
    total = {n: rng.randint(1, 12) for n in names}
    try:
        tv = evaluate(cr, total).routine
    except Exception as e:
        tv = None
        res.stats["total_eval_raised_" + type(e).__name__] += 1
    if tv is not None:
        rho = {n: Fraction(v) for n, v in total.items()}
        for (path, a), (_, b) in zip(walk(cr), walk(tv)):
            for (kk, x), (_, y) in zip(exprs(a), exprs(b)):
                if E.sympy_heads(x):
                    continue
                try:
                    exp = E.sympy_ev(x, dict(rho), funcs={"__none__": None})
                except (E.Undefined, OverflowError, KeyError):
                    continue
                if not isinstance(y, (int, float)):
                    res.stats["total_assignment_left_symbolic"] += 1
                    continue
                res.stats["numeric_values_checked"] += 1
                got = Fraction(y)
                err = abs(got - exp)
                # an expression whose terms cancel EXACTLY has no significant digits to speak of: sympy's numeric evaluation of such an
                # expression leaves a residue like 4e-124 — accepted when it is below 1e-14 of the largest intermediate magnitude
                inter = getattr(exp, "inter", Fraction(0))
                if exp == 0 and err <= max(inter, Fraction(1)) * Fraction(1, 10**14):
                    res.stats["exact_zero_with_numeric_residue"] += (1 if err else 0)
                    continue
                if err > abs(exp) * Fraction(1, 10**14) and err > Fraction(1, 10**300):
                    res.violation("failing-input", f"numeric value of {kk[0]} {'.'.join(path) or 'root'}.{kk[1]} is not exact to 15 significant digits",
                                  {"qref": case.qref, "assignments_in_order": list(total.items())}, {"value": y, "expression": str(x)}, float(exp))
                    return
    # (f) user function implementations
    fcalls = set()
    for _, a in walk(cr):
        for _, x in exprs(a):
            fcalls |= E.sympy_heads(x)
    fcalls &= {"f", "g"}
    if fcalls:
        fname = sorted(fcalls)[0]
        impl = (lambda *xs: xs[0] * xs[0] + 1)
        try:
            fr = evaluate(cr, {}, functions_map={fname: impl}).routine
        except Exception as e:
            fr = None
            res.stats["functions_map_raised_" + type(e).__name__] += 1
        if fr is not None:
            res.stats["functions_map_cases"] += 1
            for (path, a), (_, b) in zip(walk(cr), walk(fr)):
                for (kk, x), (_, y) in zip(exprs(a), exprs(b)):
                    if fname in E.sympy_heads(y):
                        res.violation("failing-input", f"a call of {fname} remains in {kk[0]} {'.'.join(path) or 'root'}.{kk[1]} after evaluate with functions_map",
                                      {"qref": case.qref, "functions_map": {fname: "lambda x: x*x + 1"}}, str(y), "no call left")
                        return
                    for _ in range(2):
                        rho = {n: Fraction(rng.randint(2, 9)) for n in names}
                        salt = rng.randint(0, 10**6)
                        try:
                            exp = E.sympy_ev(x, dict(rho), salt, funcs={fname: lambda *xs: xs[0] * xs[0] + 1})
                            got = E.sympy_ev(y, dict(rho), salt)
                        except (E.Undefined, OverflowError, KeyError):
                            continue
                        if not compare.close(got, exp, True):
                            res.violation("failing-input", f"{fname} was not interpreted by the supplied implementation in {kk[0]} {'.'.join(path) or 'root'}.{kk[1]}",
                                          {"qref": case.qref, "functions_map": {fname: "lambda x: x*x + 1"}}, {"evaluated": str(y), "value": got}, exp)
                            return
    if (len(keys) >= 2 and mentions) or staged or fcalls:
        res.nontrivial.append((case.seed, "mentions" if mentions else "", "staged" if staged else "", "fmap" if fcalls else ""))
    if case.seed % 71 == 0:
        res.samples.append({"qref": case.qref, "assignment": asg_of(items)})


def corpus(ctx):
    q = {"name": "root", "input_params": ["N"], "resources": [{"name": "x", "type": "other", "value": "1/(3*N)"}]}
    st, r = try_compile(q)
    ctx.stats["corpus_cases"] += 1
    if st == "ok":
        for n in (10**9, 10**16):
            v = evaluate(r.routine, {"N": n}).routine.resources["x"].value
            exp = Fraction(1, 3 * n)
            if not isinstance(v, (int, float)) or abs(Fraction(v) - exp) > exp * Fraction(1, 10**14):
                ctx.violation("failing-input", "corpus: small magnitudes lose their significant digits", {"qref": q, "assignments_in_order": [["N", n]]}, v, float(exp))


    # F15: an implementation with a fixed point at the inner argument (g(-3) = -3) left the outer call in place
    q = {"name": "root", "input_params": ["N"], "resources": [{"name": "T", "type": "additive", "value": "g(g(1 - 4)) + g(g(N))"}]}
    st, r = try_compile(q)
    ctx.stats["corpus_cases"] += 1
    if st == "ok":
        v = evaluate(r.routine, {"N": 2}, functions_map={"g": lambda x: 2 * x + 3}).routine.resources["T"].value
        if not isinstance(v, (int, float)) or v != 14:
            ctx.violation("failing-input", "corpus F15: user function not applied to an outer call whose inner call evaluates to its own argument",
                          {"qref": q, "assignments_in_order": [["N", 2]], "functions_map": ["g"]}, str(v), 14)


def gen_fexpr(rng, syms, depth):
    """function-heavy expressions: nested calls of the same user function are the norm"""
    if depth <= 0 or rng.random() < 0.2:
        return E.sym(rng.choice(syms)) if rng.random() < 0.7 else E.num(rng.randint(1, 4))
    r = rng.random()
    if r < 0.5:
        return E.app(rng.choice(["f", "f", "g"]), gen_fexpr(rng, syms, depth - 1))
    if r < 0.6:
        return E.app("h", gen_fexpr(rng, syms, depth - 1), gen_fexpr(rng, syms, depth - 1))
    return E.bin_(rng.choice(["+", "*", "-"]), gen_fexpr(rng, syms, depth - 1), gen_fexpr(rng, syms, depth - 1))


def functions_stream(ctx):
    """functions_map must reach EVERY call of the named function: nested in itself, nested across the hierarchy
    (a parent hands f(N) to a child that computes f(n)), inside other functions, in ports and resources."""
    rng = ctx.rng
    impls = IMPL_LAMBDAS
    for i in range(ctx.n(120, 2500)):
        t_child = gen_fexpr(rng, ["n", "k"], 3)
        t_loc = gen_fexpr(rng, ["N"], 2)
        t_root = gen_fexpr(rng, ["N", "M"], 3)
        q = {"name": "root", "input_params": ["N", "M"], "local_variables": {"v": E.to_str(t_loc)},
             "linked_params": [{"source": "v", "targets": ["a.n"]}, {"source": "M", "targets": ["a.k"]}],
             "resources": [{"name": "T", "type": "additive", "value": E.to_str(t_root)}],
             "children": [{"name": "a", "input_params": ["n", "k"], "resources": [{"name": "U", "type": "other", "value": E.to_str(t_child)}]}]}
        st, r = try_compile(q)
        ctx.stats["evaluations"] += 1
        if st != "ok":
            ctx.stats["functions_stream_compile_" + st] += 1
            continue
        which = rng.choice([["f"], ["g"], ["f", "g"], ["g", "f"], ["f", "g", "h"]])
        asg = rng.choice([{}, {"N": rng.randint(1, 4)}, {"N": rng.randint(1, 4), "M": rng.randint(1, 4)}])
        nested = False
        # history: the same routine, assignment and function NAMES are evaluated again with other implementations (every second
        # case): the later call must apply the implementations it is given
        rounds = [(IMPL_LAMBDAS, IMPL_TREES, "")] + ([(IMPL_LAMBDAS_B, IMPL_TREES_B, " (second evaluate call, same names, other implementations)")] if i % 2 == 0 else [])
        for impls, trees, label in rounds:
          fmap = {k: impls[k] for k in which}
          try:
            ev = evaluate(r.routine, asg, functions_map=fmap).routine
          except Exception as e:
            ctx.stats["functions_stream_raised_" + type(e).__name__] += 1
            break
          ctx.stats["functions_stream_cases"] += 1
          # the model's `evaluateWith` (BartiqModel/Functions.lean: C05_functions_* are about it) on the same routine, assignment and
          # functions_map
          model_correspondence(r.routine, [(k, E.num(v)) for k, v in asg.items()], ev, ctx,
                               type("Case", (), {"qref": q, "seed": ctx.seed * 1000 + i})(), rng, fns=tuple(which), trees=trees)
          funcs = {k: (lambda *xs, _f=impls[k]: _f(*xs)) for k in which}
          for (path, a), (_, b) in zip(walk(r.routine), walk(ev)):
              for (kk, x), (_, y) in zip(exprs(a), exprs(b)):
                  left = E.sympy_heads(y) & set(which)
                  if left:
                      ctx.violation("failing-input", f"a call of {sorted(left)} remains{label} in {kk[0]} {'.'.join(path) or 'root'}.{kk[1]} after evaluate with functions_map",
                                    {"qref": q, "assignments_in_order": list(asg.items()), "functions_map": which, "history": label.strip()}, str(y), "no call left")
                      return
                  for _ in range(2):
                      rho = {n: Fraction(rng.randint(1, 5)) for n in ("N", "M")}
                      rho.update({k: Fraction(v) for k, v in asg.items()})
                      salt = rng.randint(0, 10**6)
                      try:
                          exp = E.sympy_ev(x, dict(rho), salt, funcs=funcs)
                          got = E.sympy_ev(y, dict(rho), salt)
                      except (E.Undefined, OverflowError, KeyError):
                          continue
                      if not compare.close(got, exp, True):
                          ctx.violation("failing-input", f"user implementation of {which} not applied to every call{label} in {kk[0]} {'.'.join(path) or 'root'}.{kk[1]}",
                                        {"qref": q, "assignments_in_order": list(asg.items()), "functions_map": which, "history": label.strip()}, {"evaluated": str(y), "value": got}, exp)
                          return
                  sx = str(x)
                  if "f(f(" in sx.replace(" ", "") or sx.count("f(") >= 2:
                      nested = True
        # implementations that INSPECT the value of their argument (parity, comparison with a constant, equality of two arguments) and
        # answer for a symbol too: with every input assigned a number each call has numeric arguments when its implementation is
        # applied, so the result is the exact value of the expression with the function read as this implementation.  (ONE function
        # at a time: several opaque implementations are applied name by name in dictionary order, so a call nested in a call of
        # another name is still symbolic when the outer implementation runs — the documented behaviour of sympy's `replace`, which
        # the model's `defineFns` follows; only for implementations that are expressions does the order not matter.)
        if True:
            tot = {"N": rng.randint(1, 6), "M": rng.randint(1, 6)}
            which_c = [rng.choice(["f", "f", "g"])]
            fmap = {k: IMPL_LAMBDAS_C[k] for k in which_c}
            try:
                ev = evaluate(r.routine, tot, functions_map=fmap).routine
            except Exception as e:
                ctx.stats["functions_stream_inspecting_raised_" + type(e).__name__] += 1
                ev = None
            if ev is not None:
                ctx.stats["functions_stream_value_inspecting_cases"] += 1
                rho = {k: Fraction(v) for k, v in tot.items()}
                for (path, a), (_, b) in zip(walk(r.routine), walk(ev)):
                    for (kk, x), (_, y) in zip(exprs(a), exprs(b)):
                        if E.sympy_heads(x) - set(which_c) or not E.sympy_heads(x):
                            continue      # a call of a function without an implementation stays symbolic: no value to compare
                        try:
                            exp = E.sympy_ev(x, dict(rho), 0, funcs=dict(fmap))
                            got = E.sympy_ev(y, dict(rho), 0)
                        except (E.Undefined, OverflowError, KeyError, TypeError):
                            ctx.stats["functions_stream_value_inspecting_undefined"] += 1
                            continue
                        ctx.stats["functions_stream_value_inspecting_compared"] += 1
                        if not compare.close(got, exp, True):
                            ctx.violation("failing-input", f"with all inputs assigned numbers, {kk[0]} {'.'.join(path) or 'root'}.{kk[1]} is not the value of its expression under the "
                                          f"value-inspecting implementation of {which_c}",
                                          {"qref": q, "assignments_in_order": list(tot.items()), "functions_map": which_c, "history": "value-inspecting implementations"},
                                          {"evaluated": str(y), "value": got}, exp)
                            return
        if nested:
            ctx.nontrivial(("functions", i))
            ctx.stats["functions_stream_nested_calls"] += 1
        if i % 60 == 0:
            ctx.sample({"functions_stream": q, "functions_map": which, "assignment": asg})


def boundary_stream(ctx):
    """assigned values that are exact constants but not representable in 15 digits (rationals written as strings, sums of
    them), read by expressions that are discontinuous exactly there: floor(k*n) and ceiling(k*n) at n = j/k.  Replacing the input
    by its VALUE gives 2*j; replacing it by a rounded value does not."""
    rng = ctx.rng
    for k in (3, 6, 7, 9, 11, 13):
        q = {"name": "root", "input_params": ["N", "M"], "linked_params": [{"source": "N", "targets": ["a.n"]}],
             "resources": [{"name": "S", "type": "other", "value": f"floor({k}*N + M)"}],
             "children": [{"name": "a", "input_params": ["n"],
                           "resources": [{"name": "T", "type": "additive", "value": f"floor({k}*n) + ceiling({k}*n)"}]}]}
        st, r = try_compile(q)
        ctx.stats["evaluations"] += 1
        if st != "ok":
            ctx.stats["boundary_stream_compile_" + st] += 1
            continue
        for j in range(1, 2 * k + 1):
            if j % k == 0:
                continue
            for how in ("string", "staged", "sum"):
                val = f"{j}/{k}" if how != "sum" else f"{j - 1}/{k} + 1/{k}"
                try:
                    if how == "staged":
                        ev = evaluate(evaluate(r.routine, {"N": val}).routine, {"M": 2}).routine
                    else:
                        ev = evaluate(r.routine, {"N": val, "M": 2}).routine
                except Exception as e:
                    ctx.stats["boundary_stream_raised_" + type(e).__name__] += 1
                    continue
                ctx.stats["boundary_stream_cases"] += 1
                got_t = ev.children["a"].resources["T"].value
                got_s = ev.resources["S"].value
                if got_t != 2 * j or got_s != j + 2:
                    ctx.violation("failing-input", f"an input assigned the exact constant {val} is not replaced by its value: floor/ceiling at the boundary k*n = {j} give a neighbouring integer",
                                  {"qref": q, "assignments_in_order": [["N", val], ["M", 2]], "staged": how == "staged"},
                                  {"a.T": str(got_t), "root.S": str(got_s)}, {"a.T": 2 * j, "root.S": j + 2})
                    return
                ctx.nontrivial(("boundary", k, j, how))


def magnitude_stream(ctx):
    """'to 15 significant digits' is RELATIVE: values of very small and very large magnitude (failure probabilities 2**-b, error
    budgets eps/n, counts 10**k) keep their 15 digits — single monomials, so no cancellation can blur the comparison"""
    rng = ctx.rng
    q = {"name": "root", "input_params": ["b", "eps", "n"], "linked_params": [{"source": "b", "targets": ["rot.b"]}, {"source": "eps", "targets": ["rot.eps"]}],
         "resources": [{"name": "failure_prob", "type": "other", "value": "2 ** (-b)"}, {"name": "error", "type": "other", "value": "eps / n / 3"},
                       {"name": "big", "type": "other", "value": "7 * 10 ** b / n"}],
         "children": [{"name": "rot", "input_params": ["b", "eps"], "resources": [{"name": "p", "type": "other", "value": "3 * 2 ** (-b - 2)"},
                                                                                   {"name": "e", "type": "other", "value": "eps ** 2 / 7"}]}]}
    st, r = try_compile(q)
    ctx.stats["evaluations"] += 1
    if st != "ok":
        ctx.stats["magnitude_stream_compile_" + st] += 1
        return
    for i in range(ctx.n(40, 400)):
        b = rng.choice([rng.randint(20, 50), rng.randint(54, 90), rng.randint(100, 300)])
        k = rng.randint(6, 40)
        n = rng.choice([3, 7, 9, 11])
        asg = {"b": b, "eps": f"1/10**{k}", "n": n}
        exact = {("root", "failure_prob"): Fraction(1, 2**b), ("root", "error"): Fraction(1, 10**k) / n / 3, ("root", "big"): Fraction(7 * 10**b, n),
                 ("rot", "p"): Fraction(3, 2**(b + 2)), ("rot", "e"): Fraction(1, 10**(2 * k)) / 7}
        for staged in (False, True):
            try:
                ev = (evaluate(evaluate(r.routine, {"b": b}).routine, {"eps": asg["eps"], "n": n}) if staged else evaluate(r.routine, asg)).routine
            except Exception as e:
                ctx.stats["magnitude_stream_raised_" + type(e).__name__] += 1
                continue
            ctx.stats["magnitude_stream_cases"] += 1
            for (where, rn), exp in exact.items():
                node = ev if where == "root" else ev.children["rot"]
                v = node.resources[rn].value
                try:
                    got = Fraction(v) if isinstance(v, (int, float)) else Fraction(str(v)) if "/" in str(v) else Fraction(float(v))
                except (TypeError, ValueError):
                    ctx.violation("failing-input", f"{where}.{rn} is not a number after all inputs were assigned numbers", {"qref": q, "assignments_in_order": list(asg.items()), "staged": staged}, str(v), str(exp))
                    return
                if abs(got - exp) > abs(exp) * Fraction(1, 10**13):
                    ctx.violation("failing-input", f"{where}.{rn} does not equal the exact value of its expression to 15 significant digits",
                                  {"qref": q, "assignments_in_order": list(asg.items()), "staged": staged}, str(v), f"{float(exp):.15e}")
                    return
        ctx.nontrivial(("magnitude", b, k, n))


def run(ctx, widen=False):
    n = ctx.n(300, 8000) * (3 if widen else 1)
    ctx.notes.append(PARTIAL_NOTE)
    ctx.rule = ("compiled routines of the C01 stream x assignments of 1-4 inputs (numbers, expressions mentioning other assigned names, fresh symbols); all orderings "
                "(<=24), a 2-stage numeric split, the empty assignment, a total numeric assignment and a functions_map; non-trivial = >=2 keys with a value "
                "mentioning another key, or a split, or a functions_map entry; distinct seeds")
    base = ctx.seed * 1000003 + 5500000
    pipeline.run_stream(ctx, __name__, range(base, base + n), use_model=False)
    functions_stream(ctx)
    boundary_stream(ctx)
    if not ctx.violations:
        magnitude_stream(ctx)
    corpus(ctx)


def replay(payload):
    inp = payload["input"]
    st, r = try_compile(inp["qref"])
    print("compile:", st, "| recorded:", payload.get("what"))
    if st == "ok" and "assignments_in_order" in inp:
        impls = {"f": (lambda x: x * x + 1), "g": (lambda x: 2 * x + 3), "h": (lambda x, y: x + 2 * y)}
        if inp.get("history") == "value-inspecting implementations":
            impls = IMPL_LAMBDAS_C
        elif "second evaluate call" in str(inp.get("history")):
            impls = IMPL_LAMBDAS_B
        fm = inp.get("functions_map")
        fm = {k: impls[k] for k in fm} if isinstance(fm, list) else None
        ev = evaluate(r.routine, dict(map(tuple, inp["assignments_in_order"])), functions_map=fm).routine
        for p, a in walk(ev):
            for k, x in exprs(a):
                print(".".join(p) or "root", k, "=", x)
    return 0
