"""C08 — additive and multiplicative resources accumulate up the hierarchy.

Oracle on the real compiled tree: for every node and every additive (multiplicative) resource name the source node does
not define but some children have, the compiled value equals the sum (product) over exactly those children of their
compiled values; an explicit definition equals its bottom-up reading; with leaf-only definitions the root equals the
flat sum over leaves weighted by the repetition totals of repeated ancestors (computed by the independent reading)."""
from __future__ import annotations

import random
from fractions import Fraction

from .. import expr as E, pipeline, refsem, routinegen as G
from ..compare import close, has_float
from ..real import walk

LEVEL = "proof"


def gen(seed, extra):
    rng = random.Random(seed)
    extra = dict(extra or {})
    leaf_only = extra.pop("leaf_only", False) and seed % 2 == 0
    if leaf_only:
        extra["p_type_override"] = 0.0   # the flat-sum clause presupposes one type per resource name
    spec = G.gen_routine(rng, G.Opts(**extra))
    if leaf_only:
        def strip(n):
            if n["children"] and n["repetition"] is None:
                n["resources"] = [r for r in n["resources"] if r["type"] not in ("additive", "multiplicative")]
                for r in n["resources"]:
                    pass
            for c in n["children"]:
                strip(c)
        strip(spec)
        spec["_leaf_only"] = True
    return spec


def src_node(spec, path):
    n = spec
    for p in path:
        n = next(c for c in n["children"] if c["name"] == p)
    return n


def oracle(case, res, extra):
    if case.status != "ok":
        return
    spec, cr = case.spec, case.result.routine
    rng = random.Random(case.seed * 13 + 1)
    tops = set(refsem.top_level_inputs(spec)) | set(cr.input_params)
    feats = set()
    for k in range(2):
        top = {n: Fraction(rng.randint(2, 7)) for n in tops}
        salt = rng.randint(0, 10**6)
        try:
            nv = refsem.denote(spec, top, salt)
        except refsem.Ill:
            res.stats["reference_ill_formed"] += 1
            return
        except (E.Undefined, OverflowError):
            continue
        if refsem.collect(nv, "mismatch") or refsem.collect(nv, "o1"):
            res.stats["skipped_inconsistent_sizes"] += 1
            return
        for path, node in walk(cr):
            sn = src_node(spec, path)
            if sn["repetition"] is not None:
                continue
            own = {r["name"] for r in sn["resources"]}
            where = ".".join(path) or "root"
            by_name = {}
            for cn, ch in node.children.items():
                for rn, r in ch.resources.items():
                    if r.type.value in ("additive", "multiplicative"):
                        by_name.setdefault(rn, []).append((cn, r))
            for rn, lst in by_name.items():
                types = {r.type.value for _, r in lst}
                if rn in own:
                    feats.add("explicit-over-children")
                    continue
                if len(types) != 1:
                    res.stats["mixed_type_name_skipped"] += 1
                    continue
                ty = types.pop()
                if rn not in node.resources:
                    res.violation("failing-input", f"{where} lacks default-propagated resource {rn} that children {[c for c, _ in lst]} have",
                                  {"qref": case.qref}, sorted(node.resources), rn)
                    return
                try:
                    vals = [E.sympy_ev(r.value, dict(top), salt) for _, r in lst]
                    got = E.sympy_ev(node.resources[rn].value, dict(top), salt)
                except (E.Undefined, OverflowError):
                    continue
                exp = sum(vals, Fraction(0)) if ty == "additive" else __import__("functools").reduce(lambda a, b: a * b, vals, Fraction(1))
                res.stats["default_propagations_checked"] += 1
                feats.add("default-" + ty)
                if len(path) + 2 <= depth_of(sn) + len(path):
                    pass
                if node.resources[rn].type.value != ty:
                    res.violation("failing-input", f"propagated resource {where}.{rn} has type {node.resources[rn].type.value}, children have {ty}",
                                  {"qref": case.qref}, node.resources[rn].type.value, ty)
                    return
                if not close(got, exp, True):
                    res.violation("failing-input", f"{where}.{rn} is not the {'sum' if ty == 'additive' else 'product'} over exactly the children {[c for c, _ in lst]} that have it",
                                  {"qref": case.qref, "point": top}, {"compiled": str(node.resources[rn].value), "value": got}, exp)
                    return
            # explicit definitions (and everything else) against the reading
            v = nv
            for p in path:
                v = v["children"][p]
            for rn in own:
                exp = v["resources"].get(rn)
                if exp is None or rn not in node.resources:
                    continue
                try:
                    got = E.sympy_ev(node.resources[rn].value, dict(top), salt)
                except (E.Undefined, OverflowError):
                    continue
                if not close(got, exp, True):
                    res.violation("failing-input", f"explicitly defined {where}.{rn} differs from its own definition read bottom-up",
                                  {"qref": case.qref, "point": top}, got, exp)
                    return
        # flat sum over leaves
        if spec.get("_leaf_only"):
            totals = {}

            def leaves(n, v, weight):
                w = weight
                if n["repetition"] is not None:
                    pass
                if not n["children"]:
                    for rn, ty in v["restypes"].items():
                        if ty == "additive" and v["resources"][rn] is not None:
                            totals[rn] = totals.get(rn, Fraction(0)) + w * v["resources"][rn]
                for c in n["children"]:
                    cw = w
                    if n["repetition"] is not None:
                        cw = w * rep_total(n, v)
                    leaves(c, v["children"][c["name"]], cw)

            def rep_total(n, v):
                rep = n["repetition"]
                sc = dict(v["scope"])

                def evs(t, extra=None):
                    s2 = dict(sc)
                    if extra:
                        s2.update(extra)
                    return E.ev(t, s2, salt)

                cnt = int(evs(rep["count"]))
                if rep["sequence"]["type"] == "closed_form":
                    return evs(rep["sequence"]["sum"], {rep["sequence"]["num_terms_symbol"]: Fraction(cnt)})
                return sum(refsem._iter_terms(rep, evs, cnt), Fraction(0))

            try:
                leaves(spec, nv, Fraction(1))
            except (E.Undefined, OverflowError, KeyError, ValueError):
                totals = {}
            for rn, exp in totals.items():
                if rn in cr.resources and cr.resources[rn].type.value == "additive":
                    try:
                        got = E.sympy_ev(cr.resources[rn].value, dict(top), salt)
                    except (E.Undefined, OverflowError):
                        continue
                    res.stats["flat_sums_checked"] += 1
                    feats.add("flat-leaf-sum")
                    if not close(got, exp, True):
                        res.violation("failing-input", f"root.{rn} is not the sum over all leaves weighted by the repetition sums of repeated ancestors",
                                      {"qref": case.qref, "point": top}, got, exp)
                        return
    # ---- history on bartiq's own Routine objects: compile a routine, DERIVE a variant from it (dataclasses.replace: one more leaf
    # under the root that has an additive resource some children already have) and compile the variant — the new leaf counts
    if case.seed % 3 == 0 and spec["repetition"] is None and cr.children:
        import dataclasses

        import bartiq
        from ..real import compile_routine, schema, sympy_backend

        own_root = {r["name"] for r in spec["resources"]}
        # (names that every child carrying them types as additive: with mixed typing the clause presupposes nothing)
        mixed = {rn for ch in cr.children.values() for rn, r in ch.resources.items() if r.type.value != "additive"}
        cands = sorted({rn for ch in cr.children.values() for rn, r in ch.resources.items() if r.type.value == "additive"} - own_root - mixed)
        if cands:
            rn = rng.choice(cands)
            try:
                base = bartiq.Routine.from_qref(schema(case.qref), sympy_backend)
                compile_routine(base)
                leaf = bartiq.Routine.from_qref(schema({"name": "zz_extra", "resources": [{"name": rn, "type": "additive", "value": 5}]}), sympy_backend)
                variant = dataclasses.replace(base, children={**base.children, "zz_extra": leaf}, children_order=(*base.children_order, "zz_extra"))
                r_var = compile_routine(variant).routine
            except Exception as e:
                r_var = None
                res.stats["derived_variant_raised_" + type(e).__name__] += 1
            if r_var is not None and rn in r_var.resources and rn in cr.resources:
                res.stats["derived_variants_checked"] += 1
                top = {n: Fraction(rng.randint(2, 7)) for n in set(cr.input_params) | set(r_var.input_params)}
                salt = rng.randint(0, 10**6)
                try:
                    old = E.sympy_ev(cr.resources[rn].value, dict(top), salt)
                    new = E.sympy_ev(r_var.resources[rn].value, dict(top), salt)
                    if not close(new, old + 5, True):
                        res.violation("failing-input", f"after compiling a routine and deriving a variant with one more leaf (additive {rn} = 5), root.{rn} of the variant does not count the new leaf",
                                      {"qref": case.qref, "history": f"compile(base); variant = replace(base, children + leaf zz_extra with {rn}=5); compile(variant)", "point": top},
                                      {"compiled": str(r_var.resources[rn].value), "value": new}, old + 5)
                        return
                except (E.Undefined, OverflowError, KeyError):
                    pass
    # ---- a DERIVED resource that recalculates an additive resource of the leaves (compile_routine(derived_resources=…)): the derived
    # value is the leaf's compiled value, and every routine above that does not define the resource itself still carries the sum over
    # exactly its children's compiled values
    if case.seed % 3 == 1 and cr.children:
        from ..real import try_compile

        leaf_names = sorted({rn for path, nd in walk(cr) if path and not nd.children for rn, r in nd.resources.items() if r.type.value == "additive"})
        typed_otherwise = {rn for _, nd in walk(cr) for rn, r in nd.resources.items() if r.type.value != "additive"}
        leaf_names = [x for x in leaf_names if x not in typed_otherwise]
        if leaf_names:
            rn = rng.choice(leaf_names)
            bonus = rng.randint(11, 19)

            def calc(routine, backend, _rn=rn, _b=bonus):
                if not routine.children and _rn in routine.resources:
                    return backend.as_expression(f"{_b}")
                return None
            st_d, r_d = try_compile(case.qref, derived_resources=[{"name": rn, "type": "additive", "calculate": calc}])
            res.stats["derived_additive_" + st_d.split(":")[0]] += 1
            if st_d == "ok":
                top = {n: Fraction(rng.randint(2, 7)) for n in set(cr.input_params) | set(r_d.routine.input_params)}
                salt = rng.randint(0, 10**6)
                hist = f"compile_routine(derived_resources=[{{name: {rn}, type: additive, calculate: {bonus} for leaves that have {rn}, else None}}])"
                for path, node in walk(r_d.routine):
                    sn = src_node(spec, path)
                    if sn["repetition"] is not None or not node.children or any(r["name"] == rn for r in sn["resources"]):
                        continue
                    kids = [ch.resources[rn].value for ch in node.children.values() if rn in ch.resources]
                    if not kids or rn not in node.resources:
                        continue
                    try:
                        got = E.sympy_ev(node.resources[rn].value, dict(top), salt)
                        exp = sum((E.sympy_ev(k_, dict(top), salt) for k_ in kids), Fraction(0))
                    except (E.Undefined, OverflowError, KeyError):
                        continue
                    res.stats["derived_additive_sums_checked"] += 1
                    feats.add("derived-additive")
                    if not close(got, exp, True):
                        res.violation("failing-input", f"with the additive resource {rn} of the leaves derived, {'.'.join(path) or 'root'}.{rn} is not the sum of that resource over its children",
                                      {"qref": case.qref, "history": hist, "point": top, "derived": {"name": rn, "leaf_value": bonus}}, {"compiled": str(node.resources[rn].value), "value": got}, exp)
                        return
    if depth_of(spec) >= 3 and feats:
        res.nontrivial.append((case.seed, tuple(sorted(feats))))
    for ft in feats:
        res.stats["feature_" + ft] += 1
    if case.seed % 83 == 0:
        res.samples.append({"qref": case.qref, "features": sorted(feats)})


def depth_of(n):
    return 1 + max((depth_of(c) for c in n["children"]), default=0)


def run(ctx, widen=False):
    n = ctx.n(400, 12000) * (3 if widen else 1)
    ctx.rule = ("routine trees where each of the resource names T,Q (additive), cost (multiplicative) is defined on a random subset of "
                "nodes; half of the cases define additive resources on leaves only (flat-sum clause); non-trivial = depth>=3 "
                "(a grandchild contributes) and at least one default propagation / explicit override / flat sum was checked; distinct seeds")
    base = ctx.seed * 1000003 + 2500000
    pipeline.run_stream(ctx, __name__, range(base, base + n), extra={"leaf_only": True, "p_rep": 0.25})


def replay(payload):
    from ..real import try_compile

    st, res = try_compile(payload["input"]["qref"])
    print("compile:", st, "| recorded:", payload.get("what"))
    if st == "ok":
        for path, node in walk(res.routine):
            for rn, r in node.resources.items():
                print(".".join(path) or "root", rn, r.type.value, "=", r.value)
    d = payload["input"].get("derived")
    if d:
        def calc(routine, backend):
            return backend.as_expression(str(d["leaf_value"])) if (not routine.children and d["name"] in routine.resources) else None
        st, res = try_compile(payload["input"]["qref"], derived_resources=[{"name": d["name"], "type": "additive", "calculate": calc}])
        print("compile with the derived resource:", st)
        if st == "ok":
            for path, node in walk(res.routine):
                if d["name"] in node.resources:
                    print(".".join(path) or "root", d["name"], "=", node.resources[d["name"]].value)
    return 0
