"""C20 — minimisation respects its bounds and reports a consistent optimum.

The six clauses are evaluated on the real `Optimizer.gradient_descent` (pure-float cost functions: polynomials and rational
functions) and on `minimize(expr, param, ...)` (sympy-backed cost): optimum within bounds, every history point within
bounds, history starts at x0, minimum_cost == cost(optimum), non-convergence -> RuntimeError, out-of-bounds start ->
ValueError (before any iteration).  Correspondence: the Lean model of the loop over Lean `Float` (IEEE double like Python)
is compared bit-for-bit with the real x_history."""
from __future__ import annotations

import math
import random
import struct

from .. import model
from ..real import sympy_backend as B  # noqa: F401

LEVEL = "proof"

COSTS = {
    "quad": (lambda x: (x - 1.5) * (x - 1.5) + 2.0, "(x - 1.5)*(x - 1.5) + 2.0", [1.0, 0.0, 1.5, 2.0]),
    "quartic": (lambda x: 0.1 * x * x * x * x - x * x + 0.5 * x, "0.1*x*x*x*x - x*x + 0.5*x", None),
    "shifted": (lambda x: (x + 3.0) * (x + 3.0), "(x + 3.0)*(x + 3.0)", None),
    "rational": (lambda x: x * x / (1.0 + x * x) + 0.01 * x * x, "x*x/(1.0 + x*x) + 0.01*x*x", None),
    "linear": (lambda x: 2.0 * x + 1.0, "2.0*x + 1.0", None),
    "flat": (lambda x: 3.0, "3.0", None),
}


def fhex(x: float) -> str:
    return struct.pack(">d", x).hex()


def clauses(ctx, res, x0, bounds, cost, desc, inp):
    """res: dict returned by the optimiser"""
    lo, hi = bounds if bounds else (-math.inf, math.inf)
    hist = res["x_history"]
    opt = res["optimal_value"]
    if not (lo <= opt <= hi):
        ctx.violation("failing-input", f"optimal value {opt} lies outside the bounds {bounds} ({desc})", inp, opt, bounds)
        return False
    bad = [h for h in hist if not (lo <= h <= hi)]
    if bad:
        ctx.violation("failing-input", f"history contains points outside the bounds {bounds} ({desc})", inp, bad[:3], bounds)
        return False
    if not hist or hist[0] != x0:
        ctx.violation("failing-input", f"history does not start at the supplied starting point ({desc})", inp, hist[:2], x0)
        return False
    if cost is not None:
        c = cost(opt)
        if res["minimum_cost"] != c and not (math.isnan(c) and math.isnan(res["minimum_cost"])):
            ctx.violation("failing-input", f"reported minimum cost is not the cost at the returned optimum ({desc})", inp, res["minimum_cost"], c)
            return False
    if opt != hist[-1] and opt not in hist:
        ctx.violation("failing-input", f"the returned optimum is not a point of the reported history ({desc})", inp, opt, hist[-3:])
        return False
    return True


def run(ctx, widen=False):
    from bartiq.analysis import Optimizer, minimize

    rng = ctx.rng
    ctx.notes.append("IEEE rounding is not proved about; the Float instance of the model is compared bit-for-bit with the implementation (partial)")
    ctx.rule = ("6 smooth float cost functions x bounds (two-sided, one-sided via minimize, degenerate lo=hi, none) x starting points (inside, on a bound, outside) x "
                "learning rates x max_iter (small enough to force non-convergence) x momentum; all six clauses on Optimizer.gradient_descent and on minimize; "
                "non-trivial = run that clamps at a bound, fails to converge, or starts on/outside a bound")
    lines, expect = [], []
    for i in range(ctx.n(600, 15000)):
        name = rng.choice(list(COSTS))
        f, fs, _ = COSTS[name]
        kind = rng.random()
        if kind < 0.2:
            bounds = None
        elif kind < 0.3:
            b = round(rng.uniform(-3, 3), 2)
            bounds = (b, b)
        elif kind < 0.9:
            lo = rng.choice([round(rng.uniform(-6, 2), 2), 0.0, -2.0])
            bounds = (lo, rng.choice([round(lo + rng.uniform(0.1, 8), 2), 0.0 if lo < 0 else lo + 1.0]))
        else:
            # bounds of large magnitude (parameters such as bit widths or gate counts): steps are tiny relative to the bound
            mag = rng.choice([1e3, 2.5e4, 1e6, 3e9])
            lo = rng.choice([mag, -mag, -2 * mag])
            bounds = (lo, lo + rng.choice([mag, 10.0, 2 * mag]))
        r = rng.random()
        if bounds is not None and abs(bounds[0]) >= 1e3 and r < 0.5:
            r = 0.7          # large bounds: start on a bound half of the time
        if bounds is None:
            x0 = round(rng.uniform(-5, 5), 3)
        elif r < 0.6:
            x0 = round(rng.uniform(bounds[0], bounds[1]), 3)
            x0 = min(max(x0, bounds[0]), bounds[1])
        elif r < 0.75:
            x0 = rng.choice(bounds)
        else:
            x0 = bounds[1] + rng.choice([0.5, 1e-9, 100.0]) if rng.random() < 0.5 else bounds[0] - rng.choice([0.5, 1e-9, 100.0])
        lr = rng.choice([1e-6, 1e-3, 0.01, 0.1, 0.5, 2.0])
        max_iter = rng.choice([1, 2, 5, 50, 400])
        tol = rng.choice([1e-8, 1e-4, 1e-2])
        if bounds is not None and abs(bounds[0]) >= 1e3 and rng.random() < 0.6:
            # the regime of huge parameters and cautious steps: start on the bound the slope points away from, tiny learning rate
            name = rng.choice(["linear", "quad", "shifted"])
            f, fs, _ = COSTS[name]
            slope_sign = 1 if name == "linear" else (1 if bounds[1] > (1.5 if name == "quad" else -3.0) else -1)
            x0 = bounds[1] if slope_sign > 0 else bounds[0]
            lr = rng.choice([1e-6, 1e-7, 1e-9])
            max_iter = rng.choice([2, 5, 50])
        mom = rng.choice([0.9, 0.0, 0.5])
        inp = {"cost": fs, "x0": x0, "bounds": bounds, "learning_rate": lr, "max_iter": max_iter, "tolerance": tol, "momentum": mom}
        ctx.stats["evaluations"] += 1
        outside = bounds is not None and not (bounds[0] <= x0 <= bounds[1])
        try:
            out = Optimizer.gradient_descent(f, x0=x0, bounds=bounds, learning_rate=lr, max_iter=max_iter, tolerance=tol, momentum=mom)
            status = "ok"
        except RuntimeError:
            out, status = None, "RuntimeError"
        except ValueError:
            out, status = None, "ValueError"
        except Exception as e:
            ctx.violation("failing-input", f"gradient_descent raised {type(e).__name__}", inp, str(e)[:200], "result, RuntimeError or ValueError")
            return
        ctx.stats["status_" + status] += 1
        if outside and status != "ValueError":
            ctx.violation("failing-input", "an out-of-bounds starting point is not reported as a ValueError", inp, status if out is None else out, "ValueError")
            return
        if not outside and status == "ValueError":
            ctx.violation("failing-input", "a starting point within the bounds is rejected", inp, status, "accepted")
            return
        if status == "ok" and not clauses(ctx, out, x0, bounds, f, "gradient_descent", inp):
            return
        # independent re-execution: non-convergence must be an error, never a value.  Re-run the documented update rule.
        # failure to converge must be an error, never a value: cases that cannot converge whatever the update rule does
        hopeless = (bounds is None and name == "linear") or \
                   (bounds is None and name in ("quad", "shifted") and lr <= 1e-6 and max_iter <= 50 and abs(x0 - (1.5 if name == "quad" else -3.0)) > 1.0 and tol <= 1e-2)
        # … and runs that start ON a bound with the slope pointing into the interval, with steps so small that neither the other bound
        # nor a flat region can be reached within max_iter: they have not converged and have not hit a bound after leaving it
        if bounds is not None and not hopeless and name in ("quad", "shifted", "linear") and bounds[0] < bounds[1] and x0 in bounds and max_iter <= 50 and tol <= 1e-2:
            g0 = (f(x0 + 1e-8) - f(x0 - 1e-8)) / 2e-8            # the slope as the implementation estimates it
            inward = (x0 == bounds[0] and g0 < 0) or (x0 == bounds[1] and g0 > 0)
            reach = 10 * lr * abs(g0) * max_iter * 2       # momentum <= 0.9: velocity <= 10 * lr * |g|; the slope changes by at most 2 * reach
            room = (bounds[1] - bounds[0]) if name == "linear" else min(bounds[1] - bounds[0], abs(x0 - (1.5 if name == "quad" else -3.0)))
            if inward and abs(g0) > 1.0 and 0 < reach < room / 4:
                # the first step must really leave the bound in floating point
                if x0 - lr * g0 != x0:
                    hopeless = True
                    ctx.stats["hopeless_runs_from_a_bound"] += 1
        if hopeless and status == "ok":
            ctx.violation("failing-input", "a run that cannot have converged (gradient far above the tolerance, no bound reached) is reported as a value", inp,
                          {k: (v if k != "x_history" else v[-3:]) for k, v in out.items()}, "RuntimeError")
            return
        if hopeless:
            ctx.stats["hopeless_runs_reported_as_error"] += 1
        # the implementation against an independent transcription of its documented update rule: a CORRESPONDENCE (a different
        # but valid optimiser breaks it without breaking the property)
        ref = reference_descent(f, x0, bounds, lr, max_iter, tol, mom)
        ctx.stats["model_vs_impl_compared"] += 1
        if ref[0] != status:
            ctx.disagreement("gradient_descent vs documented update rule (outcome)", inp, ref[0], status)
        elif status == "ok" and [fhex(v) for v in out["x_history"]] != [fhex(v) for v in ref[1]]:
            ctx.disagreement("gradient_descent vs documented update rule (trace)", inp, ref[1][:6], out["x_history"][:6])
        clamp = status == "ok" and bounds and out["optimal_value"] in bounds
        if clamp or status != "ok" or (bounds and x0 in bounds):
            ctx.nontrivial((name, x0, bounds, lr, max_iter))
        if name in ("quad", "shifted", "linear", "flat") and len(lines) < ctx.n(300, 3000):
            lines.append(f"graddesc {name} {fhex(x0)} {'_' if bounds is None else fhex(bounds[0])} {'_' if bounds is None else fhex(bounds[1])} {fhex(lr)} {max_iter} {fhex(tol)} {fhex(mom)} {fhex(1e-8)}")
            expect.append((inp, status, None if out is None else [fhex(v) for v in out["x_history"]], None if out is None else fhex(out["optimal_value"]), None if out is None else fhex(out["minimum_cost"])))
        if i % 150 == 0:
            ctx.sample({"input": inp, "status": status, "history_len": None if out is None else len(out["x_history"])})
    # minimize(): result class and invariants
    for i in range(ctx.n(60, 800)):
        expr = rng.choice(["(x - 2)**2 + 1", "x**2 + 3*x", "x**4 - 2*x**2", "(x + 1)**2", "(x - 7)**2", "(x + 6)**2"])
        lo = rng.choice([round(rng.uniform(-4, 1), 1), 0, 0.0, -1, 1])      # boundary values incl. a bound exactly 0
        hi = rng.choice([lo + 4.0, 0 if lo < 0 else lo + 2, lo + 0.5])
        bounds = rng.choice([(lo, hi), (None, hi), (lo, None)])
        lo_f = -math.inf if bounds[0] is None else bounds[0]
        hi_f = math.inf if bounds[1] is None else bounds[1]
        x0 = rng.choice([max(lo_f, min(hi_f, 0.5)), (lo_f if lo_f > -math.inf else hi_f), (hi_f + 1.0 if hi_f < math.inf else lo_f - 1.0)])
        kw = {"x0": x0, "bounds": bounds, "learning_rate": rng.choice([0.01, 0.1]), "max_iter": rng.choice([3, 200]), "tolerance": 1e-4}
        inp = {"expression": expr, "param": "x", "optimizer_kwargs": kw}
        ctx.stats["evaluations"] += 1
        outside = not (lo_f <= x0 <= hi_f)
        try:
            out = minimize(expr, "x", optimizer_kwargs=dict(kw))
            status = "ok"
        except RuntimeError:
            out, status = None, "RuntimeError"
        except ValueError:
            out, status = None, "ValueError"
        except Exception as e:
            ctx.violation("failing-input", f"minimize raised {type(e).__name__}", inp, str(e)[:200], "result, RuntimeError or ValueError")
            return
        ctx.stats["minimize_" + status] += 1
        if outside != (status == "ValueError"):
            ctx.violation("failing-input", "minimize: out-of-bounds start and ValueError do not coincide", inp, status, "ValueError" if outside else "accepted")
            return
        if status == "ok":
            costf = lambda v: float(B.value_of(B.substitute(B.as_expression(expr), {"x": v})))  # noqa: E731
            if not clauses(ctx, out, x0, (lo_f, hi_f), costf, "minimize", inp):
                return
        # history: ONE settings dictionary shared by several minimize calls (a sweep over cost expressions); every call must respect
        # the bounds and the start it was given
        if i % 2 == 0:
            shared = dict(kw)
            exprs = [expr, rng.choice(["(x + 3)**2", "(x - 5)**2 + x", "x**2"]), expr]
            for j, ex in enumerate(exprs):
                inp2 = {"expression": ex, "param": "x", "optimizer_kwargs": kw, "history": f"call {j + 1} of {len(exprs)} with the same optimizer_kwargs dict object; expressions {exprs}"}
                try:
                    out2 = minimize(ex, "x", optimizer_kwargs=shared)
                    st2 = "ok"
                except (RuntimeError, ValueError) as e2:
                    out2, st2 = None, type(e2).__name__
                except Exception as e2:
                    ctx.violation("failing-input", f"minimize raised {type(e2).__name__} on a repeated call", inp2, str(e2)[:200], "result, RuntimeError or ValueError")
                    return
                ctx.stats["minimize_shared_dict_calls"] += 1
                if outside != (st2 == "ValueError"):
                    ctx.violation("failing-input", "minimize with a shared settings dict: out-of-bounds start and ValueError do not coincide", inp2, st2,
                                  "ValueError" if outside else "accepted")
                    return
                if st2 == "ok":
                    cf2 = lambda v, ex=ex: float(B.value_of(B.substitute(B.as_expression(ex), {"x": v})))  # noqa: E731
                    if not clauses(ctx, out2, x0, (lo_f, hi_f), cf2, "minimize (shared settings dict)", inp2):
                        return
    # correspondence with the Lean Float model (bit-for-bit)
    if lines:
        try:
            resp = model.run_driver(lines)
        except RuntimeError as ex:
            ctx.notes.append("model graddesc unavailable: " + str(ex)[:80])
            return
        for (inp, status, hist, opt, mc), r in zip(expect, resp):
            ctx.stats["model_vs_impl_compared"] += 1
            if r[0] == "bad-request":
                ctx.notes.append("model graddesc command missing")
                break
            mstatus = r[0]
            if mstatus != status:
                ctx.disagreement("gradient_descent vs gradDescent (outcome)", inp, mstatus, status)
                continue
            if status == "ok":
                mh = list(r[1])
                if mh != hist or r[2] != opt or r[3] != mc:
                    ctx.disagreement("gradient_descent vs gradDescent (trace)", inp, {"history": mh[:5], "opt": r[2], "cost": r[3]}, {"history": hist[:5], "opt": opt, "cost": mc})


def reference_descent(f, x0, bounds, lr, max_iter, tol, mom, eps=1e-8):
    """the documented update rule, written independently"""
    if bounds and not (bounds[0] <= x0 <= bounds[1]):
        return "ValueError", None
    cur, vel, hist = x0, 0.0, [x0]
    for _ in range(max_iter):
        g = (f(cur + eps) - f(cur - eps)) / (2 * eps)
        vel = mom * vel - lr * g
        nxt = cur + vel
        if bounds:
            nxt = max(min(nxt, bounds[1]), bounds[0])
            if nxt == bounds[0] or nxt == bounds[1]:
                hist.append(nxt)
                return "ok", hist
        if abs(g) < tol:
            return "ok", hist
        hist.append(nxt)
        cur = nxt
    return "RuntimeError", None


def replay(payload):
    from bartiq.analysis import Optimizer, minimize

    inp = payload["input"]
    print("recorded:", payload.get("what"))
    try:
        if "expression" in inp:
            print(minimize(inp["expression"], inp["param"], optimizer_kwargs=inp["optimizer_kwargs"]))
        else:
            f = next(v[0] for v in COSTS.values() if v[1] == inp["cost"])
            b = tuple(inp["bounds"]) if inp["bounds"] else None
            out = Optimizer.gradient_descent(f, x0=inp["x0"], bounds=b, learning_rate=inp["learning_rate"], max_iter=inp["max_iter"], tolerance=inp["tolerance"], momentum=inp["momentum"])
            print({k: (v if k != "x_history" else v[:8]) for k, v in out.items()})
    except Exception as e:
        print("raised", type(e).__name__, e)
    return 0
