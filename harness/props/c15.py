"""C15 — resource aggregation is a linear, loss-free rewrite.

Reference: for every node, new[b] = old[b] + sum over decomposed resources d present in the node of old[d] * pathsum(d -> b),
where pathsum is the sum over all decomposition paths of the product of multipliers; computed here with exact fractions
from the raw (unexpanded) dictionary.  Exhaustive over all weighted DAGs on <=3|4 names, all subsets present, both modes, all
entry orders (<=3 entries); every cyclic dictionary must be rejected with an error."""
from __future__ import annotations

import itertools
import random
from fractions import Fraction

from .. import compare, expr as E
from ..real import compile_routine, schema, sympy_backend as B, walk

LEVEL = "proof"
NAMES = ["ra", "rb", "rc", "rd", "re"]
WEIGHTS = [2, 3, "k", "2*k + 1", 1]


def pathsum(dct, d, b, env, salt, memo=None):
    """sum over all paths d ~> b (b not a key) of the product of multipliers; dct acyclic"""
    memo = {} if memo is None else memo
    if (d, b) in memo:
        return memo[(d, b)]
    total = Fraction(0)
    for tgt, w in dct[d].items():
        wv = E.sympy_ev(B.as_expression(w) if isinstance(w, str) else w, dict(env), salt)
        if tgt in dct:
            total += wv * pathsum(dct, tgt, b, env, salt, memo)
        elif tgt == b:
            total += wv
    memo[(d, b)] = total
    return total


def is_cyclic(dct):
    color = {}

    def dfs(u):
        color[u] = 1
        for v in dct.get(u, {}):
            if v in dct:
                if color.get(v) == 1 or (color.get(v) is None and dfs(v)):
                    return True
        color[u] = 2
        return False

    return any(color.get(u) is None and dfs(u) for u in dct)


def make_routine(present_by_node, rng, compiled=True):
    """a small compiled hierarchy whose nodes hold the given resources with symbolic values"""
    def node(name, present, kids):
        return {"name": name, "input_params": ["N"],
                "resources": [{"name": r, "type": ty, "value": f"{i + 2}*N + {len(name)}"} for i, (r, ty) in enumerate(present)],
                "children": kids, "linked_params": [{"source": "N", "targets": [f"{k['name']}.N" for k in kids]}] if kids else []}
    leaf = node("leaf", present_by_node[2], [])
    mid = node("mid", present_by_node[1], [leaf])
    root = node("root", present_by_node[0], [mid])
    for n in (root, mid):
        if not n["linked_params"]:
            del n["linked_params"]
    if not compiled:
        # the transform is defined on uncompiled routines as well
        from bartiq import Routine

        return Routine.from_qref(schema(root), B)
    return compile_routine(schema(root)).routine


MODEL_QUEUE = []


def queue_model(cr, dct, remove, outcome, out):
    """remember the case for the batched model correspondence (Lean `addAggregatedResources`)"""
    if len(MODEL_QUEUE) < 2500:
        MODEL_QUEUE.append((cr, dct, remove, outcome, out))


def model_correspondence(ctx, rng):
    from .. import model

    if not MODEL_QUEUE:
        return
    lines = []
    for cr, dct, remove, outcome, out in MODEL_QUEUE:
        d = " ".join("(" + k + "".join(f" ({t} {E.to_sexp(E.sympy_to_tree(B.as_expression(w) if isinstance(w, str) else w))})" for t, w in v.items()) + ")" for k, v in dct.items())
        lines.append(f"aggregate {1 if remove else 0} {E.croutine_sexp(cr)} ({d})")
    resp = model.run_driver(lines)
    for (cr, dct, remove, outcome, out), r in zip(MODEL_QUEUE, resp):
        ctx.stats["model_vs_impl_compared"] += 1
        mo = "ok" if r[0] == "ok" else ("error" if r[0] == "err" else str(r[0]))
        if mo != outcome:
            ctx.disagreement("add_aggregated_resources vs addAggregatedResources (outcome)", {"aggregation": dct, "remove_decomposed": remove}, mo, outcome)
            continue
        if outcome != "ok":
            continue
        # hypothesis of C15_expansion_is_path_sum_partial, evaluated by the model on this very dictionary
        ctx.stats["topo_order_checked"] += 1
        if len(r) < 3 or r[2] != "topo-ok":
            ctx.disagreement("order of the model of _topological_sort is a valid expansion order (topoOK)", {"aggregation": dct}, str(r[2:] or "missing"), "topo-ok")
        m = model.decode_croutine(r[1])

        def cmp(node, mn, path):
            if {k: v.type.value for k, v in node.resources.items()} != {k: v[0] for k, v in mn["resources"].items()}:
                ctx.disagreement("add_aggregated_resources vs addAggregatedResources (names/types)", {"aggregation": dct, "remove_decomposed": remove, "node": path},
                                 {k: v[0] for k, v in mn["resources"].items()}, {k: v.type.value for k, v in node.resources.items()})
                return False
            for k, v in node.resources.items():
                verdict, d_ = compare.sem_equal(v.value, mn["resources"][k][1], rng)
                if verdict == "different":
                    ctx.disagreement("add_aggregated_resources vs addAggregatedResources (value)", {"aggregation": dct, "remove_decomposed": remove, "node": path, "resource": k},
                                     E.to_str(mn["resources"][k][1]), {"impl": str(v.value), "at": d_})
                    return False
            return all(cmp(c, mc, path + [c.name]) for c, mc in zip(node.children.values(), mn["children"]))

        cmp(out, m, [])
    MODEL_QUEUE.clear()


def check_one(ctx, cr, dct, remove, rng, what):
    from bartiq.transform import add_aggregated_resources

    ctx.stats["evaluations"] += 1
    cyc = is_cyclic(dct)
    import copy as _copy

    # expectations are computed from copies taken BEFORE the call (the call must not change its arguments, and if it did the
    # expectations must not follow)
    cr_arg, dct_arg = cr, dct
    cr, dct = _copy.deepcopy(cr), _copy.deepcopy(dct)
    if rng.random() < 0.3:
        # history: the same compiled routine has already been aggregated once (in keep mode, to compare the two modes): the
        # aggregation under test starts from the routine as it was
        try:
            add_aggregated_resources(cr_arg, dct_arg, remove_decomposed=False)
            ctx.stats["aggregated_once_before"] += 1
            what = what + " (second aggregation of the same routine object)"
        except Exception:
            pass
    try:
        out = add_aggregated_resources(cr_arg, dct_arg, remove_decomposed=remove)
    except RecursionError as e:
        ctx.violation("failing-input", f"{what}: aggregation recursed without bound", {"aggregation": dct, "remove_decomposed": remove}, "RecursionError", "ValueError")
        return False
    except Exception as e:
        if cyc and isinstance(e, ValueError):
            ctx.stats["cyclic_rejected"] += 1
            queue_model(cr, dct, remove, "error", None)
            return True
        ctx.violation("failing-input", f"{what}: aggregation raised {type(e).__name__} on an acyclic dictionary" if not cyc else f"{what}: cyclic dictionary rejected with {type(e).__name__}, not a ValueError",
                      {"aggregation": dct, "remove_decomposed": remove, "resources": {".".join(p) or "root": sorted(n.resources) for p, n in walk(cr)}}, str(e)[:200], None)
        return False
    if cyc:
        ctx.violation("failing-input", f"{what}: a cyclic aggregation dictionary was accepted and a result returned", {"aggregation": dct, "remove_decomposed": remove}, "result", "error")
        return False
    queue_model(cr, dct, remove, "ok", out)
    for (path, old), (_, new) in zip(walk(cr), walk(out)):
        where = ".".join(path) or "root"
        env = {"N": Fraction(rng.randint(2, 9)), "k": Fraction(rng.randint(2, 7))}
        salt = rng.randint(0, 10**6)
        oldv = {r: E.sympy_ev(x.value, dict(env), salt) for r, x in old.resources.items()}
        decomposed = [d for d in dct if d in old.resources]
        bases = {b for d in dct for b in _reach(dct, d) if b not in dct}
        expect = {}
        for b in set(oldv) | bases:
            if b in dct:
                continue
            v = oldv.get(b, Fraction(0))
            touched = b in oldv
            for d in decomposed:
                ps = pathsum(dct, d, b, env, salt)
                if b in _reach(dct, d):
                    touched = True
                v += oldv[d] * ps
            if touched:
                expect[b] = v
        for b, v in expect.items():
            if b not in new.resources:
                ctx.violation("failing-input", f"{what}: base resource {b} missing at {where} after aggregation", {"aggregation": dct, "remove_decomposed": remove, "node": where, "resources": sorted(old.resources)}, sorted(new.resources), b)
                return False
            got = E.sympy_ev(new.resources[b].value, dict(env), salt)
            if not compare.close(got, v, True):
                ctx.violation("failing-input", f"{what}: {where}.{b} is not old value + sum of decomposed * total path multiplier",
                              {"aggregation": dct, "remove_decomposed": remove, "node": where, "resources": sorted(old.resources), "point": env},
                              {"value": got, "expr": str(new.resources[b].value)}, v)
                return False
        for r, x in old.resources.items():
            if r in dct:
                if remove and r in new.resources:
                    ctx.violation("failing-input", f"{what}: decomposed resource {r} is still present at {where}", {"aggregation": dct, "remove_decomposed": remove}, sorted(new.resources), None)
                    return False
                if not remove:
                    if r not in new.resources or new.resources[r].type.value != "other":
                        ctx.violation("failing-input", f"{what}: decomposed resource {r} should be kept with type other at {where}", {"aggregation": dct, "remove_decomposed": remove},
                                      new.resources[r].type.value if r in new.resources else "absent", "other")
                        return False
                    if not compare.close(E.sympy_ev(new.resources[r].value, dict(env), salt), oldv[r], True):
                        ctx.violation("failing-input", f"{what}: kept decomposed resource {r} changed value at {where}", {"aggregation": dct, "remove_decomposed": remove}, None, None)
                        return False
            elif r not in expect or r not in bases:
                if r not in new.resources or new.resources[r].type != x.type or not compare.close(E.sympy_ev(new.resources[r].value, dict(env), salt), oldv[r], True):
                    ctx.violation("failing-input", f"{what}: resource {r}, not mentioned by the dictionary, was changed at {where}", {"aggregation": dct, "remove_decomposed": remove}, None, None)
                    return False
        extra = set(new.resources) - set(old.resources) - set(expect)
        if extra:
            ctx.violation("failing-input", f"{what}: unexpected new resources {sorted(extra)} at {where}", {"aggregation": dct, "remove_decomposed": remove}, sorted(new.resources), sorted(expect))
            return False
    return True


def _reach(dct, d, seen=None):
    seen = set() if seen is None else seen
    out = set()
    for t in dct.get(d, {}):
        out.add(t)
        if t in dct and t not in seen:
            seen.add(t)
            out |= _reach(dct, t, seen)
    return out


def all_dicts(names, weights, rng, max_edges_weights=2):
    """all directed graphs on `names` (every subset of ordered pairs), keys = nodes with out-edges; weights sampled"""
    pairs = [(a, b) for a in names for b in names if a != b]
    for mask in range(1, 2 ** len(pairs)):
        edges = [pairs[i] for i in range(len(pairs)) if mask >> i & 1]
        dct = {}
        for a, b in edges:
            dct.setdefault(a, {})[b] = rng.choice(weights)
        yield dct


def run(ctx, widen=False):
    rng = ctx.rng
    ctx.rule = ("all directed graphs (acyclic and cyclic) on 3|4 resource names with weights from {2,3,k,2k+1,1}, x subsets of names present in a 3-level compiled "
                "hierarchy, x both removal modes, x all entry orders for <=3 entries; plus random dictionaries on 5 names; non-trivial = dictionary has a nested "
                "(path length >=2) or diamond decomposition, or is cyclic")
    names = NAMES[:4] if ctx.thorough() else NAMES[:3]
    types = ["additive", "multiplicative", "other", "qubits"]
    count = 0
    for dct in all_dicts(names, WEIGHTS, rng):
        # presence patterns: a few random subsets per dictionary (all subsets in thorough for 3 names)
        # (dense, sparse and empty presence patterns: a dictionary is usually a whole gate library of which a routine uses a few entries)
        pp = rng.choice([0.7, 0.7, 0.2, 0.0])
        subsets = [[(r, rng.choice(types)) for r in names + ["untouched"] if rng.random() < pp] for _ in range(3)]
        cr = make_routine(subsets, rng)
        orders = [dct]
        if len(dct) <= 3:
            orders = [dict(p) for p in itertools.permutations(dct.items())]
            orders = [{k: dict(rng.sample(list(v.items()), len(v))) for k, v in o.items()} for o in orders]
        for o in orders:
            for remove in (True, False):
                if not check_one(ctx, cr, o, remove, rng, "exhaustive"):
                    return
        nested = any(t in dct for v in dct.values() for t in v)
        if nested or is_cyclic(dct):
            ctx.nontrivial(("graph", tuple(sorted((a, tuple(sorted(v))) for a, v in dct.items()))))
        count += 1
        if count % 50 == 0:
            ctx.sample({"aggregation": dct, "present": subsets})
    ctx.stats["graphs_enumerated"] = count
    ctx.exhaustive = True
    for i in range(ctx.n(300, 6000)):
        k = rng.randint(2, 5)
        ns = rng.sample(NAMES, k)
        dct = {}
        for a in ns:
            if rng.random() < 0.6:
                tg = [b for b in NAMES + ["base1", "base2"] if b != a and rng.random() < 0.4]
                if tg:
                    dct[a] = {b: rng.choice(WEIGHTS) for b in tg}
        # an entry may also decompose a resource into NOTHING (a "free" resource): `{"clifford": {}}`
        for a in ns:
            if a not in dct and rng.random() < 0.2:
                dct[a] = {}
        if not dct:
            continue
        pp = rng.choice([0.6, 0.6, 0.2, 0.0])
        subsets = [[(r, rng.choice(types)) for r in NAMES + ["base1", "untouched"] if rng.random() < pp] for _ in range(3)]
        uncompiled = rng.random() < 0.3
        cr = make_routine(subsets, rng, compiled=not uncompiled)
        ctx.stats["random_on_" + ("uncompiled" if uncompiled else "compiled") + "_routine"] += 1
        if not check_one(ctx, cr, dct, rng.random() < 0.5, rng, "random (uncompiled routine)" if uncompiled else "random"):
            return
        if any(t in dct for v in dct.values() for t in v):
            ctx.nontrivial(("rand", i))
    model_correspondence(ctx, rng)


def replay(payload):
    from bartiq.transform import add_aggregated_resources

    inp = payload["input"]
    print("recorded:", payload.get("what"))
    pres = inp.get("resources")
    rng = random.Random(0)
    names = pres if isinstance(pres, list) else NAMES
    cr = make_routine([[(r, "additive") for r in names]] * 3, rng)
    try:
        out = add_aggregated_resources(cr, inp["aggregation"], remove_decomposed=inp.get("remove_decomposed", True))
        for p, n in walk(out):
            print(".".join(p) or "root", {k: str(v.value) for k, v in n.resources.items()})
    except Exception as e:
        print("raised", type(e).__name__, e)
    return 0
