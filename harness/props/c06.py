"""C06 — size mismatches are always detected; consistent sizes are never rejected.

Ground truth `Mismatch(r, rho)` comes from the independent bottom-up reading: some input/through port of a subroutine
declares a constant, a symbol already fixed by another of its ports, or a compound expression, and the integer size
flowing in differs from the declared one at rho.  The real code must raise BartiqCompilationError at compile time or at
evaluate(rho) exactly when Mismatch holds at rho; compile time only if it holds at every rho."""
from __future__ import annotations

import random
from fractions import Fraction

from .. import expr as E, pipeline, refsem, routinegen as G
from ..real import BartiqCompilationError, evaluate, try_compile

LEVEL = "proof"


def gen(seed, extra):
    rng = random.Random(seed)
    o = dict(p_fault_size=0.25, p_rep=0.05, rich=0.1, size_thresholds=(0.1, 0.3, 0.45), p_create_links=0.8)
    o.update(extra or {})
    return G.gen_routine(rng, G.Opts(**o))


def truth(spec, top):
    """-> 'mismatch' | 'consistent' | None (point outside the domain)"""
    try:
        nv = refsem.denote(spec, top)
    except (refsem.Ill, E.Undefined, OverflowError, ZeroDivisionError):
        return None, None
    if refsem.collect(nv, "o1"):
        return None, None

    def ints(v):
        return all(x.denominator == 1 for x in v["ports"].values()) and all(ints(c) for c in v["children"].values())

    if not ints(nv):
        return None, None
    mm = refsem.collect(nv, "mismatch")
    return ("mismatch" if mm else "consistent"), mm


def is_size_error(e):
    return isinstance(e, BartiqCompilationError) and "constraint was violated" in str(e)


def oracle(case, res, extra):
    spec = case.spec
    rng = random.Random(case.seed * 23 + 9)
    tops = refsem.top_level_inputs(spec)
    pts = [{n: Fraction(rng.randint(1, 6)) for n in tops} for _ in range(10)]
    if case.status == "compilation":
        if not is_size_error(case.err):
            res.stats["other_compilation_error"] += 1
            return
        seen = 0
        for top in pts:
            t, mm = truth(spec, top)
            if t is None:
                continue
            seen += 1
            if t == "consistent":
                res.violation("failing-input", "compilation rejects a routine whose sizes agree for some assignment of the inputs",
                              {"qref": case.qref, "point": top}, str(case.err)[:300], "no error at this assignment")
                return
        if seen:
            res.stats["compile_time_rejections_confirmed"] += 1
            res.nontrivial.append((case.seed, "compile-time"))
        return
    if case.status != "ok":
        return
    cr = case.result.routine
    kinds = set()
    sides = set()
    for top in pts:
        t, mm = truth(spec, top)
        if t is None:
            res.stats["point_outside_domain"] += 1
            continue
        asg = {n: int(v) for n, v in top.items() if n in set(cr.input_params)}
        # the numbers are handed over in every type the API accepts for a whole number: int, float, and their texts
        vkind = rng.choice(["int", "int", "float", "str", "strfloat"])
        pres = {"int": int, "float": float, "str": str, "strfloat": lambda v: str(float(v))}[vkind]
        res.stats["value_kind_" + vkind] += 1
        # the same assignment reached through different HISTORIES of evaluate calls: at once; in two numeric steps; or with one
        # input first rewritten in terms of a fresh symbol (K := zz_h + d) and the numbers supplied afterwards
        mode = rng.choice(["once", "once", "two-steps", "symbolic-first"]) if len(asg) >= 1 else "once"
        try:
            if mode == "two-steps" and len(asg) >= 2:
                ks = sorted(asg)
                cut = rng.randint(1, len(ks) - 1)
                evaluate(evaluate(cr, {k_: pres(asg[k_]) for k_ in ks[:cut]}).routine, {k_: pres(asg[k_]) for k_ in ks[cut:]})
            elif mode == "symbolic-first":
                k0 = rng.choice(sorted(asg))
                d_ = rng.randint(0, 3)
                step1 = evaluate(cr, {k0: f"zz_h + {d_}"}).routine
                evaluate(step1, {**{k_: pres(v_) for k_, v_ in asg.items() if k_ != k0}, "zz_h": pres(asg[k0] - d_)})
            else:
                mode = "once"
                evaluate(cr, {k_: pres(v_) for k_, v_ in asg.items()})
            raised = None
        except Exception as e:
            raised = e
        res.stats["assignments_checked"] += 1
        res.stats["history_" + mode] += 1
        sides.add(t)
        if t == "mismatch":
            kinds |= {m[2] for m in mm}
            if raised is None:
                res.violation("failing-input", f"size mismatch {mm[0]} is neither rejected by compilation nor by evaluation at this assignment",
                              {"qref": case.qref, "assignments_in_order": [[k_, pres(v_)] for k_, v_ in asg.items()], "history": mode, "value_type": vkind}, "no error", "BartiqCompilationError")
                return
            if not isinstance(raised, BartiqCompilationError):
                res.violation("failing-input", f"size mismatch is reported as {type(raised).__name__}, not as a compilation error",
                              {"qref": case.qref, "assignments_in_order": list(asg.items())}, repr(raised)[:200], "BartiqCompilationError")
                return
        else:
            if raised is not None and is_size_error(raised):
                res.violation("failing-input", "evaluation rejects an assignment under which all declared sizes agree with the incoming sizes",
                              {"qref": case.qref, "assignments_in_order": list(asg.items())}, str(raised)[:300], "no error")
                return
    if sides == {"mismatch", "consistent"} or kinds & {"compound", "repeated-symbol"}:
        res.nontrivial.append((case.seed, tuple(sorted(kinds)), tuple(sorted(sides))))
    for k in kinds:
        res.stats["mismatch_kind_" + k] += 1
    for s in sides:
        res.stats["side_" + s] += 1
    if case.seed % 61 == 0:
        res.samples.append({"qref": case.qref, "kinds": sorted(kinds), "sides": sorted(sides)})


def corpus(ctx):
    """F3: compound size over a local variable"""
    q = {"name": "root", "input_params": ["N"], "ports": [{"name": "in_0", "direction": "input", "size": "N"}],
         "linked_params": [{"source": "N", "targets": ["a.K"]}], "connections": [{"source": "in_0", "target": "a.in_0"}],
         "children": [{"name": "a", "input_params": ["K"], "local_variables": {"L": "2*K"},
                       "ports": [{"name": "in_0", "direction": "input", "size": "L + 1"}],
                       "resources": [{"name": "T", "type": "additive", "value": "L"}]}]}
    st, r = try_compile(q)
    ctx.stats["corpus_cases"] += 1
    if st == "ok":
        for n in (1, 2, 5):
            try:
                evaluate(r.routine, {"N": n})
                ctx.violation("failing-input", "corpus: size L+1 over local L=2*K is never re-checked (N != 2N+1 accepted)",
                              {"qref": q, "assignments_in_order": [["N", n]]}, "no error", "BartiqCompilationError")
                break
            except BartiqCompilationError:
                pass


def run(ctx, widen=False):
    n = ctx.n(400, 10000) * (3 if widen else 1)
    ctx.rule = ("routine trees whose subroutine ports declare constants, repeated symbols or compound expressions, a quarter of the eligible ports "
                "deliberately contradicted (always-different or different-for-most assignments), x 10 integer assignments each; ground truth from the "
                "independent reading; non-trivial = both a violating and a satisfying assignment were exercised, or the mismatch is of compound / "
                "repeated-symbol kind, or a compile-time rejection was confirmed at several points; distinct seeds")
    base = ctx.seed * 1000003 + 6500000
    pipeline.run_stream(ctx, __name__, range(base, base + n))
    # second family: subroutines with 2-4 input ports each, most of them constrained (constants, repeated symbols, compound
    # sizes), so that SEVERAL constraints per routine — some settled at compile time, some depending on the inputs — are the norm
    pipeline.run_stream(ctx, __name__, range(base + 50000, base + 50000 + n // 2),
                        extra={"leaf_inputs": [2, 3, 3, 4], "size_thresholds": (0.05, 0.2, 0.4), "p_fault_size": 0.3, "max_children": 2, "max_depth": 2})
    # third family: wide wiring — up to four children with two or three input ports each, listed against the data flow as a rule,
    # so that a constrained port is often fed by a sibling that is listed (and, if the ordering were wrong, compiled) AFTER its consumer
    pipeline.run_stream(ctx, __name__, range(base + 80000, base + 80000 + n),
                        extra={"leaf_inputs": [2, 3, 3], "size_thresholds": (0.05, 0.25, 0.45), "p_fault_size": 0.35, "max_children": 4, "max_depth": 2,
                               "p_shuffle_children": 1.0, "p_passthrough": 0.0, "leaf_outputs": [1, 2, 2, 3], "p_inner_wire": 0.9})
    corpus(ctx)


def replay(payload):
    inp = payload["input"]
    st, r = try_compile(inp["qref"])
    print("compile:", st, (str(r)[:200] if st != "ok" else ""), "| recorded:", payload.get("what"))
    if st == "ok" and "assignments_in_order" in inp:
        try:
            evaluate(r.routine, dict(map(tuple, inp["assignments_in_order"])))
            print("evaluate: no error")
        except Exception as e:
            print("evaluate:", type(e).__name__, str(e)[:200])
    return 0
