"""C04 — compiled routines are closed over the top-level inputs."""
from __future__ import annotations

import random
from fractions import Fraction

from .. import expr as E, pipeline, refsem, routinegen as G
from ..real import evaluate, walk
from .c01 import gen  # noqa: F401

LEVEL = "proof"


def exprs_of(node):
    for rn, r in node.resources.items():
        yield f"resource {rn}", r.value
    for pn, p in node.ports.items():
        yield f"port {pn}", p.size
    for i, c in enumerate(node.constraints):
        yield f"constraint {i} lhs", c.lhs
        yield f"constraint {i} rhs", c.rhs
    if node.repetition is not None:
        yield "repetition count", node.repetition.count
        seq = node.repetition.sequence
        for fld in ("multiplier", "initial_term", "difference", "ratio"):
            if hasattr(seq, fld):
                yield f"sequence {fld}", getattr(seq, fld)
        # closed-form / custom sequences: the placeholder (num_terms_symbol / iterator) is a bound name of the field, every other
        # symbol must be a top-level input like anywhere else
        for fld, bound in (("sum", "num_terms_symbol"), ("prod", "num_terms_symbol"), ("term_expression", "iterator_symbol")):
            v = getattr(seq, fld, None)
            if v is not None and not isinstance(v, (int, float)):
                import sympy

                b = getattr(seq, bound, None)
                yield f"sequence {fld}", (v.subs(b, sympy.Integer(1)) if b is not None else v)


def model_hypothesis(case, res, root_inputs):
    """hypothesis of C04_hierarchy_closed_partial, evaluated by the model on this very routine: is the bottom-up reading of the
    preprocessed routine defined everywhere when exactly the compiled top-level inputs are given?  The real compiled hierarchy
    has just been found closed over them, so `undefined` would mean the theorem's hypothesis is stronger than what the code needs."""
    from .. import model

    if case.sexp is None:
        return
    r = model.run_driver(["wellscoped 0 " + case.sexp + " (" + " ".join(sorted(root_inputs)) + ")"])[0]
    res.stats["model_vs_impl_compared"] += 1
    if r[0] != "ok":
        res.disagreement("semantic well-scopedness (hypothesis of C04_hierarchy_closed_partial): model outcome", {"qref": case.qref}, str(r)[:200], "ok")
        return
    res.stats["wellscoped_" + str(r[1])] += 1
    res.stats["wellscoped_" + str(r[2])] += 1
    if r[1] != "defined":
        res.disagreement("semantic well-scopedness holds on a routine whose compiled hierarchy is closed", {"qref": case.qref, "G": sorted(root_inputs)}, r[1], "defined")


def oracle(case, res, extra):
    if case.status != "ok":
        return
    spec, cr = case.spec, case.result.routine
    try:
        tops = set(refsem.top_level_inputs(spec))
        rng = random.Random(case.seed)
        refsem.denote(spec, {n: Fraction(rng.randint(2, 9)) for n in tops})
    except refsem.Ill:
        res.stats["not_well_scoped"] += 1
        return
    except (E.Undefined, OverflowError):
        pass
    root_inputs = set(cr.input_params)
    local_like = False
    for path, node in walk(cr):
        where = ".".join(path) or "root"
        for what, e in exprs_of(node):
            syms = E.sympy_fv(e)
            res.stats["expressions_checked"] += 1
            bad = syms - root_inputs
            if bad:
                res.violation("failing-input", f"{what} of {where} mentions {sorted(bad)}, not input parameters of the compiled top-level routine",
                              {"qref": case.qref}, str(e), sorted(root_inputs))
                return
            if what.startswith(("resource", "port")):
                bad = syms - set(node.input_params)
                if bad:
                    res.violation("failing-input", f"{what} of {where} uses {sorted(bad)} which {where} does not list among its input parameters",
                                  {"qref": case.qref}, str(e), sorted(node.input_params))
                    return
            for s in syms:
                if "#" in s and not (s.startswith("#") and s in tops):
                    res.violation("failing-input", f"port variable {s} survives in {what} of {where}", {"qref": case.qref}, str(e), None)
                    return
    model_hypothesis(case, res, root_inputs)
    extra_inputs = root_inputs - tops
    if extra_inputs:
        res.violation("failing-input", f"top-level inputs {sorted(extra_inputs)} are neither root parameters, unlinked parameters by path, nor unsized root ports",
                      {"qref": case.qref}, sorted(root_inputs), sorted(tops))
        return
    # total numeric assignment -> every resource and size becomes a number
    asg = {n: rng.randint(2, 9) for n in root_inputs}
    try:
        ev = evaluate(cr, asg).routine
    except Exception as e:
        res.stats["evaluate_raised_" + type(e).__name__] += 1
        return
    feats = set()
    for path, node in walk(ev):
        for what, e in exprs_of(node):
            if what.startswith(("resource", "port")):
                if not isinstance(e, (int, float)):
                    import sympy

                    se = sympy.sympify(e)
                    if se.free_symbols:
                        res.violation("failing-input", f"{what} of {'.'.join(path) or 'root'} is not a number after assigning all top-level inputs",
                                      {"qref": case.qref, "assignment": asg}, str(e), "a number")
                        return
                    res.stats["closed_but_unfolded"] += 1
                else:
                    res.stats["numeric_after_total_assignment"] += 1

    def leakprone(n):
        loc = {v for v, _ in n["local_variables"]}
        psyms = {p["size"][1] for p in n["ports"] if p["size"] is not None and p["size"][0] == "sym"}
        for r in n["resources"]:
            s = E.fv(r["value"])
            if s & loc:
                feats.add("resource-over-local")
            if s & psyms:
                feats.add("resource-over-port-symbol")
            if any("." in x for x in s):
                feats.add("child.res")
        for p in n["ports"]:
            if p["size"] is not None and p["size"][0] not in ("sym", "num") and E.fv(p["size"]) & loc:
                feats.add("compound-size-over-local")
        for c in n["children"]:
            leakprone(c)

    leakprone(spec)
    if len(feats) >= 2:
        res.nontrivial.append((case.seed, tuple(sorted(feats))))
    for ft in feats:
        res.stats["feature_" + ft] += 1
    if case.seed % 89 == 0:
        res.samples.append({"qref": case.qref, "inputs": sorted(root_inputs)})


def run(ctx, widen=False):
    n = ctx.n(400, 10000) * (3 if widen else 1)
    ctx.rule = ("well-scoped routine trees from harness.routinegen; every resource, port size, repetition field and retained constraint of "
                "every compiled node is inspected; non-trivial = the source uses at least two of {resource over a local variable, resource over a "
                "port-size symbol, child.resource reference, compound size over a local}; distinct generator seeds")
    base = ctx.seed * 1000003 + 1500000
    pipeline.run_stream(ctx, __name__, range(base, base + n))
    # second family: repetition wrappers everywhere, mostly closed-form and custom sequences whose bound names (placeholder,
    # iterator) are spelled like names of outer scopes, parameters handed down through multi-level links — the places where an
    # inner name can survive in a retained repetition field
    pipeline.run_stream(ctx, __name__, range(base + 70000, base + 70000 + n // 2),
                        extra={"p_rep": 0.6, "rep_kinds": ["closed_form", "closed_form", "custom", "constant"], "p_placeholder_clash": 0.7,
                               "p_deep_link": 0.6, "symbolic_rep": 0.9})
    corpus(ctx)


def corpus(ctx):
    """minimised past failures: compound size over a local variable (F3), parameter named lambda_x (F8)"""
    from ..real import try_compile

    docs = [
        {"name": "root", "input_params": ["N"], "ports": [{"name": "in_0", "direction": "input", "size": "N"}],
         "linked_params": [{"source": "N", "targets": ["a.K"]}], "connections": [{"source": "in_0", "target": "a.in_0"}],
         "children": [{"name": "a", "input_params": ["K"], "local_variables": {"L": "2*K"},
                       "ports": [{"name": "in_0", "direction": "input", "size": "L - K"}],
                       "resources": [{"name": "T", "type": "additive", "value": "L"}]}]},
        {"name": "root", "input_params": ["lambda_x", "in_1"], "resources": [{"name": "T", "type": "additive", "value": "lambda_x + in_1"}]},
    ]
    for q in docs:
        st, r = try_compile(q)
        ctx.stats["corpus_cases"] += 1
        if st != "ok":
            continue
        root_inputs = set(r.routine.input_params)
        for path, node in walk(r.routine):
            for what, e in exprs_of(node):
                bad = E.sympy_fv(e) - root_inputs
                if bad:
                    ctx.violation("failing-input", f"corpus: {what} of {'.'.join(path) or 'root'} mentions {sorted(bad)}", {"qref": q}, str(e), sorted(root_inputs))
        if q["input_params"] == ["lambda_x", "in_1"] and root_inputs != {"lambda_x", "in_1"}:
            ctx.violation("failing-input", "corpus: reserved-word-like parameter names produce stray inputs", {"qref": q}, sorted(root_inputs), ["in_1", "lambda_x"])


def replay(payload):
    from ..real import try_compile

    st, res = try_compile(payload["input"]["qref"])
    print("compile:", st, "| recorded:", payload.get("what"))
    if st == "ok":
        print("root inputs:", list(res.routine.input_params))
        for path, node in walk(res.routine):
            for what, e in exprs_of(node):
                print(".".join(path) or "root", what, "=", e, "| node inputs", list(node.input_params))
    return 0
