"""C09 — results do not depend on listing order.

Every list-valued field of the source document (children, ports, resources, connections, linked_params and their targets,
input_params, local_variables) is permuted at every level; exhaustively all child orders at the root for <= 4 children.
Both documents are compiled with the real code; resources, port sizes and constraints of every routine must be equal.
Permutation is applied to the bartiq `Routine` object as well (children dict order / children_order), because qref's own
validators sort some of the lists of the document."""
from __future__ import annotations

import copy
import itertools
import random

from .. import compare, pipeline, routinegen as G
from ..real import try_compile
from .c01 import gen  # noqa: F401

LEVEL = "proof"


def permute(q, rng, child_perm=None):
    q = copy.deepcopy(q)

    def rec(n, top):
        for k in ("ports", "resources", "connections", "linked_params", "input_params"):
            if k in n:
                rng.shuffle(n[k])
        for lk in n.get("linked_params", []):
            rng.shuffle(lk["targets"])
        if "local_variables" in n:
            items = list(n["local_variables"].items())
            rng.shuffle(items)
            n["local_variables"] = dict(items)
        if "children" in n:
            if top and child_perm is not None:
                n["children"] = [n["children"][i] for i in child_perm]
            else:
                rng.shuffle(n["children"])
            for c in n["children"]:
                rec(c, False)

    rec(q, True)
    return q


def flow_violating(q):
    """does the listed child order of some node disagree with the data flow?"""
    def rec(n):
        names = [c["name"] for c in n.get("children", [])]
        pos = {x: i for i, x in enumerate(names)}
        for c in n.get("connections", []):
            s, t = c["source"], c["target"]
            if "." in s and "." in t and pos[s.split(".")[0]] > pos[t.split(".")[0]]:
                return True
        return any(rec(c) for c in n.get("children", []))
    return rec(q)


def oracle(case, res, extra):
    if case.status not in ("ok", "compilation", "preprocessing"):
        return
    rng = random.Random(case.seed * 29 + 13)
    q = case.qref
    # hypotheses of C09_children_order_irrelevant, checked on every routine the implementation compiles: every port is the target of
    # at most one connection, children have distinct names, and the references `child.resource` of the compiled children are unambiguous
    if case.status == "ok":
        from ..real import walk

        def targets_distinct(n):
            ts = [c["target"] for c in n.get("connections", [])]
            kids = [k["name"] for k in n.get("children", [])]
            return len(ts) == len(set(ts)) and len(kids) == len(set(kids)) and all(targets_distinct(k) for k in n.get("children", []))
        refs_ok = True
        for _, node in walk(case.result.routine):
            refs = [f"{cn}.{rn}" for cn, cc in node.children.items() for rn in cc.resources]
            refs_ok = refs_ok and len(refs) == len(set(refs))
        res.stats["model_vs_impl_compared"] += 1
        if targets_distinct(q) and refs_ok:
            res.stats["order_theorem_hypotheses_hold"] += 1
        else:
            res.disagreement("hypotheses of C09_children_order_irrelevant on a routine the implementation compiles", {"qref": q},
                             {"targets_distinct_and_names_distinct": targets_distinct(q), "references_unambiguous": refs_ok}, "all hold")
    nkids = len(q.get("children", []))
    perms = [None, None]
    if nkids >= 2 and (extra or {}).get("exhaustive_children") and nkids <= 4:
        perms = [list(p) for p in itertools.permutations(range(nkids))][1:]
    elif nkids >= 2:
        allp = [list(p) for p in itertools.permutations(range(nkids))][1:]
        perms = rng.sample(allp, min(3, len(allp)))
    for cp in perms:
        q2 = permute(q, rng, cp)
        st2, r2 = try_compile(q2)
        res.stats["permutations_compiled"] += 1
        if st2 != case.status:
            res.violation("failing-input", f"a reordered document compiles to {st2} while the original gives {case.status}",
                          {"qref": q, "permuted_qref": q2}, str(r2)[:200], case.status)
            return
        if st2 != "ok":
            continue
        if cp is perms[0]:
            # the model (about which the order-irrelevance lemmas are stated) on the PERMUTED document vs the implementation on it
            from .. import model
            from ..real import schema
            try:
                sx = G.routine_sexp(schema(q2).program, case.tree_of)
            except Exception:
                sx = None
            if sx is not None:
                mr = model.run_driver(["compile 0 " + sx])[0]
                res.stats["model_vs_impl_compared"] += 1
                res.stats["model_on_permuted_document"] += 1
                if mr[0] != "ok":
                    res.disagreement("compile_routine vs compileRoutine on a permuted document (outcome)", {"qref": q, "permuted_qref": q2}, str(mr)[:200], "ok")
                else:
                    dm = pipeline.compare_trees(r2.routine, model.decode_croutine(mr[1]), random.Random(case.seed * 7 + 2))
                    if dm:
                        res.disagreement("compile_routine vs compileRoutine on a permuted document (tree)", {"qref": q, "permuted_qref": q2},
                                         [d[3] for d in dm[:3]], [(list(d[0]), d[1], d[2]) for d in dm[:3]])
        diffs = compare.trees_equal_real(case.result.routine, r2.routine, rng, None, constraints=True)
        if diffs:
            res.violation("failing-input", f"reordering the lists of the document changes the compiled result: {diffs[0][:2]}",
                          {"qref": q, "permuted_qref": q2}, [str(x)[:200] for x in diffs[0]], "equal resources, port sizes and constraints")
            return
        if flow_violating(q2) or flow_violating(q):
            res.nontrivial.append((case.seed, "children-listed-against-data-flow"))
            res.stats["flow_violating_listing"] += 1
        lv = q.get("local_variables")
        if lv and len(lv) > 1:
            res.stats["local_variable_orders"] += 1
    # ---- the same at the level of bartiq's own `Routine` objects (qref's validators sort several lists of a document, so a
    # permuted document never shows bartiq a permuted port/resource/connection order; a Routine object does)
    if case.status == "ok":
        import dataclasses

        from bartiq import Routine, compile_routine

        from ..real import schema, sympy_backend as B_

        def shuffled(r):
            def sh(d):
                items = list(d.items())
                rng.shuffle(items)
                return dict(items)
            kids = {k: shuffled(v) for k, v in r.children.items()}
            lp = {k: tuple(rng.sample(list(v), len(v))) for k, v in sh(r.linked_params).items()}
            return dataclasses.replace(r, ports=sh(r.ports), resources=sh(r.resources), connections=sh(r.connections),
                                       local_variables=sh(r.local_variables), linked_params=lp, children=kids,
                                       input_params=tuple(rng.sample(list(r.input_params), len(list(r.input_params)))))
        try:
            ro = Routine.from_qref(schema(q), B_)
            r_obj = compile_routine(shuffled(ro)).routine
        except Exception as e:
            res.violation("failing-input", f"compiling the Routine object with its dictionaries listed in another order raises {type(e).__name__}",
                          {"qref": q, "route": "Routine object, shuffled ports/resources/connections/local_variables/linked_params"}, str(e)[:200], "same result")
            return
        res.stats["routine_object_permutations"] += 1
        diffs = compare.trees_equal_real(case.result.routine, r_obj, rng, None, constraints=True)
        if diffs:
            res.violation("failing-input", f"listing the fields of the Routine object in another order changes the compiled result: {diffs[0][:2]}",
                          {"qref": q, "route": "Routine object, shuffled ports/resources/connections/local_variables/linked_params"},
                          [str(x)[:200] for x in diffs[0]], "equal resources, port sizes and constraints")
            return
    if case.seed % 67 == 0:
        res.samples.append({"qref": q})


def run(ctx, widen=False):
    n = ctx.n(200, 4000) * (3 if widen else 1)
    ctx.exhaustive = False
    ctx.rule = ("routine trees from harness.routinegen x permutations of every list-valued field at every level (3 random child orders of the root in quick; "
                "ALL child orders of the root for <=4 children in thorough); non-trivial = some listed child order contradicts the data flow; distinct seeds")
    base = ctx.seed * 1000003 + 7500000
    pipeline.run_stream(ctx, __name__, range(base, base + n), extra={"exhaustive_children": ctx.thorough(), "max_children": 4}, use_model=True)
    # second family: parameter links — one source with several deep targets through the same child, target parameters that the routine
    # using them does not declare (they are named by the forwarding link): the order of a link's targets must not matter
    pipeline.run_stream(ctx, __name__, range(base + 40000, base + 40000 + n // 2),
                        extra={"max_children": 3, "max_depth": 3, "p_deep_link": 0.6, "p_multi_deep_link": 0.9, "p_undeclared_param": 0.6}, use_model=True)


def replay(payload):
    inp = payload["input"]
    for k in ("qref", "permuted_qref"):
        st, r = try_compile(inp[k])
        print(k, "->", st)
    print("recorded:", payload.get("what"))
    return 0
