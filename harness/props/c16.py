"""C16 — qubit highwater is the maximum over all cuts.

Reference (independent of the running-flow formula of the code): for each node, at a numeric point, enumerate the moments
'before the first child', 'during child j', 'after the last child'; the wires alive during child j are those whose source
is on the parent's input side or a child before j and whose target is a child after j or the parent's output side (plus the
parent's own through ports); value = local_ancillae + max over moments (alive + own highwater of the child)."""
from __future__ import annotations

import random
from fractions import Fraction

from .. import compare, expr as E, pipeline, routinegen as G
from ..real import try_compile, walk

LEVEL = "proof"


def hw_name(seed):
    """the derived resource is requested under its default name or under a caller-chosen one"""
    return "qubit_highwater" if seed % 3 else "peak_width"


def _hw_spec(name="qubit_highwater"):
    from bartiq.compilation.derived_resources import calculate_highwater

    return [{"name": name, "type": "qubits", "calculate": calculate_highwater}]


def _derived_ancillae(routine, backend):
    """a derived `local_ancillae`: one scratch qubit per child plus one (replaces a hand-written value, like any derived resource)"""
    return backend.as_expression(str(len(routine.children) + 1))


def compile_kw(seed):
    specs = _hw_spec(hw_name(seed))
    if seed % 4 == 1:
        # several derived resources in one list: the ancillae are derived first, the highwater after them must count the derived value
        specs = [{"name": "local_ancillae", "type": "qubits", "calculate": _derived_ancillae}] + specs
    return {"derived_resources": specs}


def gen(seed, extra):
    rng = random.Random(seed)
    o = dict(qubit_mode=True, p_shuffle_children=0.0, p_rep=0.08, rep_kinds=["constant"], p_through=0.3, p_passthrough=0.25, max_children=4,
             leaf_inputs=[0, 1, 1, 2, 2], size_thresholds=(0.45, 0.8, 0.8), rich=0.0, p_zero_size=0.05)
    o.update(extra or {})
    spec = G.gen_routine(rng, G.Opts(**o))

    # now and then a routine already CARRIES a resource named like the derived one (a stale value from an earlier export, a
    # hand-written estimate): the derived value replaces it
    def stale(n):
        if n["repetition"] is None and rng.random() < 0.12 and not any(r["name"] == hw_name(seed) for r in n["resources"]):
            n["resources"].append({"name": hw_name(seed), "type": "qubits", "value": E.num(rng.randint(0, 3))})
        for c in n["children"]:
            stale(c)
    stale(spec)
    if hw_name(seed) != "qubit_highwater" and rng.random() < 0.5:
        # the derived resource has a caller-chosen name while routines also carry a (hand-written, rough) `qubit_highwater`: the derived
        # one is computed from the children's resource of ITS OWN name
        def rough(n):
            if n["repetition"] is None and not any(r["name"] == "qubit_highwater" for r in n["resources"]):
                n["resources"].append({"name": "qubit_highwater", "type": "qubits", "value": E.num(rng.randint(0, 2))})
            for c in n["children"]:
                rough(c)
        rough(spec)
    return spec


def expected_hw(node, env, salt, feats):
    """node: real CompiledRoutine (for sizes and wiring only); returns Fraction"""
    def sz(owner, pname):
        return E.sympy_ev(owner.ports[pname].size, dict(env), salt)

    # chronological order = the routine's `children_order` (for a document: the listed order; the generator does not shuffle)
    order = list(getattr(node, "children_order", ()) or ())
    kids = [node.children[n] for n in order] if sorted(order) == sorted(node.children) else list(node.children.values())
    pos = {c.name: i for i, c in enumerate(kids)}
    child_hw = [expected_hw(c, env, salt, feats) for c in kids]
    ins = [p for p in node.ports.values() if p.direction == "input"]
    outs = [p for p in node.ports.values() if p.direction == "output"]
    thr = [p for p in node.ports.values() if p.direction == "through"]
    thr_total = sum((sz(node, p.name) for p in thr), Fraction(0))
    in_total = sum((sz(node, p.name) for p in ins), Fraction(0)) + thr_total
    out_total = sum((sz(node, p.name) for p in outs), Fraction(0)) + thr_total
    wires = []
    for s, t in node.connections.items():
        sp = -1 if s.routine_name is None else pos[s.routine_name]
        tp = len(kids) if t.routine_name is None else pos[t.routine_name]
        owner = node if s.routine_name is None else node.children[s.routine_name]
        wires.append((sp, tp, sz(owner, s.port_name)))
    moments = [in_total]
    for j, c in enumerate(kids):
        alive = sum((w for sp, tp, w in wires if sp < j < tp), Fraction(0)) + thr_total
        if any(sp < j < tp for sp, tp, w in wires):
            feats.add("bypass-wire")
        moments.append(alive + child_hw[j])
    moments.append(out_total)
    anc = Fraction(0)
    if "local_ancillae" in node.resources:
        anc = E.sympy_ev(node.resources["local_ancillae"].value, dict(env), salt)
        feats.add("local_ancillae")
    if thr:
        feats.add("through-port")
    return anc + max(moments)


def flow_request(node, env, salt, HW="qubit_highwater"):
    """the VALUES the running-flow loop of calculate_highwater works on, read off the real compiled node at a numeric point
    (total sizes of input+through / output+through ports of the node and of each child in sorted_children() order, each
    child's own compiled highwater) as a request line for the Lean model `highwaterImpl`"""
    def total(r, dirs):
        return sum((E.sympy_ev(p.size, dict(env), salt) for p in r.ports.values() if p.direction in dirs), Fraction(0))

    def fr(q):
        return f"{q.numerator}/{q.denominator}"

    anc = E.sympy_ev(node.resources["local_ancillae"].value, dict(env), salt) if "local_ancillae" in node.resources else Fraction(0)
    kids = " ".join(f"({fr(total(c, ('input', 'through')))} {fr(total(c, ('output', 'through')))} "
                    f"{fr(E.sympy_ev(c.resources[HW].value, dict(env), salt))})" for c in node.sorted_children())
    return f"highwater {fr(anc)} {fr(total(node, ('input', 'through')))} {fr(total(node, ('output', 'through')))} {kids}"


def model_correspondence(cr, env, salt, res, case):
    HW = hw_name(case.seed)
    from .. import model

    reqs, gots, where = [], [], []
    for path, node in walk(cr):
        try:
            reqs.append(flow_request(node, env, salt, HW))
            gots.append(E.sympy_ev(node.resources[HW].value, dict(env), salt))
            where.append(path)
        except (E.Undefined, OverflowError, KeyError):
            if len(reqs) > len(gots):
                reqs.pop()
    if not reqs:
        return
    for path, rq, got, r in zip(where, reqs, gots, model.run_driver(reqs)):
        res.stats["model_vs_impl_compared"] += 1
        if r[0] != "ok":
            res.disagreement("calculate_highwater vs Bartiq.highwaterImpl (request)", {"qref": case.qref, "point": env, "request": rq}, str(r), str(got))
            continue
        mv = Fraction(int(r[1]), int(r[2]))
        if not compare.close(got, mv, True):
            res.disagreement("calculate_highwater vs Bartiq.highwaterImpl", {"qref": case.qref, "point": env, "node": ".".join(path) or "root", "request": rq}, str(mv), str(got))


def oracle(case, res, extra):
    HW = hw_name(case.seed)
    if case.status != "ok":
        # the highwater of a routine that compiles is DEFINED (a maximum over finitely many cuts): if the compilation fails only because
        # the derived resource was asked for — under whatever name — the property fails there
        if str(case.status).startswith("internal:") or case.status == "compilation":
            st0, _ = try_compile(case.qref)
            res.stats["failed_compilations_rechecked_without_derived_resources"] += 1
            if st0 == "ok":
                res.violation("failing-input", f"the routine compiles, but not when the highwater is derived as `{HW}`: {case.status}",
                              {"qref": case.qref, "derived_resource_name": HW}, str(case.err)[:300], "a highwater for every node")
        return
    cr = case.result.routine
    rng = random.Random(case.seed * 47 + 7)
    feats = set()
    depth = max(len(p) for p, _ in walk(cr))
    for k in range(3):
        env = {n: Fraction(rng.randint(0, 6) if rng.random() < 0.2 else rng.randint(1, 9)) for n in cr.input_params}
        if k >= 1 and len(env) >= 2 and rng.random() < 0.6:
            # parameters are not sizes: an offset may well be negative while every register stays non-negative (points at which some
            # size would be negative are outside the domain and skipped below)
            neg = rng.choice(sorted(env))
            env[neg] = Fraction(-rng.randint(1, 3))
            res.stats["points_with_a_negative_parameter_tried"] += 1
        salt = rng.randint(0, 10**6)
        try:
            for path, node in walk(cr):
                if HW not in node.resources:
                    res.violation("failing-input", f"no {HW} at {'.'.join(path) or 'root'}", {"qref": case.qref, "derived_resource_name": HW}, sorted(node.resources), HW)
                    return
                # domain of the property: non-negative port sizes
                if any(E.sympy_ev(p.size, dict(env), salt) < 0 for p in node.ports.values()):
                    raise E.Undefined("negative size")
                # … and non-negative ancilla counts (a parameter point that makes a routine use a negative number of scratch qubits is
                # as meaningless as a negative register; sweep seed 4: `local_ancillae = L` at c.L = -2)
                if "local_ancillae" in node.resources and E.sympy_ev(node.resources["local_ancillae"].value, dict(env), salt) < 0:
                    raise E.Undefined("negative ancillae")
            if any(v < 0 for v in env.values()):
                res.stats["points_with_a_negative_parameter_in_domain"] += 1
            if k == 0:
                model_correspondence(cr, env, salt, res, case)
            for path, node in walk(cr):
                exp = expected_hw(node, env, salt, feats)
                got = E.sympy_ev(node.resources[HW].value, dict(env), salt)
                res.stats["highwater_values_checked"] += 1
                if not compare.close(got, exp, True):
                    res.violation("failing-input", f"qubit highwater of {'.'.join(path) or 'root'} is not local ancillae + the maximum over all cuts",
                                  {"qref": case.qref, "point": env, "derived_resource_name": HW}, {"compiled": str(node.resources[HW].value), "value": got}, exp)
                    return
        except (E.Undefined, OverflowError, KeyError):
            res.stats["point_skipped"] += 1
            continue
    # ---- a Routine OBJECT whose `children_order` is another execution order than the one its children were inserted in (parallel
    # branches admit several): the highwater follows the order the routine states
    if case.seed % 2 == 0 and len(cr.children) >= 2:
        import dataclasses
        import itertools

        import bartiq
        from ..real import compile_routine, schema, sympy_backend

        try:
            robj = bartiq.Routine.from_qref(schema(case.qref), sympy_backend)
            names = list(robj.children)
            preds = {n: set() for n in names}
            for s_, t_ in robj.connections.items():
                if s_.routine_name is not None and t_.routine_name is not None:
                    preds[t_.routine_name].add(s_.routine_name)
            alts = [p for p in itertools.islice(itertools.permutations(names), 200)
                    if list(p) != names and all(preds[n] <= set(p[:i]) for i, n in enumerate(p))]
        except Exception:
            alts = []
        if alts:
            perm = rng.choice(alts)
            try:
                r2 = compile_routine(dataclasses.replace(robj, children_order=tuple(perm)), **compile_kw(case.seed)).routine
            except Exception as e:
                res.stats["reordered_object_raised_" + type(e).__name__] += 1
                r2 = None
            if r2 is not None:
                res.stats["reordered_routine_objects"] += 1
                env = {n: Fraction(rng.randint(1, 9)) for n in r2.input_params}
                salt = rng.randint(0, 10**6)
                try:
                    exp = expected_hw(r2, env, salt, set())
                    got = E.sympy_ev(r2.resources[HW].value, dict(env), salt)
                    if not compare.close(got, exp, True):
                        res.violation("failing-input", "qubit highwater of a Routine object does not follow the execution order its children_order states",
                                      {"qref": case.qref, "children_order": list(perm), "point": env, "derived_resource_name": HW,
                                       "history": "Routine.from_qref, dataclasses.replace(children_order=...), compile_routine"},
                                      {"compiled": str(r2.resources[HW].value), "value": got, "compiled_children_order": list(r2.children_order)}, exp)
                        return
                except (E.Undefined, OverflowError, KeyError):
                    res.stats["point_skipped"] += 1
    if depth >= 2:
        feats.add("depth>=2")
    if feats & {"bypass-wire", "through-port"} or ("depth>=2" in feats and "local_ancillae" in feats):
        res.nontrivial.append((case.seed, tuple(sorted(feats))))
    for f in feats:
        res.stats["feature_" + f] += 1
    if case.seed % 43 == 0:
        res.samples.append({"qref": case.qref, "features": sorted(feats)})


def run(ctx, widen=False):
    n = ctx.n(400, 10000) * (3 if widen else 1)
    ctx.rule = ("fully wired hierarchies with positive port sizes, children listed in execution order, up to 4 children, through ports, pass-throughs, local_ancillae, "
                "constant repetitions; highwater of EVERY node compared with the cut enumeration at 3 non-negative integer points; non-trivial = a wire bypasses a child, "
                "or a through port, or depth>=2 with local ancillae; distinct seeds")
    base = ctx.seed * 1000003 + 12500000
    pipeline.run_stream(ctx, __name__, range(base, base + n), use_model=False)


def replay(payload):
    from ..real import try_compile

    HW = payload["input"].get("derived_resource_name", "qubit_highwater")
    st, r = try_compile(payload["input"]["qref"], derived_resources=_hw_spec(HW))
    print("compile:", st, "| recorded:", payload.get("what"))
    if st == "ok":
        for p, n in walk(r.routine):
            print(".".join(p) or "root", HW, "=", n.resources.get(HW).value)
    return 0
