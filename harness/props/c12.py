"""C12 — expressions survive being written out and read back.

Search: real `serialize` -> real `as_expression` on (a) every expression of compiled / evaluated routines of the hierarchy
stream (so 'anything compilation or evaluation can produce'), (b) generated sympy objects: negative / fractional / nested
powers, negative bases, exp(1), pi, Sum/Product, Max/Min/floor/ceiling/Mod/Abs/log2/gamma, every name shape, floats.
Compared: value at rational points, free symbols, uninterpreted heads; floats to 15 significant digits.
Correspondence: the printed text is parsed by the Lean parser too (same reading as the real parser)."""
from __future__ import annotations

import random
import warnings
from fractions import Fraction

from .. import compare, expr as E, model, pipeline, routinegen as G
from ..real import evaluate, sympy_backend as B, walk

LEVEL = "proof"
# every kind of identifier the language has, incl. reserved words in EVERY position of a dotted / port name
NAMES = ["x", "y", "N", "a.b", "a.b.c", "#p", "a.#q", "lambda", "in", "lambda_x", "in_0", "x_in", "_u", "b.lambda", "inf", "nan", "NaN", "infinity", "a.inf",
         "#in", "#lambda", "a.#in", "a.b.#lambda", "in.#out", "lambda.#out", "top.in.#out", "a.in.b", "in.x", "a.lambda.#p", "#p.lambda"]


def gen(seed, extra):
    rng = random.Random(seed)
    return G.gen_routine(rng, G.Opts(rich=0.6, **(extra or {})))


def roundtrip(e, rng):
    """-> (verdict, detail, text)"""
    import sympy

    if not isinstance(e, (int, float)) and sympy.sympify(e).has(sympy.I):
        # a complex constant (a negative number raised to a fractional power during evaluation): quantities of the domain are real,
        # the expression language has no imaginary unit — outside the property's quantifier
        return "undecided", "complex constant (outside the domain)", None
    try:
        s = B.serialize(e)
    except Exception as ex:
        return "error", f"serialize raised {type(ex).__name__}: {ex}", None
    with warnings.catch_warnings():
        warnings.simplefilter("ignore")
        try:
            e2 = B.as_expression(s)
        except Exception as ex:
            return "error", f"printed text does not parse: {type(ex).__name__}: {ex}", s
    f1, f2 = E.sympy_fv(e), E.sympy_fv(e2)
    if f1 != f2:
        return "different", f"free symbols {sorted(f1)} became {sorted(f2)}", s
    h1, h2 = E.sympy_heads(e), E.sympy_heads(e2)
    if h1 != h2:
        return "different", f"uninterpreted calls {sorted(h1)} became {sorted(h2)}", s
    if isinstance(e, (int, float)) or isinstance(e2, (int, float)):
        a, b = Fraction(e) if isinstance(e, (int, float)) else E.sympy_ev(e, {}), Fraction(e2) if isinstance(e2, (int, float)) else E.sympy_ev(e2, {})
        return ("equal", 1, s) if compare.close(a, b, True) else ("different", {"left": str(a), "right": str(b)}, s)
    if sympy.sympify(e) == sympy.sympify(e2):
        return "equal", "structural", s
    # floats are kept to 15 digits; sums of large terms of opposite sign amplify that: compare to 1e-9 of the result
    v, d = compare.sem_equal_real(e, e2, rng, k=4, tol=Fraction(1, 10**9))
    if v == "different" and compare.has_float(e) and sympy.sympify(e).has(sympy.Mod, sympy.floor, sympy.ceiling, sympy.frac):
        # a float kept to 15 digits can legitimately move a value across a jump of floor/Mod: not decidable numerically
        return "undecided", "float under a discontinuous function", s
    if v == "undecided" and not sympy.sympify(e).has(sympy.Sum, sympy.Product):
        # numeric fallback for fractional powers etc.: positive real points, floating point
        try:
            syms = sorted(sympy.sympify(e).free_symbols | sympy.sympify(e2).free_symbols, key=str)
            ok = 0
            for _ in range(3):
                sub = {x: sympy.Rational(rng.randint(2, 9), rng.choice([1, 2, 3])) for x in syms}
                a, b = complex(sympy.N(sympy.sympify(e).subs(sub))), complex(sympy.N(sympy.sympify(e2).subs(sub)))
                if abs(a - b) > 1e-9 * max(1.0, abs(a)):
                    return "different", {"point": {str(k): str(x) for k, x in sub.items()}, "left": str(a), "right": str(b)}, s
                ok += 1
            return "equal", "float", s
        except Exception:
            return "undecided", d, s
    return v, d, s


def oracle(case, res, extra):
    if case.status != "ok":
        return
    rng = random.Random(case.seed * 37 + 1)
    cr = case.result.routine
    trees = [cr]
    names = sorted(cr.input_params)
    if names:
        try:
            part = {n: rng.choice([rng.randint(1, 9), round(rng.uniform(0.1, 5), 3), "zz + 1"]) for n in rng.sample(names, max(1, len(names) // 2))}
            trees.append(evaluate(cr, part).routine)
            trees.append(evaluate(cr, {n: rng.randint(1, 9) for n in names}).routine)
        except Exception:
            pass
    for t in trees:
        for path, node in walk(t):
            es = [r.value for r in node.resources.values()] + [p.size for p in node.ports.values()] + [x for c in node.constraints for x in (c.lhs, c.rhs)]
            for e in es:
                if not isinstance(e, (int, float)) and e.has(__import__("sympy").nan, __import__("sympy").zoo, __import__("sympy").oo):
                    res.stats["not_real_valued_skipped"] += 1     # the property speaks of real-valued expressions
                    continue
                v, d, s = roundtrip(e, rng)
                res.stats["expressions_roundtripped"] += 1
                res.stats["verdict_" + v] += 1
                if v in ("different", "error"):
                    res.violation("failing-input", f"expression produced by compilation/evaluation does not survive serialize->parse: {d}",
                                  {"expression_srepr": __import__("sympy").srepr(e) if not isinstance(e, (int, float)) else repr(e), "printed": s, "qref": case.qref},
                                  s, str(e))
                    return
                if not isinstance(e, (int, float)) and (e.has(__import__("sympy").Pow) or e.has(__import__("sympy").Sum)):
                    res.nontrivial.append(s)
    if case.seed % 59 == 0:
        res.samples.append({"qref": case.qref})


def gen_sympy(rng, depth):
    import sympy

    if depth <= 0 or rng.random() < 0.2:
        r = rng.random()
        if r < 0.55:
            return sympy.Symbol(rng.choice(NAMES))
        if r < 0.8:
            return sympy.Integer(rng.randint(-5, 9))
        if r < 0.92:
            return sympy.Rational(rng.randint(-7, 9), rng.choice([2, 3, 5, 7]))
        if r < 0.96:
            return rng.choice([sympy.pi, sympy.E])
        # floats with at most 15 significant digits (what the printer keeps); longer ones are checked alone in literal_precision()
        return sympy.Float(rng.choice([0.1, 1.5, 2.25, 1e-7, 123456.789, 3.14159265358979, 0.333333333333333, 2e20, 0.3]))
    r = rng.random()
    a = gen_sympy(rng, depth - 1)
    if r < 0.2:
        return a + gen_sympy(rng, depth - 1)
    if r < 0.4:
        return a * gen_sympy(rng, depth - 1)
    if r < 0.65:
        ex = rng.choice([sympy.Integer(2), sympy.Integer(-1), sympy.Integer(-2), sympy.Rational(1, 2), sympy.Rational(-3, 2), sympy.Symbol("k"), -sympy.Symbol("k"),
                         gen_sympy(rng, depth - 2), sympy.Symbol("k") + 1])
        return sympy.Pow(a, ex)
    if r < 0.72:
        return -a
    if r < 0.8:
        return rng.choice([sympy.Max, sympy.Min])(a, gen_sympy(rng, depth - 1))
    if r < 0.88:
        from sympy.codegen.cfunctions import log2

        return rng.choice([sympy.floor, sympy.ceiling, sympy.Abs, log2, sympy.gamma, sympy.log, sympy.sqrt, sympy.exp])(a)
    if r < 0.92:
        return sympy.Mod(a, gen_sympy(rng, depth - 1))
    if r < 0.96:
        return sympy.Function(rng.choice(["f", "g", "cost"]))(a, *([gen_sympy(rng, depth - 2)] if rng.random() < 0.4 else []))
    it = sympy.Symbol("it")
    body = a * it + gen_sympy(rng, depth - 2)
    # limits: the customary 0..N-1, other lower limits, and one- and two-element ranges (lower limit = upper limit: a reader that
    # "unwraps" such a range must still substitute the iterator)
    lo = rng.choice([sympy.Integer(0)] * 3 + [sympy.Integer(1), sympy.Integer(2), sympy.Symbol("k")])
    hi = rng.choice([sympy.Symbol("N") - 1, sympy.Integer(4), sympy.Symbol("k"), lo, lo, lo + 1])
    return rng.choice([sympy.Sum, sympy.Product])(body, (it, lo, hi))


def literal_precision(ctx):
    """numeric literals are kept to 15 significant digits: a float alone survives the round trip with relative error <= 5e-15"""
    import math
    import sympy

    for x in [1 / 3, 0.1 + 0.2, math.pi, math.e * 1e-9, 2 / 3 * 1e17, 1e-300 / 7, 123456789.123456789, 5e-324 * 1e10]:
        e = sympy.Float(x)
        s = B.serialize(e)
        with warnings.catch_warnings():
            warnings.simplefilter("ignore")
            back = B.as_expression(s)
        ctx.stats["evaluations"] += 1
        got = float(back)
        if x != 0 and abs(got - x) > 5e-15 * abs(x):
            ctx.violation("failing-input", f"float literal {x!r} is not kept to 15 significant digits", {"expression_srepr": sympy.srepr(e), "printed": s}, got, x)
            return
        ctx.nontrivial("literal:" + s)
    # exact constants of every sign and magnitude, written as expressions: what `as_native` / `value_of` (the numbers that end up
    # in exported documents and evaluated routines) make of them must keep 15 significant digits
    from fractions import Fraction as Fr

    for sign in (1, -1):
        for p10 in (0, 3, 9, 12, 16, 40, -3, -12):
            for num, den in ((1, 3), (7, 3), (2, 7), (22, 7)):
                exact = Fr(sign * num, den) / Fr(10) ** p10 if p10 >= 0 else Fr(sign * num, den) * Fr(10) ** (-p10)
                txt = f"{'-' if sign < 0 else ''}{num}/({den}*10^{p10})" if p10 >= 0 else f"{'-' if sign < 0 else ''}{num}*10^{-p10}/{den}"
                with warnings.catch_warnings():
                    warnings.simplefilter("ignore")
                    e = B.as_expression(txt)
                for how, val in (("value_of", B.value_of(e)), ("as_native", B.as_native(e))):
                    ctx.stats["evaluations"] += 1
                    if not isinstance(val, (int, float)):
                        continue
                    err = abs(Fr(val) - exact)
                    if err > abs(exact) * Fr(1, 10**14):
                        ctx.violation("failing-input", f"{how} of the exact constant {txt} does not keep 15 significant digits", {"expression": txt, "through": how},
                                      repr(val), float(exact))
                        return
                ctx.nontrivial("constant:" + txt)


def generated(ctx):
    import sympy

    rng = ctx.rng
    n = ctx.n(2500, 50000)
    texts = []
    import signal

    class _Slow(BaseException):   # must not be swallowed by the `except Exception` fallbacks inside roundtrip
        pass

    def _alarm(signum, frame):
        raise _Slow()

    signal.signal(signal.SIGVTALRM, _alarm)
    for i in range(n):
        signal.setitimer(signal.ITIMER_VIRTUAL, 2)
        try:
            e = gen_sympy(rng, rng.randint(1, 4))
            if len(str(e)) > 300 or any(a.is_Integer and abs(a) > 10**30 for a in sympy.preorder_traversal(e)):
                continue
            if e.has(sympy.nan, sympy.zoo, sympy.oo, sympy.I, sympy.re, sympy.im, sympy.arg):
                continue    # complex decompositions introduced by sympy (Abs of a symbolic power) are not real-valued expressions of bartiq
            if any(a.is_Float and a != 0 and not (1e-200 < abs(a) < 1e200) for a in sympy.preorder_traversal(e)):
                continue    # floats beyond the double range cannot be compared
            if any(isinstance(a, (sympy.Mod, sympy.floor, sympy.ceiling, sympy.frac)) and a.has(sympy.Float) for a in sympy.preorder_traversal(e)):
                continue    # a float (printed with 15 digits) under a discontinuous function: the printed and the binary value can
                #             sit on different sides of a jump (3.0000000000000031 is printed 3.0); literal precision is checked alone
            ctx.stats["evaluations"] += 1
            v, d, s = roundtrip(e, rng)
        except _Slow:
            ctx.stats["generated_skipped_slow"] += 1   # e.g. products with symbolic limits that sympy tries to evaluate numerically
            continue
        except Exception:
            continue
        finally:
            signal.setitimer(signal.ITIMER_VIRTUAL, 0)
        ctx.stats["generated_verdict_" + v] += 1
        if v in ("different", "error"):
            ctx.violation("failing-input", f"generated expression does not survive serialize->parse: {d}", {"expression_srepr": sympy.srepr(e), "printed": s}, s, str(e))
            return
        if e.has(sympy.Pow) or e.has(sympy.Sum) or e.has(sympy.Product) or any(("#" in str(x) or "lambda" in str(x) or str(x).startswith("in")) for x in e.free_symbols):
            ctx.nontrivial(s)
        if i % 500 == 0:
            ctx.sample({"expression": str(e), "printed": s})
        if s and len(texts) < ctx.n(600, 5000) and "zoo" not in s and "nan" not in s:
            texts.append((s, e))
    # correspondence: the Lean parser reads the printed text the same way the real parser does
    try:
        resp = model.run_driver(["parse " + s for s, _ in texts])
    except RuntimeError as ex:
        ctx.notes.append("model parser unavailable: " + str(ex)[:80])
        return
    for (s, e), r in zip(texts, resp):
        ctx.stats["model_vs_impl_compared"] += 1
        if r[0] != "ok":
            ctx.disagreement("Lean parse of the printed text (acceptance)", {"printed": s}, str(r)[:80], "accepted by as_expression")
            continue
        mt = E.from_sx(r[1])
        with warnings.catch_warnings():
            warnings.simplefilter("ignore")
            e2 = B.as_expression(s)
        if isinstance(e2, (int, float)):
            continue
        v, d = compare.sem_equal(e2, mt, rng)
        if v == "different" and compare.has_float(e2) and e2.has(sympy.Mod, sympy.floor, sympy.ceiling, sympy.frac):
            continue    # a binary float and its exact decimal reading can sit on different sides of a jump
        if v == "different":
            ctx.disagreement("Lean parse of the printed text (value)", {"printed": s}, E.to_str_full(mt)[:300], {"impl": str(e2), "at": d})


def bare_names(ctx):
    """an expression that consists of ONE name and nothing else (what an evaluated resource may collapse to) is read back as that name"""
    import sympy

    for nm in NAMES:
        ctx.stats["evaluations"] += 1
        e = sympy.Symbol(nm)
        try:
            t = B.serialize(e)
            back = B.as_expression(t)
        except Exception as ex:
            ctx.violation("failing-input", f"the bare name {nm!r} does not survive serialize->parse ({type(ex).__name__})", {"expression": nm}, str(ex)[:200], nm)
            return
        if back != e:
            ctx.violation("failing-input", f"the bare name {nm!r} is read back as something else", {"expression": nm, "printed": t}, repr(back), f"Symbol({nm})")
            return
        ctx.stats["bare_names_checked"] += 1


def corpus(ctx):
    """F17: nested sums / products over several indices (sympy flattens them into one object with several limits)"""
    for s_ in ("sum_over(sum_over(x*i, i, 1, 3), j, 0, 4)", "sum_over(sum_over(x*i*j, i, 1, N), j, 0, M)", "prod_over(prod_over(x + i, i, 2, 2), i, 0, 4)",
               "sum_over(prod_over(x + i*j, i, 1, j), j, 1, N)"):
        ctx.stats["corpus_cases"] += 1
        ctx.stats["evaluations"] += 1
        try:
            e = B.as_expression(s_)
            t = B.serialize(e)
            back = B.as_expression(t)
        except Exception as ex:
            ctx.violation("failing-input", f"corpus: a nested sum_over/prod_over does not survive serialize->parse ({type(ex).__name__})", {"expression": s_}, str(ex)[:200], "the same expression")
            return
        if back != e:
            ctx.violation("failing-input", "corpus: a nested sum_over/prod_over is read back as another expression", {"expression": s_}, str(back), str(e))
            return


def run(ctx, widen=False):
    ctx.notes.append("sympy's own layout of Add/Mul (term order, sign extraction) is external and not modelled; its effect is covered by the value comparison")
    ctx.rule = ("(a) every resource / port size / constraint side of compiled, partially and totally evaluated routines of the hierarchy stream; (b) generated sympy "
                "objects to depth 4 over 14 name shapes, integers, rationals, floats, pi, E, powers (negative, fractional, symbolic, nested), Max/Min/floor/ceiling/Abs/"
                "Mod/log2/gamma/log/sqrt/exp, uninterpreted calls, Sum/Product; non-trivial = distinct printed text containing a power, a Sum/Product or a reserved / "
                "port name")
    corpus(ctx)
    bare_names(ctx)
    literal_precision(ctx)
    generated(ctx)
    if ctx.violations:
        return
    n = ctx.n(150, 4000) * (3 if widen else 1)
    base = ctx.seed * 1000003 + 9500000
    pipeline.run_stream(ctx, __name__, range(base, base + n), use_model=False)


def replay(payload):
    import sympy

    inp = payload["input"]
    print("recorded:", payload.get("what"))
    try:
        e = sympy.sympify(inp["expression_srepr"]) if "expression_srepr" in inp else None
        s = B.serialize(e)
        print("printed:", s)
        print("re-read:", B.as_expression(s))
    except Exception as ex:
        print("raised", type(ex).__name__, ex)
    return 0
