"""C01 — compilation preserves the meaning of every resource.

Oracle: for each generated hierarchy, every resource of every node of the real compiled result is evaluated exactly
at random rational points of the compiled top-level inputs and compared with the independent bottom-up reading
(harness.refsem.denote) of the *source* routine.  Correspondence: whole compiled tree vs the Lean model's.
"""
from __future__ import annotations

import random
from fractions import Fraction

from .. import expr as E, pipeline, refsem, routinegen as G
from ..real import walk

LEVEL = "proof"


def gen(seed, extra):
    rng = random.Random(seed)
    return G.gen_routine(rng, G.Opts(**(extra or {})))


def features(spec):
    """what makes a case non-trivial for C01"""
    f = set()
    names_by_scope = []

    def rec(n, depth):
        names_by_scope.append(set(n["input_params"]) | {v for v, _ in n["local_variables"]})
        if depth >= 2:
            f.add("depth>=2")
        if n["local_variables"]:
            f.add("locals")
        if n["repetition"]:
            f.add("repetition")
        for _, ts in n["linked_params"]:
            for (p, _) in ts:
                if "." in p:
                    f.add("deep-link")
        for p in n["ports"]:
            if p["size"] is not None and p["size"][0] == "sym":
                f.add("port-symbol")
        for c in n["children"]:
            rec(c, depth + 1)

    rec(spec, 0)
    allnames = [x for s in names_by_scope for x in s]
    if len(allnames) != len(set(allnames)):
        f.add("shared-names")
    return f


def oracle(case, res, extra):
    if case.status != "ok":
        return
    spec = case.spec
    cr = case.result.routine
    tops = refsem.top_level_inputs(spec)
    rng = random.Random(case.seed * 31 + 5)
    if set(tops) != set(cr.input_params):
        # a parameter nobody links must become a top-level input named by its path (sympy may drop unused ones, never invent)
        extra_names = set(cr.input_params) - set(tops)
        if extra_names:
            res.violation("failing-input", f"compiled inputs {sorted(extra_names)} are not parameters named by their path",
                          {"qref": case.qref}, sorted(cr.input_params), sorted(tops))
            return
    feats = features(spec)
    checked = 0
    for k in range(3):
        top = {n: Fraction(rng.randint(2, 9)) for n in tops}
        salt = rng.randint(0, 10**6)
        try:
            nv = refsem.denote(spec, top, salt)
        except refsem.Ill as e:
            res.stats["reference_ill_formed"] += 1
            return
        except (E.Undefined, OverflowError):
            res.stats["reference_undefined_point"] += 1
            continue
        if refsem.collect(nv, "mismatch") or refsem.collect(nv, "o1"):
            res.stats["skipped_inconsistent_sizes"] += 1
            return
        for path, node in walk(cr):
            v = nv
            for p in path:
                v = v["children"][p]
            for rn, r in node.resources.items():
                exp = v["resources"].get(rn)
                if exp is None:
                    res.stats["resource_outside_reading"] += 1
                    continue
                try:
                    got = E.sympy_ev(r.value, dict(top), salt)
                except (E.Undefined, OverflowError):
                    res.stats["impl_undefined_point"] += 1
                    continue
                except KeyError as e:
                    res.violation("failing-input", f"resource {'.'.join(path) or 'root'}.{rn} mentions {e}, not a top-level input",
                                  {"qref": case.qref}, str(r.value), None)
                    return
                from ..compare import close, has_float

                checked += 1
                if not close(got, exp, has_float(r.value)):
                    res.violation("failing-input", f"resource {'.'.join(path) or 'root'}.{rn} differs from the bottom-up reading",
                                  {"qref": case.qref, "point": top}, {"compiled": str(r.value), "value": got}, exp)
                    return
    res.stats["resource_values_checked"] += checked
    if checked and "depth>=2" in feats and len(feats) >= 2:
        res.nontrivial.append((case.seed, tuple(sorted(feats))))
        for ft in feats:
            res.stats["feature_" + ft] += 1
    if case.seed % 97 == 0:
        res.samples.append({"qref": case.qref, "features": sorted(feats)})


def reading_correspondence(ctx, seeds):
    """Lean `denoteV` (value-level evaluator on the PREPROCESSED routine, the right-hand side of the C01 theorem) against the
    independent declarative reading of the SOURCE document (harness.refsem) at exact rational points."""
    from .. import model
    from ..real import schema

    reqs, metas = [], []
    for seed in seeds:
        spec = gen(seed, None)
        case = pipeline.Case(seed, spec)
        try:
            sx = G.routine_sexp(schema(case.qref).program, case.tree_of)
        except Exception:
            continue
        tops = refsem.top_level_inputs(spec)
        rng = random.Random(seed * 3 + 1)
        top = {n: Fraction(rng.randint(2, 9), rng.choice([1, 1, 2])) for n in tops}
        pt = " ".join(f"({n} {v.numerator} {v.denominator})" for n, v in top.items())
        reqs.append(f"denote 0 {sx} ({pt})")
        metas.append((seed, spec, top, case.qref))
    if not reqs:
        return
    resp = model.run_driver(reqs)
    for (seed, spec, top, q), r in zip(metas, resp):
        ctx.stats["reading_vs_denoteV_compared"] += 1
        try:
            nv = refsem.denote(spec, top)
        except (refsem.Ill, E.Undefined, OverflowError, ZeroDivisionError):
            continue
        if refsem.collect(nv, "mismatch") or refsem.collect(nv, "o1"):
            continue
        if r[0] != "ok":
            ctx.stats["denoteV_" + str(r[1] if len(r) > 1 else r[0])] += 1
            continue

        def walk_cmp(m, v, path):
            _, name, ports, resources, children = m
            for pn, val in ports:
                if val != "_" and pn in v["ports"]:
                    mv = Fraction(int(val[1]), int(val[2]))
                    ctx.stats["reading_values_compared"] += 1
                    if mv != v["ports"][pn]:
                        ctx.disagreement("denoteV (Lean, preprocessed routine) vs declarative reading of the source (port)", {"qref": q, "point": top, "node": path, "port": pn}, mv, v["ports"][pn])
                        return False
            for rn, _ty, val in resources:
                if val != "_" and v["resources"].get(rn) is not None:
                    mv = Fraction(int(val[1]), int(val[2]))
                    ctx.stats["reading_values_compared"] += 1
                    if mv != v["resources"][rn]:
                        ctx.disagreement("denoteV (Lean, preprocessed routine) vs declarative reading of the source (resource)", {"qref": q, "point": top, "node": path, "resource": rn}, mv, v["resources"][rn])
                        return False
            for ch in children:
                if ch[1] in v["children"] and not walk_cmp(ch, v["children"][ch[1]], path + [ch[1]]):
                    return False
            return True

        walk_cmp(r[1], nv, [])


def run(ctx, widen=False):
    n = ctx.n(400, 12000) * (3 if widen else 1)
    ctx.rule = ("routine trees from harness.routinegen (depth<=3, fan-out<=3, random wiring DAG, links incl. deep, locals, "
                "port-size patterns, repetitions, names drawn from a 6-name pool shared by all scopes); non-trivial = depth>=2 "
                "and at least one more of {shared names, deep link, locals, port symbol, repetition}, counted as distinct generator seeds "
                "whose compiled resources were compared with the bottom-up reading at 3 random points")
    base = ctx.seed * 1000003
    pipeline.run_stream(ctx, __name__, range(base, base + n))
    reading_correspondence(ctx, range(base, base + ctx.n(200, 3000)))


def replay(payload):
    from ..real import try_compile

    q = payload["input"]["qref"]
    st, res = try_compile(q)
    print("compile:", st)
    print("expected:", payload.get("expected"), "observed at record time:", payload.get("observed"))
    if st == "ok":
        for path, node in walk(res.routine):
            for rn, r in node.resources.items():
                print(".".join(path) or "root", rn, "=", r.value)
    return 0
