"""C14 — operations are pure and reproducible.

What is logic is proved in Lean (export independent of any set-iteration order; numeric cache transparent).  What lives in
the runtime is explored here: (1) deep snapshots of every argument before/after compile_routine, evaluate,
add_aggregated_resources and export; (2) repeated calls give equal results; (3) the exported document is byte-identical
across processes with different PYTHONHASHSEED, cold vs after 40 unrelated compilations, with and without cache clearing."""
from __future__ import annotations

import copy
import json
import os
import random
import subprocess
import sys

from .. import pipeline, routinegen as G
from ..real import compile_routine, evaluate, schema, sympy_backend as B, try_compile

LEVEL = "other"
HERE = os.path.dirname(os.path.dirname(os.path.dirname(os.path.abspath(__file__))))


def gen(seed, extra):
    rng = random.Random(seed)
    return G.gen_routine(rng, G.Opts(p_shuffle_children=0.9, max_children=4, leaf_inputs=[1, 2, 2, 3], p_rep=0.1))


def floatify(q, seed):
    """the same document, but with integral resource values written as floats (3 -> 3.0) at positions chosen by the seed:
    equal-comparing, differently typed numbers are what a careless cache confuses"""
    import copy as _c

    q = _c.deepcopy(q)
    rng = random.Random(seed * 7 + 1)

    def rec(n):
        for r in n.get("resources", []):
            if isinstance(r["value"], int) and rng.random() < 0.7:
                r["value"] = float(r["value"])
        for c in n.get("children", []):
            rec(c)

    rec(q)
    return q


def numeric_doc(seed):
    """small document whose resource values are plain numbers (ints), used as 'unrelated earlier work'"""
    rng = random.Random(seed)
    return {"name": "root", "input_params": ["N"], "resources": [{"name": f"r{i}", "type": "additive", "value": rng.randint(1, 6)} for i in range(4)] +
            [{"name": "s", "type": "additive", "value": "N*2"}]}


def fingerprint(x):
    """recursive structural fingerprint of dataclasses / dicts / lists / sympy objects / pydantic models"""
    import dataclasses

    import sympy

    if dataclasses.is_dataclass(x) and not isinstance(x, type):
        return (type(x).__name__, tuple((f.name, fingerprint(getattr(x, f.name))) for f in dataclasses.fields(x)))
    if isinstance(x, dict):
        return ("dict", tuple((fingerprint(k), fingerprint(v)) for k, v in x.items()))
    if isinstance(x, (list, tuple)):
        return (type(x).__name__, tuple(fingerprint(v) for v in x))
    if isinstance(x, (set, frozenset)):
        return ("set", tuple(sorted(map(repr, x))))
    if isinstance(x, sympy.Basic):
        return ("sympy", sympy.srepr(x))
    if hasattr(x, "model_dump_json"):
        return ("pydantic", x.model_dump_json())
    if hasattr(x, "value") and hasattr(x, "name") and type(x).__module__.startswith("bartiq"):
        return ("enum", x.name)
    return ("atom", repr(x))


def order_ambiguous(spec):
    """some node's wiring admits >=2 topological orders and its listed order is not one of them"""
    def rec(n):
        names = [c["name"] for c in n["children"]]
        preds = {x: set() for x in names}
        for (s, t) in n["connections"]:
            if s[0] is not None and t[0] is not None:
                preds[t[0]].add(s[0])
        pos = {x: i for i, x in enumerate(names)}
        listed_ok = all(pos[p] < pos[x] for x in names for p in preds[x])
        free = sum(1 for x in names if not preds[x])
        if not listed_ok and (free >= 2 or len(names) - len({frozenset(v) for v in preds.values()}) > 0):
            return True
        return any(rec(c) for c in n["children"])
    return rec(spec)


def oracle(case, res, extra):
    from bartiq import Routine
    from bartiq.transform import add_aggregated_resources

    if case.status == "schema":
        return
    rng = random.Random(case.seed * 43 + 5)
    doc = schema(case.qref)
    before = doc.model_dump_json()
    try:
        r1 = compile_routine(doc)
    except Exception:
        r1 = None
    if doc.model_dump_json() != before:
        res.violation("failing-input", "compile_routine modified the QREF document passed to it", {"qref": case.qref}, None, None)
        return
    # Routine object as input
    ro = Routine.from_qref(schema(case.qref), B)
    fp = fingerprint(ro)
    try:
        r2 = compile_routine(ro)
    except Exception:
        r2 = None
    if fingerprint(ro) != fp:
        res.violation("failing-input", "compile_routine modified the Routine object passed to it", {"qref": case.qref}, None, None)
        return
    res.stats["argument_snapshots"] += 2
    if r1 is None:
        return
    # repeatability
    r1b = compile_routine(schema(case.qref))
    if fingerprint(r1.routine) != fingerprint(r1b.routine):
        res.violation("failing-input", "compiling the same document twice gives different results", {"qref": case.qref}, None, None)
        return
    if r2 is not None and fingerprint(r2.routine) != fingerprint(r1.routine):
        res.violation("failing-input", "compiling the document and compiling its imported Routine give different results", {"qref": case.qref}, None, None)
        return
    cr = r1.routine
    fpc = fingerprint(cr)
    names = sorted(cr.input_params)
    asg = {n: rng.choice([rng.randint(1, 9), "zz + 2"]) for n in rng.sample(names, max(0, len(names) - 1))} if names else {}
    asg_before = copy.deepcopy(asg)
    try:
        e1 = evaluate(cr, asg)
        e2 = evaluate(cr, asg)
    except Exception:
        e1 = e2 = None
    if fingerprint(cr) != fpc or asg != asg_before:
        res.violation("failing-input", "evaluate modified its arguments", {"qref": case.qref, "assignments_in_order": list(asg_before.items())}, None, None)
        return
    if e1 is not None and fingerprint(e1.routine) != fingerprint(e2.routine):
        res.violation("failing-input", "evaluating twice with the same assignment gives different results", {"qref": case.qref, "assignments_in_order": list(asg_before.items())}, None, None)
        return
    agg = {"T": {"base": 2, "Q": "k"}, "Q": {"base": 3}}
    agg_before = copy.deepcopy(agg)
    try:
        a1 = add_aggregated_resources(cr, agg)
        a2 = add_aggregated_resources(cr, agg, remove_decomposed=False)
        a1b = add_aggregated_resources(cr, agg)
    except Exception:
        a1 = a1b = None
    if fingerprint(cr) != fpc or agg != agg_before:
        res.violation("failing-input", "add_aggregated_resources modified its arguments", {"qref": case.qref, "aggregation": agg_before}, None, None)
        return
    if a1 is not None and fingerprint(a1) != fingerprint(a1b):
        res.violation("failing-input", "aggregating twice gives different results", {"qref": case.qref}, None, None)
        return
    try:
        x1 = r1.to_qref().model_dump_json()
        x2 = r1.to_qref().model_dump_json()
        if x1 != x2 or fingerprint(cr) != fpc:
            res.violation("failing-input", "export is not repeatable or modified the routine", {"qref": case.qref}, None, None)
            return
    except Exception:
        res.stats["export_raised"] += 1
    res.stats["purity_cases"] += 1
    if order_ambiguous(case.spec):
        res.nontrivial.append((case.seed, "ambiguous-order"))
    if case.seed % 47 == 0:
        res.samples.append({"qref": case.qref})


def cross_process(ctx):
    nseeds = ctx.n(4, 32)
    nrout = ctx.n(40, 400)
    base = ctx.seed * 1000003 + 11500000
    # prefer routines whose child order is genuinely ambiguous
    cands = []
    s = base
    while len(cands) < nrout and s < base + 20 * nrout:
        if order_ambiguous(gen(s, None)) or len(cands) < nrout // 4:
            cands.append(s)
        s += 1
    jobs = []
    for hs in range(nseeds):
        for mode in (("cold", "warm") if not ctx.thorough() else ("cold", "warm", "cleared")):
            if mode != "cold" and hs >= max(2, nseeds // 4):
                continue
            jobs.append((hs, mode))
    procs = []
    env0 = dict(os.environ)
    for hs, mode in jobs:
        env = dict(env0, PYTHONHASHSEED=str(hs), PYTHONWARNINGS="ignore")
        procs.append(((hs, mode), subprocess.Popen([sys.executable, os.path.join(HERE, "harness", "c14_worker.py") if os.path.basename(HERE) != "harness" else os.path.join(HERE, "c14_worker.py"), mode] + [str(x) for x in cands],
                                                   stdout=subprocess.PIPE, stderr=subprocess.PIPE, text=True, env=env, cwd=HERE)))
    tables = {}
    for key, p in procs:
        out, err = p.communicate(timeout=3000)
        if p.returncode != 0:
            raise RuntimeError(f"C14 worker {key} failed: {err[-400:]}")
        tables[key] = dict(ln.split() for ln in out.strip().split("\n") if ln.strip())
    cands = cands + [-x for x in cands]
    ref_key = jobs[0]
    for sd in cands:
        vals = {k: t.get(str(sd)) for k, t in tables.items()}
        ctx.stats["evaluations"] += len(vals)
        ctx.stats["cross_process_exports"] += len(vals)
        if len(set(vals.values())) != 1:
            groups = {}
            for k, v in vals.items():
                groups.setdefault(v, []).append(f"hashseed={k[0]}/{k[1]}")
            q = floatify(G.to_qref(gen(sd, None), G.Rendered()), sd) if sd >= 0 else floatify(numeric_doc(-sd), -sd)
            ctx.violation("failing-input", "the exported document of a compilation / evaluation differs between processes (hash seed or call history)", {"qref": q, "generator_seed": sd, "processes": list(groups.values())},
                          list(groups), "identical export in every process")
            return
        if sd < 0 or order_ambiguous(gen(sd, None)):
            ctx.nontrivial(("xproc", sd))
    ctx.sample({"cross_process": {"routines": len(cands), "processes": [f"hashseed={h}/{m}" for h, m in jobs]}})


def run(ctx, widen=False):
    ctx.notes.append("runtime effects (object mutation, hash randomisation, process-global caches) cannot be exhibited by a pure Lean model; they are explored here, "
                     "the logic part (set-order independence of export, cache transparency) is proved in Properties/C14.lean")
    ctx.rule = ("routines with fan-in and children listed against data flow; (1) argument fingerprints before/after compile/evaluate/aggregate/export, (2) repeated calls, "
                "(3) exports compared across processes: PYTHONHASHSEED 0..3|0..31 x {cold, warm(, cleared)}; non-trivial = wiring admits >=2 topological orders and the "
                "listed order is not one of them")
    n = ctx.n(120, 3000)
    base = ctx.seed * 1000003 + 11000000
    pipeline.run_stream(ctx, __name__, range(base, base + n), use_model=False)
    if not ctx.violations:
        cross_process(ctx)


def replay(payload):
    inp = payload["input"]
    print("recorded:", payload.get("what"))
    q = inp["qref"]
    outs = {}
    for hs in range(6):
        code = ("import sys,json;sys.path.insert(0,%r);from harness.real import try_compile;st,r=try_compile(json.loads(sys.stdin.read()));"
                "print(st, [c for c in r.routine.children] if st=='ok' else '')" % HERE)
        p = subprocess.run([sys.executable, "-c", code], input=json.dumps(q), capture_output=True, text=True, env=dict(os.environ, PYTHONHASHSEED=str(hs), PYTHONWARNINGS="ignore"))
        outs[hs] = p.stdout.strip()
    for k, v in outs.items():
        print("PYTHONHASHSEED", k, "->", v)
    return 0
