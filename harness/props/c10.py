"""C10 — compilation preserves the structure of the hierarchy."""
from __future__ import annotations

import random

from .. import pipeline, routinegen as G
from ..real import schema
from .c01 import gen  # noqa: F401

LEVEL = "proof"


class _V:
    """uniform view of a compiled node (the CompiledRoutine dataclass itself: exporting it is C13's business)"""

    def __init__(self, cr):
        self.name, self.type = cr.name, cr.type
        self.children = [_V(c) for c in cr.children.values()]
        self.ports = [type("P", (), {"name": p.name, "direction": p.direction})() for p in cr.ports.values()]
        self.connections = [type("C", (), {"source": _ep(s), "target": _ep(t)})() for s, t in cr.connections.items()]
        self.resources = [type("R", (), {"name": r.name, "type": r.type.value})() for r in cr.resources.values()]
        self.repetition = cr.repetition


def _nodes(prog, path=()):
    yield path, prog
    for c in prog.children:
        yield from _nodes(c, path + (c.name,))


def _ep(e):
    return e.port_name if e.routine_name is None else f"{e.routine_name}.{e.port_name}"


def oracle(case, res, extra):
    if case.status != "ok":
        return
    src = schema(case.qref).program
    out = _V(case.result.routine)
    feats = set()

    def rec(s, c, path):
        where = ".".join(path) or "root"
        if s.name != c.name:
            return f"name of {where}: {c.name} vs {s.name}"
        if (s.type or None) != (c.type or None):
            return f"type of {where}: {c.type} vs {s.type}"
        if sorted(x.name for x in s.children) != sorted(x.name for x in c.children):
            return f"children of {where}: {[x.name for x in c.children]} vs {[x.name for x in s.children]}"
        if sorted((p.name, p.direction) for p in s.ports) != sorted((p.name, p.direction) for p in c.ports):
            return f"ports of {where}: {[(p.name, p.direction) for p in c.ports]} vs {[(p.name, p.direction) for p in s.ports]}"
        if sorted((x.source, x.target) for x in s.connections) != sorted((x.source, x.target) for x in c.connections):
            return f"connections of {where} differ"
        sres = {r.name: r.type for r in s.resources}
        cres = {r.name: r.type for r in c.resources}
        if s.repetition is None:
            for rn, ty in sres.items():
                if cres.get(rn) != ty:
                    return f"source resource {where}.{rn} ({ty}) is {'missing' if rn not in cres else 'of type ' + cres[rn]} after compilation"
        for rn, ty in cres.items():
            if rn in sres:
                continue
            kids = [k for k in c.children for r in k.resources if r.name == rn and r.type == ty]
            if ty not in ("additive", "multiplicative") and not (s.repetition is not None and kids):
                return f"compiled {where} gained resource {rn} of type {ty}"
            if not kids:
                return f"compiled {where} gained resource {rn} that no child has"
        if (s.repetition is None) != (c.repetition is None):
            return f"repetition of {where} appeared/disappeared"
        if s.repetition is not None:
            feats.add("repetition")
            if s.repetition.sequence.type != c.repetition.sequence.type:
                return f"sequence type of {where} changed"
        if any(x.source.count(".") == 0 and x.target.count(".") == 0 for x in s.connections):
            feats.add("pass-through")
        if not s.ports:
            feats.add("portless-node")
        if not s.children:
            feats.add("leaf")
        byname = {x.name: x for x in c.children}
        for k in s.children:
            e = rec(k, byname[k.name], path + [k.name])
            if e:
                return e
        return None

    err = rec(src, out, [])
    res.stats["trees_compared"] += 1
    if err:
        res.violation("failing-input", "compiled hierarchy differs in structure: " + err, {"qref": case.qref}, err, "same structure")
        return

    # ---- history: the SAME document object is compiled, edited in place (a resource appended to some node, the type of another
    # changed — no field re-assigned), and compiled again: the second result must have the structure of the edited document
    if case.seed % 2 == 0:
        from ..real import compile_routine

        rng = random.Random(case.seed * 31 + 5)
        try:
            obj = schema(case.qref)
            compile_routine(obj)
            nodes_ = []

            def collect(n):
                nodes_.append(n)
                for k in n.children:
                    collect(k)
            collect(obj.program)
            tgt = rng.choice([n for n in nodes_ if n.repetition is None] or nodes_)
            from qref.schema_v1 import ResourceV1

            edits = []
            if tgt.repetition is None and not any(r.name == "edited_in_place" for r in tgt.resources):
                tgt.resources.append(ResourceV1(name="edited_in_place", type="other", value=7))
                edits.append(("added", tgt.name))
            for r in tgt.resources:
                if r.type == "additive" and tgt.repetition is None:
                    r.type = "other"
                    edits.append(("retyped", tgt.name, r.name))
                    break
            second = compile_routine(obj)
        except Exception as e:
            second = None
            res.stats["history_edit_raised_" + type(e).__name__] += 1
        if second is not None and edits:
            res.stats["history_edit_in_place"] += 1
            err2 = rec(obj.program, _V(second.routine), [])
            if err2:
                res.violation("failing-input", "after editing the document object in place and compiling it again, the compiled hierarchy does not follow the edited document: " + err2,
                              {"qref": case.qref, "history": ["compile(obj)", "in-place edits " + str(edits), "compile(obj)"]}, err2, "structure of the edited document")
                return

    # ---- a derived resource is requested under a name some routines already declare by hand, and the calculation has nothing to add
    # (returns None, the documented way of saying so): every declared resource stays
    if case.seed % 4 == 1:
        from ..real import try_compile

        declared = sorted({r.name for _, n_ in _nodes(src) if n_.repetition is None for r in n_.resources})
        if declared:
            rng_d = random.Random(case.seed * 41 + 3)
            xname = rng_d.choice(declared)
            st4, r4 = try_compile(case.qref, derived_resources=[{"name": xname, "type": "other", "calculate": (lambda routine, backend: None)}])
            res.stats["derived_none_" + st4.split(":")[0]] += 1
            if st4 == "ok":
                err4 = rec(src, _V(r4.routine), [])
                if err4:
                    res.violation("failing-input", f"with a derived resource {xname} requested whose calculation returns None, the compiled hierarchy differs in structure: " + err4,
                                  {"qref": case.qref, "derived_resources": [{"name": xname, "type": "other", "calculate": "lambda routine, backend: None"}]}, err4, "same structure")
                    return
            elif st4 != case.status:
                res.violation("failing-input", f"requesting a derived resource whose calculation returns None turns a compilable routine into {st4}",
                              {"qref": case.qref, "derived_resources": [{"name": xname}]}, str(r4)[:200], "ok")
                return

    # ---- legal but unusual document: a resource whose value is left out (`value: null` is schema-valid QREF).  The implementation may
    # refuse such a document; if it compiles it, every declared resource must still be there with its name and type
    if case.seed % 3 == 0:
        import copy

        from ..real import try_compile

        rng = random.Random(case.seed * 37 + 1)
        doc = copy.deepcopy(case.qref)
        holders = []

        def coll(n):
            if n.get("resources") and not n.get("repetition"):
                holders.append(n)
            for k in n.get("children", []):
                coll(k)
        coll(doc)
        if holders:
            tgt = rng.choice(holders)
            rsrc = rng.choice(tgt["resources"])
            rsrc["value"] = None
            if rng.random() < 0.4:
                rsrc["type"] = rng.choice(["other", "qubits", "additive", "multiplicative"])
            try:
                src3 = schema(doc).program
            except Exception:
                src3 = None
                res.stats["null_resource_rejected_by_schema"] += 1
            if src3 is not None:
                st3, r3 = try_compile(doc)
                res.stats["null_resource_" + st3.split(":")[0]] += 1
                if st3 == "ok":
                    err3 = rec(src3, _V(r3.routine), [])
                    if err3:
                        res.violation("failing-input", "a document with a value-less resource is compiled, but the compiled hierarchy differs in structure: " + err3,
                                      {"qref": doc}, err3, "same structure (or the document refused)")
                        return

    def count(n):
        return 1 + sum(count(c) for c in n.children)

    if count(src) >= 3 and feats & {"repetition", "pass-through"}:
        res.nontrivial.append((case.seed, tuple(sorted(feats))))
    for ft in feats:
        res.stats["feature_" + ft] += 1
    if case.seed % 79 == 0:
        res.samples.append({"qref": case.qref})


def run(ctx, widen=False):
    n = ctx.n(400, 12000) * (3 if widen else 1)
    ctx.rule = ("routine trees from harness.routinegen; source QREF vs compile_routine(...).to_qref() walked node by node (names, nesting, types, "
                "ports+directions, connections, resources+types, repetition kind); non-trivial = >=3 nodes containing a repetition wrapper or a pass-through")
    base = ctx.seed * 1000003 + 3500000
    pipeline.run_stream(ctx, __name__, range(base, base + n), extra={"p_rep": 0.25, "p_passthrough": 0.3})
    # second family (structure only): ports whose declared size is the bare name of one of the routine's own local variables,
    # parameters named like resources, empty registers — shapes on which a value-level reading is ambiguous but the structure is not
    pipeline.run_stream(ctx, __name__, range(base + 60000, base + 60000 + n // 2),
                        extra={"p_rep": 0.2, "p_passthrough": 0.3, "p_port_local_clash": 0.3, "p_zero_size": 0.15, "p_through": 0.3, "p_twin_leaf": 0.6,
                               "leaf_inputs": [0, 0, 1, 2]})


def replay(payload):
    from ..real import try_compile

    st, res = try_compile(payload["input"]["qref"])
    print("compile:", st, "| recorded:", payload.get("what"))
    return 0
