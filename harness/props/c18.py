"""C18 — rendering is total and complete on every routine bartiq accepts.

For compilable documents and their compiled forms, in all four flag combinations, `routine_to_latex` must not raise and the
text must contain an entry for every input parameter, port and resource of the top-level routine and (unless disabled) for
every resource of every subroutine.  Expected entry keys are produced by an independent re-implementation of the name
formatting (harness side), not by bartiq's formatters."""
from __future__ import annotations

import random

from .. import expr as E, pipeline, routinegen as G
from ..real import schema, try_compile

LEVEL = "proof"
PORT_NAMES = ["ctrl", "data_in", "data_out", "flag", "garbage", "a0", "b1", "c2", "d3", "e4", "m_1", "q", "reg_x", "sys", "tgt", "u", "w_w", "zz"]
ODD_NAMES = ["N", "x_y", "a_b_c", "_x", "x_", "_", "lambda", "alpha_beta", "n_1", "T_gates", "__z", "Q2", "eps_0_1"]


def gen(seed, extra):
    rng = random.Random(seed)
    spec = G.gen_routine(rng, G.Opts(p_through=0.35, p_rep=0.15, max_depth=3))
    # rename parameters / resources to names with 0, 1, >=2 underscores, leading / trailing underscores
    ren = {}
    pool = ODD_NAMES[:]
    rng.shuffle(pool)

    def rn_tree(t):
        return None if t is None else E.subst(t, {o: E.sym(n) for o, n in ren.items()})

    for p in list(spec["input_params"]):
        if pool and rng.random() < 0.6:
            ren[p] = pool.pop()
    spec["input_params"] = [ren.get(p, p) for p in spec["input_params"]]
    if rng.random() < 0.4:
        # long parameter lists (any length 5..14): the one-line sections must not lose entries when they get long
        spec["input_params"] += [f"w{i}" for i in range(rng.randint(4, 11))]
    spec["local_variables"] = [(v, rn_tree(t)) for v, t in spec["local_variables"]]
    spec["linked_params"] = [(ren.get(s, s), ts) for s, ts in spec["linked_params"]]
    for p in spec["ports"]:
        p["size"] = rn_tree(p["size"])
    for r in spec["resources"]:
        r["value"] = rn_tree(r["value"])
        if pool and rng.random() < 0.4:
            r["name"] = pool.pop()
    # ports of the top-level routine get free-form names, so that their alphabetical order (the order QREF keeps them in)
    # interleaves the three directions
    if spec["ports"] and rng.random() < 0.6:
        names = rng.sample(PORT_NAMES, len(spec["ports"])) if len(spec["ports"]) <= len(PORT_NAMES) else None
        if names:
            pm = {p["name"]: n for p, n in zip(spec["ports"], names)}
            for p in spec["ports"]:
                p["name"] = pm[p["name"]]
            spec["connections"] = [(((None, pm[a[1]]) if a[0] is None else a), ((None, pm[b[1]]) if b[0] is None else b)) for a, b in spec["connections"]]
    if spec["repetition"]:
        spec["repetition"]["count"] = rn_tree(spec["repetition"]["count"])
        for k, v in list(spec["repetition"]["sequence"].items()):
            if isinstance(v, tuple):
                spec["repetition"]["sequence"][k] = rn_tree(v)
    return spec


# ---- independent re-implementation of the key formatting (harness side)
def name_text(name):
    return "\\text{" + name.replace("_", "\\_") + "}"


def param_text(p):
    n = p.count("_")
    if n == 0:
        return "\\text{" + p + "}"
    sym, *subs = p.split("_")
    return "\\text{" + sym + "}_\\text{" + "\\_".join(subs) + "}"


def param_math(p):
    from sympy import latex, symbols

    if "_" not in p:
        return latex(symbols(p))
    sym, sub = p.split("_", 1)
    if not sym or not sub:
        return param_text(p)
    sub_l = latex(symbols(sub.replace("_", "\\_")))
    sub_t = sub_l if "\\\\" in sub_l else "\\text{" + sub.replace("_", "\\_") + "}"
    return latex(symbols(sym)) + "_{" + sub_t + "}"


def local_param(p):
    return param_math(p) if p.count("_") <= 1 else param_text(p)


def fmt_param(p):
    if "." in p:
        path, loc = p.rsplit(".", 1)
        return param_text(path) + ".\\!" + local_param(loc)
    return local_param(p)


def required_entries(prog, non_root):
    """list of (description, substring that must occur in the rendering)"""
    req = []
    for p in prog.input_params:
        req.append((f"input parameter {p}", fmt_param(p)))
    for port in prog.ports:
        req.append((f"{port.direction} port {port.name}", "&" + name_text(port.name) + " = "))
    for r in prog.resources:
        req.append((f"resource {r.name}", "&" + fmt_param(r.name) + " = "))
    if non_root:
        def walk(n):
            for c in n.children:
                yield from walk(c)
                for r in c.resources:
                    yield c, r
        for c, r in walk(prog):
            req.append((f"resource {c.name}.{r.name}", "&" + fmt_param(f"{c.name}.{r.name}") + " = "))
    return req


def subroutines(prog, path=()):
    for c in prog.children:
        yield path + (c.name,), c
        yield from subroutines(c, path + (c.name,))


def check_doc(res, doc, what, case, sub_path=None, which=None):
    from bartiq.integrations.latex import routine_to_latex

    # expectations are read off a pristine copy: the SAME document object is rendered four times in a row, and rendering must
    # neither change it nor depend on what was rendered before
    pristine = doc.model_copy(deep=True)
    before = doc.model_dump_json()
    for non_root in (True, False):
        for paged in (False, True):
            res.stats["renderings"] += 1
            try:
                out = routine_to_latex(doc, show_non_root_resources=non_root, paged=paged)
            except Exception as e:
                res.violation("failing-input", f"routine_to_latex raised {type(e).__name__} on {what} (show_non_root_resources={non_root}, paged={paged})",
                              {"qref": case.qref, "subroutine": list(sub_path) if sub_path else None, "of": which, "form": what, "show_non_root_resources": non_root, "paged": paged}, str(e)[:300], "text")
                return False
            text = "\n".join(out) if paged else out
            if not isinstance(text, str) or not text.strip():
                res.violation("failing-input", f"routine_to_latex returned no text for {what}", {"qref": case.qref, "subroutine": list(sub_path) if sub_path else None, "of": which, "form": what}, repr(out)[:100], "text")
                return False
            import collections

            need = collections.Counter(sub for _, sub in required_entries(pristine.program, non_root))
            for desc, sub in required_entries(pristine.program, non_root):
                # two subroutines with the same name in different scopes need one entry EACH
                if text.count(sub) < need[sub]:
                    res.violation("failing-input", f"rendering of {what} has no entry for {desc} (show_non_root_resources={non_root}, paged={paged})",
                                  {"qref": case.qref, "subroutine": list(sub_path) if sub_path else None, "of": which, "form": what, "show_non_root_resources": non_root, "paged": paged}, {"missing": sub, "text": text[:1500]}, sub)
                    return False
            if doc.model_dump_json() != before:
                res.violation("failing-input", f"routine_to_latex modified {what} passed to it (show_non_root_resources={non_root}, paged={paged})",
                              {"qref": case.qref, "subroutine": list(sub_path) if sub_path else None, "of": which, "form": what, "history": "renderings of the same object in a row"}, None, "unchanged document")
                return False
    return True


def oracle(case, res, extra):
    if case.status != "ok":
        return
    doc = schema(case.qref)
    if not check_doc(res, doc, "the source document", case):
        return
    try:
        cdoc = case.result.to_qref()
    except Exception:
        res.stats["compiled_export_raised (C13 finding)"] += 1
        cdoc = None
    if cdoc is not None and not check_doc(res, cdoc, "the compiled document", case):
        return
    # every subroutine is a routine bartiq accepts too: rendered as a document of its own (its repetition, if it is a repetition
    # wrapper, is then the TOP-LEVEL repetition section — the only place where the sequence kind is rendered)
    for which, d in (("source", doc), ("compiled", cdoc)):
        if d is None:
            continue
        for path, sub in subroutines(d.program):
            if sub.repetition is None and (case.seed + len(path)) % 3:
                continue
            res.stats["subroutines_rendered_as_documents"] += 1
            if sub.repetition is not None:
                res.stats["top_level_repetition_" + str(getattr(sub.repetition.sequence, "type", "?"))] += 1
            sdoc = type(d)(version="v1", program=sub.model_copy(deep=True))
            if not check_doc(res, sdoc, f"subroutine {'.'.join(path)} of the {which} document", case, sub_path=path, which=which):
                return
    feats = set()
    for p in doc.program.input_params + [r.name for r in doc.program.resources]:
        feats.add(f"underscores={min(p.count('_'), 2)}")
        if p.startswith("_") or p.endswith("_"):
            feats.add("edge-underscore")
    if any(p.direction == "through" for p in doc.program.ports):
        feats.add("through-port")
    if cdoc is not None and any("." in p for p in cdoc.program.input_params):
        feats.add("dotted-promoted-name")
    if len(feats) >= 2:
        res.nontrivial.append((case.seed, tuple(sorted(feats))))
    for f in feats:
        res.stats["feature_" + f] += 1
    if case.seed % 37 == 0:
        res.samples.append({"qref": case.qref, "features": sorted(feats)})


def section_counts(text):
    """number of entries under each section header of an (unpaged) rendering"""
    import re

    body = text[len("$\\begin{align}\n"):-len("\n\\end{align}$")]
    out = {}
    for part in body.split("\\newline\n"):
        m = re.match(r"&\\underline\{\\text\{(.*?):\}\}\\\\\n", part)
        if not m:
            continue
        rest = part[m.end():]
        hdr = m.group(1)
        if hdr == "Input parameters":
            out[hdr] = len(rest[1:].split(", ")) if rest.strip("&") else 0
        else:
            out[hdr] = len(rest.split("\\\\\n"))
    return out


def model_correspondence(ctx, seeds):
    """entries per section: Lean `latexEntries` vs the real rendering of the source document"""
    from bartiq.integrations.latex import routine_to_latex

    from .. import model

    reqs, metas = [], []
    for seed in seeds:
        spec = gen(seed, None)
        case = pipeline.Case(seed, spec)
        try:
            doc = schema(case.qref)
            sx = G.routine_sexp(doc.program, case.tree_of)
        except Exception:
            continue
        for show in (True, False):
            reqs.append(f"latex {1 if show else 0} {sx}")
            metas.append((case, doc, show))
    if not reqs:
        return
    resp = model.run_driver(reqs)
    import collections

    for (case, doc, show), r in zip(metas, resp):
        ctx.stats["model_vs_impl_compared"] += 1
        try:
            text = routine_to_latex(doc, show_non_root_resources=show)
        except Exception:
            continue
        real = section_counts(text)
        mod = collections.Counter(e[0].replace("_", " ") for e in r[1])
        if dict(mod) != real:
            ctx.disagreement("routine_to_latex vs latexEntries (entries per section)", {"qref": case.qref, "show_non_root_resources": show}, dict(mod), real)


def corpus(ctx):
    from bartiq.integrations.latex import routine_to_latex

    for n in ("_x", "x_", "_"):
        q = {"name": "r", "input_params": [n], "ports": [{"name": "t_0", "direction": "through", "size": n}], "resources": [{"name": n, "type": "other", "value": n}]}
        ctx.stats["corpus_cases"] += 1
        try:
            text = routine_to_latex(schema(q))
        except Exception as e:
            ctx.violation("failing-input", f"corpus: routine_to_latex raises {type(e).__name__} for the name {n!r}", {"qref": q, "form": "the source document"}, str(e)[:200], "text")
            continue
        if "&" + name_text("t_0") + " = " not in text:
            ctx.violation("failing-input", "corpus: through port has no entry in the rendering", {"qref": q, "form": "the source document"}, text[:600], name_text("t_0"))


def run(ctx, widen=False):
    n = ctx.n(250, 6000) * (3 if widen else 1)
    ctx.notes.append("sympy.latex never raising on bartiq's expressions is a contract exercised here, not proved (partial)")
    ctx.rule = ("compilable routine trees whose root parameters/resources are renamed to names with 0/1/>=2 underscores, leading/trailing underscores, greek words; source "
                "document and compiled document x {show_non_root_resources} x {paged}; required entry keys from an independent formatter; non-trivial = >=2 of "
                "{underscore classes, edge underscore, through port, dotted promoted name}")
    corpus(ctx)
    base = ctx.seed * 1000003 + 14500000
    pipeline.run_stream(ctx, __name__, range(base, base + n), use_model=False)
    model_correspondence(ctx, range(base, base + ctx.n(150, 2000)))


def replay(payload):
    from bartiq.integrations.latex import routine_to_latex

    inp = payload["input"]
    print("recorded:", payload.get("what"))
    doc = schema(inp["qref"])
    if inp.get("form") == "the compiled document" or inp.get("of") == "compiled":
        st, r = try_compile(inp["qref"])
        doc = r.to_qref()
    if inp.get("subroutine"):
        sub = doc.program
        for nm in inp["subroutine"]:
            sub = next(c for c in sub.children if c.name == nm)
        doc = type(doc)(version="v1", program=sub)
    try:
        print(routine_to_latex(doc, show_non_root_resources=inp.get("show_non_root_resources", True), paged=inp.get("paged", False)))
    except Exception as e:
        print("raised", type(e).__name__, e)
    return 0
