"""C17 — well-formed input never crashes; ill-formed wiring is rejected up front.

(i) well-formed stream (every sequence kind, symbolic parameters, depth <= 4): compile and evaluate must return or raise
bartiq's own compilation / preprocessing error;  (ii) fault stream: every single wiring / repetition fault injected at
every position of a well-formed routine must be rejected with BartiqCompilationError (unless verification is skipped);
(iii) the Lean model of verification agrees with the real outcome on every faulted document."""
from __future__ import annotations

import copy
import random
import signal

from .. import expr as E, model, pipeline, refsem, routinegen as G
from ..real import BartiqCompilationError, BartiqPreprocessingError, evaluate, exc_class, schema, try_compile

LEVEL = "proof"
CASE_BUDGET_S = 0   # this module runs its own alarms (termination is what it examines)
TIMEOUT_S = 60      # seconds of process CPU time (ITIMER_VIRTUAL)


def gen(seed, extra):
    rng = random.Random(seed)
    o = dict(p_rep=0.3, symbolic_rep=0.75, max_depth=4, mult_under_any_rep=True, rich=0.4)
    o.update(extra or {})
    return G.gen_routine(rng, G.Opts(**o))


class _Timeout(Exception):
    pass


def _alarm(signum, frame):
    raise _Timeout()


def nodes_of(q, path=()):
    yield path, q
    for c in q.get("children", []):
        yield from nodes_of(c, path + (c["name"],))


def faults(q):
    """every single wiring / repetition fault at every position: yields (description, faulted document)"""
    for path, n in nodes_of(q):
        idx = list(path)

        def at(doc):
            m = doc
            for p in idx:
                m = next(c for c in m["children"] if c["name"] == p)
            return m

        conns = n.get("connections", [])
        for i, c in enumerate(conns):
            d = copy.deepcopy(q)
            del at(d)["connections"][i]
            if not at(d)["connections"]:
                del at(d)["connections"]
            yield (f"connection {c['source']}->{c['target']} removed at {'.'.join(path) or 'root'} (unconnected port)", d)
        # multiply connected: duplicate a source onto another existing target / a target from another source
        for i, c in enumerate(conns):
            for j, c2 in enumerate(conns):
                if i != j:
                    d = copy.deepcopy(q)
                    at(d)["connections"].append({"source": c["source"], "target": c2["target"]})
                    yield (f"extra connection {c['source']}->{c2['target']} at {'.'.join(path) or 'root'} (multiply connected ports)", d)
                    break
        # … the same with the extra connection listed BEFORE the regular connection of that source (a loader that keys connections by
        # their source keeps the later one: the surviving set looks well-formed), and a connection simply listed twice
        for i, c in enumerate(conns):
            for j, c2 in enumerate(conns):
                if i != j:
                    d = copy.deepcopy(q)
                    at(d)["connections"].insert(i, {"source": c["source"], "target": c2["target"]})
                    yield (f"extra connection {c['source']}->{c2['target']} listed before the regular one at {'.'.join(path) or 'root'} (multiply connected ports)", d)
                    break
        for i, c in enumerate(conns):
            d = copy.deepcopy(q)
            at(d)["connections"].insert(i + 1 if i % 2 else len(conns), dict(c))
            yield (f"connection {c['source']}->{c['target']} listed twice at {'.'.join(path) or 'root'} (multiply connected ports)", d)
            if i >= 1:
                break
        # cycle: for an inner connection a.x -> b.y add the ports and a wire back b -> a
        kids = n.get("children", [])
        for c in conns:
            if "." in c["source"] and "." in c["target"]:
                a, b = c["source"].split(".")[0], c["target"].split(".")[0]
                if a == b:
                    continue
                d = copy.deepcopy(q)
                m = at(d)
                ka = next(k for k in m["children"] if k["name"] == a)
                kb = next(k for k in m["children"] if k["name"] == b)
                ka.setdefault("ports", []).append({"name": "cyc_in", "direction": "input", "size": None})
                kb.setdefault("ports", []).append({"name": "cyc_out", "direction": "output", "size": 1})
                m["connections"].append({"source": f"{b}.cyc_out", "target": f"{a}.cyc_in"})
                yield (f"connection cycle {a}->{b}->{a} at {'.'.join(path) or 'root'}", d)
        # self-cycle: an existing wire k.out -> T is led through a new THROUGH port of k itself (k.out -> k.loop, k.loop -> T);
        # every port stays connected exactly once, qref's verify_topology does not see it (F13), only the ordering of the children does
        for i, c in enumerate(conns):
            if "." in c["source"]:
                a = c["source"].split(".")[0]
                d = copy.deepcopy(q)
                m = at(d)
                ka = next(k for k in m["children"] if k["name"] == a)
                if ka.get("repetition"):
                    continue
                ka.setdefault("ports", []).append({"name": "loop", "direction": "through", "size": None})
                m["connections"][i] = {"source": c["source"], "target": f"{a}.loop"}
                m["connections"].append({"source": f"{a}.loop", "target": c["target"]})
                yield (f"connection cycle {a}->{a} (own through port) at {'.'.join(path) or 'root'}", d)
                break
        # repetition faults
        if n.get("repetition"):
            d = copy.deepcopy(q)
            m = at(d)
            extra = copy.deepcopy(m["children"][0])
            extra["name"] = "second"
            for p in extra.get("ports", []):
                pass
            extra["ports"] = []
            extra.pop("connections", None) if not extra.get("children") else None
            m["children"].append({"name": "second", "resources": [{"name": "T", "type": "additive", "value": 1}]})
            yield (f"repeated routine {'.'.join(path) or 'root'} given a second child", d)
            d = copy.deepcopy(q)
            at(d).setdefault("resources", []).append({"name": "own", "type": "additive", "value": 5})
            yield (f"repeated routine {'.'.join(path) or 'root'} given a resource of its own", d)
            d = copy.deepcopy(q)
            m = at(d)
            m["children"] = []
            m.pop("connections", None)
            m.pop("linked_params", None)
            yield (f"repeated routine {'.'.join(path) or 'root'} left without children", d)
        elif not kids and not n.get("resources") and path:
            pass
    # a repetition on a node that has several children
    for path, n in nodes_of(q):
        if len(n.get("children", [])) >= 2 and not n.get("repetition"):
            d = copy.deepcopy(q)
            m = d
            for p in path:
                m = next(c for c in m["children"] if c["name"] == p)
            m["repetition"] = {"count": 3, "sequence": {"type": "constant", "multiplier": 1}}
            m.pop("resources", None)
            yield (f"repetition put on {'.'.join(path) or 'root'} which has {len(n['children'])} children", d)
            break


def oracle(case, res, extra):
    if case.status == "schema":
        return
    rng = random.Random(case.seed * 53 + 2)
    signal.signal(signal.SIGVTALRM, _alarm)
    # (i) well-formed: outcome class
    wf = True
    try:
        tops = refsem.top_level_inputs(case.spec)
        refsem.denote(case.spec, {n: __import__("fractions").Fraction(rng.randint(2, 7)) for n in tops})
    except refsem.Ill:
        wf = False
    except Exception:
        pass
    if wf:
        res.stats["well_formed_cases"] += 1
        if case.status.startswith("internal"):
            res.violation("failing-input", f"compile_routine raised {case.status.split(':')[1]} on a well-formed routine", {"qref": case.qref}, repr(case.err)[:300],
                          "a result or bartiq's own compilation/preprocessing error")
            return
        if case.status == "ok" and case.sexp is not None:
            # hypothesis of C17_compile_raises_only_own_errors (`Routine.sound` of the tree preprocessing and child ordering produce):
            # it must hold on every routine the implementation compiles, otherwise the theorem says nothing about that routine
            sr = model.run_driver(["sound 0 " + case.sexp])[0]
            res.stats["model_vs_impl_compared"] += 1
            res.stats["sound_hypothesis_" + (str(sr[1]) if sr[0] == "ok" else "model-" + str(sr[0]))] += 1
            if sr[0] != "ok" or sr[1] != "sound":
                res.disagreement("soundness of wiring (hypothesis of C17_compile_raises_only_own_errors) on a routine the implementation compiles",
                                 {"qref": case.qref}, str(sr)[:200], "(ok sound)")
        if case.status == "ok":
            cr = case.result.routine
            names = sorted(cr.input_params)
            for k in range(3):
                asg = {n: rng.choice([rng.randint(0, 9), rng.randint(1, 5), "zz*2", round(rng.uniform(0.5, 4), 2)]) for n in rng.sample(names, rng.randint(0, len(names)))}
                if k == 2:
                    asg = {n: rng.randint(1, 6) for n in names}
                signal.setitimer(signal.ITIMER_VIRTUAL, TIMEOUT_S)
                try:
                    ev_res = evaluate(cr, asg)
                    res.stats["evaluate_ok"] += 1
                    if k == 2:
                        # every input has a number now (no port variable is left among the inputs): the evaluated result must
                        # also EXPORT without an internal exception
                        try:
                            ev_res.to_qref()
                            res.stats["evaluated_result_exported"] += 1
                        except (BartiqCompilationError, BartiqPreprocessingError):
                            res.stats["export_own_error"] += 1
                        except _Timeout:
                            raise
                        except Exception as e:
                            res.violation("failing-input", f"exporting the evaluated result of a well-formed routine raised {type(e).__name__}",
                                          {"qref": case.qref, "assignments_in_order": list(asg.items()), "history": "compile, evaluate (all inputs numeric), to_qref"},
                                          repr(e)[:300], "a document")
                            return
                except (BartiqCompilationError, BartiqPreprocessingError):
                    res.stats["evaluate_own_error"] += 1
                except _Timeout:
                    # huge intermediate numbers (towers of powers) are slow, not divergent: retry with the smallest values
                    small = {n: 1 for n in asg}
                    signal.setitimer(signal.ITIMER_VIRTUAL, TIMEOUT_S)
                    try:
                        evaluate(cr, small)
                        res.stats["evaluate_slow_on_large_values"] += 1
                    except _Timeout:
                        res.violation("failing-input", f"evaluate did not terminate within {TIMEOUT_S}s even with every assigned value 1", {"qref": case.qref, "assignments_in_order": list(small.items())}, "timeout", "termination")
                        return
                    except Exception:
                        pass
                    finally:
                        signal.setitimer(signal.ITIMER_VIRTUAL, 0)
                except Exception as e:
                    res.violation("failing-input", f"evaluate raised {type(e).__name__} on a well-formed compiled routine", {"qref": case.qref, "assignments_in_order": list(asg.items())},
                                  repr(e)[:300], "a result or bartiq's own error")
                    return
                finally:
                    signal.setitimer(signal.ITIMER_VIRTUAL, 0)
            kinds = set()

            def scan(n, d=0):
                if n["repetition"]:
                    kinds.add(n["repetition"]["sequence"]["type"])
                    if E.fv(n["repetition"]["count"]):
                        kinds.add("symbolic-count")
                if d >= 3:
                    kinds.add("depth>=3")
                for c in n["children"]:
                    scan(c, d + 1)
            scan(case.spec)
            if kinds:
                res.nontrivial.append((case.seed, "wf", tuple(sorted(kinds))))
                for kx in kinds:
                    res.stats["wf_feature_" + kx] += 1
    # (i') every resource TYPE under every sequence KIND: the only child of a repeated routine is given one more resource of a type the
    # repetition cannot process (`qubits`, `other`), named so that it is listed before or after the others.  The outcome is the model's
    # (`processRepeatedResources`: `qubits` under a constant sequence is skipped, everything else is bartiq's own compilation error)
    if wf and case.status == "ok":
        spec2 = copy.deepcopy(case.spec)
        wrappers = []

        def find(n):
            if n["repetition"] and n["children"]:
                wrappers.append(n)
            for c in n["children"]:
                find(c)
        find(spec2)
        if wrappers:
            w = rng.choice(wrappers)
            ty, nm = rng.choice(["qubits", "qubits", "other"]), rng.choice(["AA_q", "zz_q"])
            only = w["children"][0]
            if only["repetition"] is None and not any(r["name"] == nm for r in only["resources"]):
                only["resources"].append({"name": nm, "type": ty, "value": E.num(rng.randint(1, 4))})
                c2 = pipeline.Case(case.seed, spec2).compile()
                kind = w["repetition"]["sequence"]["type"]
                res.stats[f"rep_type_table_{ty}_under_{kind}_{c2.status.split(':')[0]}"] += 1
                what = {"qref": c2.qref, "history": f"resource {nm} of type {ty} added to the only child of the repeated routine {w['name']} ({kind} sequence)"}
                if c2.status.startswith("internal"):
                    res.violation("failing-input", f"compile_routine raised {c2.status.split(':')[1]} on a well-formed routine whose repeated child has a resource of type {ty} ({kind} sequence)",
                                  what, repr(c2.err)[:300], "a result or bartiq's own compilation error")
                    return
                if c2.sexp is not None and c2.status in ("ok", "compilation"):
                    mr = model.run_driver(["compile 0 " + c2.sexp])[0]
                    ms = pipeline.model_status(mr)
                    res.stats["model_vs_impl_compared"] += 1
                    if not pipeline.same_status(c2.status, ms):
                        res.disagreement("compile_routine vs Bartiq.compile (outcome for a resource type under a sequence kind)", what, ms,
                                         c2.status + ((": " + str(c2.err)[:200]) if c2.err else ""))
                        return
    # (ii) faults (only on documents that are accepted without the fault)
    if case.status != "ok" or case.seed % 2:
        return
    lines, docs = [], []
    allf = list(faults(case.qref))
    if len(allf) > 14 and not (extra or {}).get("all_faults"):
        allf = rng.sample(allf, 14)
    for fi, (desc, d) in enumerate(allf):
        try:
            sch = schema(d)
        except Exception:
            res.stats["fault_rejected_by_schema"] += 1
            continue
        # the faulty document is handed over in every shape that is verified (objects and plain dicts, with and without the wrapper)
        fform = ("schema", "program", "dict", "rawdict", "rawprogram")[(case.seed + fi) % 5]
        res.stats["fault_form_" + fform] += 1
        desc = f"{desc} [input form: {fform}]"
        st, r = try_compile(d, form=fform)
        res.stats["faults_injected"] += 1
        res.stats["evaluations"] += 1
        if st != "compilation":
            res.violation("failing-input", f"fault not rejected with a compilation error ({desc}): outcome {st}", {"qref": d, "fault": desc}, str(r)[:300] if st != "ok" else "a result", "BartiqCompilationError")
            return
        if "before the compilation started" not in str(r):
            res.stats["fault_rejected_late"] += 1
        # history: the well-formed document OBJECT is compiled first, then edited in place into the faulty one and compiled again —
        # what was verified a moment ago says nothing about the object now
        if fi % 3 == 0:
            from ..real import compile_routine, exc_class as _exc

            for kind in ("schema-object", "plain-dict"):
                try:
                    good = schema(case.qref)
                    obj = good if kind == "schema-object" else good.model_dump()
                    compile_routine(obj)
                    if kind == "schema-object":
                        obj.program = sch.program
                    else:
                        obj.clear()
                        obj.update(sch.model_dump())
                except Exception:
                    res.stats["history_setup_failed"] += 1
                    continue
                try:
                    compile_routine(obj)
                    st3, r3 = "ok", None
                except Exception as e3:
                    st3, r3 = _exc(e3), e3
                res.stats["faults_after_a_successful_compile_of_the_same_object"] += 1
                if st3 != "compilation":
                    res.violation("failing-input", f"fault not rejected with a compilation error ({desc}) when the same {kind} was compiled successfully before being edited in place: outcome {st3}",
                                  {"qref": d, "fault": desc, "history": f"compile(well-formed {kind}); edit in place; compile(same object)", "original_qref": case.qref},
                                  str(r3)[:300] if st3 != "ok" else "a result", "BartiqCompilationError")
                    return
        if len(desc.split(" at ")[-1].split(".")) >= 2 or "." in desc.split(" at ")[-1]:
            res.nontrivial.append((case.seed, "fault", desc[:60]))
        st2, r2 = try_compile(d, skip_verification=True)
        res.stats["skip_verification_" + st2.split(":")[0]] += 1
        docs.append((desc, d, sch))
    # (iii) model of verification
    from ..routinegen import routine_sexp

    class _T(dict):
        def __missing__(self, k):
            import sympy

            return E.num(int(k)) if str(k).lstrip("-").isdigit() else E.sym("opaque")

    reqs = []
    for desc, d, sch in docs:
        try:
            reqs.append("compile 0 " + routine_sexp(sch.program, _T(case.tree_of)))
        except Exception:
            reqs.append(None)
    live = [r for r in reqs if r]
    if live:
        out = model.run_driver(live)
        it = iter(out)
        for (desc, d, sch), rq in zip(docs, reqs):
            if rq is None:
                continue
            r = next(it)
            res.stats["model_vs_impl_compared"] += 1
            ms = pipeline.model_status(r)
            if ms != "compilation":
                res.disagreement("verification: model accepts a fault the implementation rejects", {"qref": d, "fault": desc}, ms, "compilation")
    if case.seed % 41 == 0:
        res.samples.append({"qref": case.qref, "faults": [d for d, _, _ in docs][:5]})


def corpus(ctx):
    """F4, F12"""
    q = {"name": "root", "input_params": ["N", "m"], "linked_params": [{"source": "m", "targets": ["core.m"]}],
         "children": [{"name": "core", "input_params": ["m"], "resources": [{"name": "cost", "type": "multiplicative", "value": "m"}, {"name": "T", "type": "additive", "value": "m"}]}],
         "repetition": {"count": "N", "sequence": {"type": "custom", "term_expression": "i*m", "iterator_symbol": "i"}}}
    for doc in (q, {"name": "root", "children": [{"name": "core", "resources": [{"name": "T", "type": "additive", "value": 2}]}],
                    "repetition": {"count": 3, "sequence": {"type": "geometric", "ratio": 1}}}):
        st, r = try_compile(doc)
        ctx.stats["corpus_cases"] += 1
        if st.startswith("internal"):
            ctx.violation("failing-input", f"corpus: {st} escapes compile_routine", {"qref": doc}, repr(r)[:200], "result or bartiq error")


def run(ctx, widen=False):
    n = ctx.n(160, 6000) * (3 if widen else 1)
    ctx.notes.append("exceptions originating inside sympy cannot be derived from a model of bartiq; they are exercised by this stream only (partial)")
    ctx.rule = ("well-formed stream: trees to depth 4 with all five sequence kinds (75% symbolic parameters), compile + 3 evaluate calls each, per-call timeout; fault stream: "
                "on every second accepted document, every single fault (remove a connection, duplicate a source/target, close a cycle, break a repetition wrapper, put a "
                "repetition on a multi-child node) at every node; non-trivial = WF case with a repetition / symbolic count / depth>=3, or a fault below the root")
    corpus(ctx)
    base = ctx.seed * 1000003 + 13500000
    pipeline.run_stream(ctx, __name__, range(base, base + n), use_model=False, extra={"all_faults": ctx.thorough()})


def replay(payload):
    inp = payload["input"]
    st, r = try_compile(inp["qref"])
    print("compile:", st, (str(r)[:300] if st != "ok" else ""), "| recorded:", payload.get("what"))
    if st == "ok" and "assignments_in_order" in inp:
        try:
            evaluate(r.routine, dict(map(tuple, inp["assignments_in_order"])))
            print("evaluate ok")
        except Exception as e:
            print("evaluate raised", type(e).__name__, str(e)[:200])
    return 0
