"""C03 — subroutine-local names never capture or leak.

(1) R vs π•R: the parameters, local variables and port-size symbols of ONE node are renamed injectively onto the shared
name pool (clashes with ancestors/siblings/top-level inputs are the norm); both are compiled with the real code and every
resource and port size of every node must agree at random points modulo the renaming of promoted top-level inputs.
(2) evaluate with assignments whose values mention other assigned names: the result must be the simultaneous
substitution (an assigned value is never substituted again)."""
from __future__ import annotations

import copy
import random
from fractions import Fraction

from .. import compare, expr as E, pipeline, refsem, routinegen as G
from ..real import evaluate, sympy_backend, try_compile, walk

LEVEL = "proof"


def gen(seed, extra):
    rng = random.Random(seed)
    return G.gen_routine(rng, G.Opts(**(extra or {})))


def declared(n):
    d = list(n["input_params"]) + [v for v, _ in n["local_variables"]]
    for p in n["ports"]:
        if p["direction"] != "output" and p["size"] is not None and p["size"][0] == "sym" and p["size"][1] not in d:
            d.append(p["size"][1])
    return d


def rename_node(spec, path, pi):
    """π•R: apply pi (dict old->new) to everything that belongs to the node at `path`"""
    spec = copy.deepcopy(spec)
    parent, n = None, spec
    for p in path:
        parent, n = n, next(c for c in n["children"] if c["name"] == p)
    sig = {o: E.sym(nw) for o, nw in pi.items()}

    def rn(t):
        return None if t is None else E.subst(t, sig)

    n["input_params"] = [pi.get(x, x) for x in n["input_params"]]
    n["local_variables"] = [(pi.get(v, v), rn(t)) for v, t in n["local_variables"]]
    for p in n["ports"]:
        p["size"] = rn(p["size"])
    for r in n["resources"]:
        r["value"] = rn(r["value"])
    n["linked_params"] = [(pi.get(s, s), ts) for s, ts in n["linked_params"]]
    if n["repetition"]:
        rep = n["repetition"]
        rep["count"] = rn(rep["count"])
        bound = {rep["sequence"].get("num_terms_symbol"), rep["sequence"].get("iterator_symbol")} - {None}
        sig_free = {o: t for o, t in sig.items() if o not in bound}      # bound names of the formula are not names of the node
        for k, v in list(rep["sequence"].items()):
            if isinstance(v, tuple):
                rep["sequence"][k] = E.subst(v, sig_free)
    # links of ancestors that target this node's parameters
    node = spec
    for depth in range(len(path)):
        rest = ".".join(path[depth:])
        node["linked_params"] = [(s, [(pth, pi.get(prm, prm) if pth == rest else prm) for (pth, prm) in ts]) for s, ts in node["linked_params"]]
        node = next(c for c in node["children"] if c["name"] == path[depth])
    return spec


def nodes(spec, path=()):
    yield path, spec
    for c in spec["children"]:
        yield from nodes(c, path + (c["name"],))


def oracle(case, res, extra):
    if case.status != "ok":
        return
    spec, cr = case.spec, case.result.routine
    rng = random.Random(case.seed * 11 + 7)
    # ---- (1) renaming
    cands = [(p, n) for p, n in nodes(spec) if declared(n)]
    clash = False
    if cands:
        # prefer a node that spells one of its own names like a name an ancestor declares (the clause "names already used by
        # ancestors"): renaming it away must change nothing
        byp = {tuple(p): n for p, n in nodes(spec)}
        shadowing = []
        for p, n in cands:
            anc = set()
            for k in range(len(p)):
                anc |= set(declared(byp[tuple(p[:k])]))
            if anc & set(declared(n)):
                shadowing.append((p, n))
        path, n = rng.choice(shadowing) if shadowing and rng.random() < 0.7 else rng.choice(cands)
        if shadowing:
            res.stats["rename_node_shadows_ancestor_name"] += 1
        D = declared(n)
        seqsyms = set()
        if n["repetition"]:
            sq = n["repetition"]["sequence"]
            seqsyms = {sq.get("num_terms_symbol"), sq.get("iterator_symbol")} - {None}
        pool = [x for x in G.POOL + ["S", "W", "z"] if x not in seqsyms]
        targets = rng.sample(pool, len(D)) if len(D) <= len(pool) else None
        if targets:
            pi = dict(zip(D, targets))
            others = set()
            for p2, n2 in nodes(spec):
                if p2 != path:
                    others |= set(declared(n2))
            others |= set(refsem.top_level_inputs(spec))
            clash = bool(set(pi.values()) & others)
            spec2 = rename_node(spec, list(path), pi)
            R2 = G.Rendered()
            q2 = G.to_qref(spec2, R2)
            st2, r2 = try_compile(q2)
            res.stats["rename_pairs"] += 1
            if st2 != "ok":
                res.violation("failing-input", f"renaming the names of node {'.'.join(path) or 'root'} by {pi} turns a compilable routine into {st2}",
                              {"qref": case.qref, "renamed_qref": q2, "pi": pi}, str(r2)[:300], "ok")
                return
            t1, t2 = refsem.top_level_inputs(spec), refsem.top_level_inputs(spec2)
            rename = dict(zip(t1, t2))
            diffs = compare.trees_equal_real(cr, r2.routine, rng, rename, constraints=False)
            if diffs:
                res.violation("failing-input", f"renaming the names of node {'.'.join(path) or 'root'} by {pi} changes a compiled value: {diffs[0][:2]}",
                              {"qref": case.qref, "renamed_qref": q2, "pi": pi}, [str(x)[:200] for x in diffs[0]], "equal modulo renaming of promoted inputs")
                return
            if clash:
                res.nontrivial.append((case.seed, "rename-clash"))
                res.stats["rename_with_clash"] += 1
    # ---- (1b) alpha-renaming of a sequence's bound name (closed-form placeholder / custom iterator) onto a name of the shared
    # pool that is used elsewhere in the hierarchy: bound names do not matter, so every compiled value must stay the same
    bcands = [(p, n) for p, n in nodes(spec) if n["repetition"] and n["repetition"]["sequence"]["type"] in ("closed_form", "custom")]
    if bcands:
        bpath, bn = rng.choice(bcands)
        sq = bn["repetition"]["sequence"]
        key = "num_terms_symbol" if sq["type"] == "closed_form" else "iterator_symbol"
        old = sq[key]
        flds = [k for k in ("sum", "prod", "term_expression") if isinstance(sq.get(k), tuple)]
        avoid = set(declared(bn)) | {old}
        for k in flds:
            avoid |= E.fv(sq[k])
        pool = [x for x in G.POOL + ["S", "W", "z"] if x not in avoid]
        if pool:
            new = rng.choice(pool)
            spec3 = copy.deepcopy(spec)
            n3 = spec3
            for p_ in bpath:
                n3 = next(c for c in n3["children"] if c["name"] == p_)
            sq3 = n3["repetition"]["sequence"]
            sq3[key] = new
            for k in flds:
                sq3[k] = E.subst(sq3[k], {old: E.sym(new)})
            q3 = G.to_qref(spec3, G.Rendered())
            st3, r3 = try_compile(q3)
            res.stats["bound_name_renamings"] += 1
            if st3 != "ok":
                # the one legitimate refusal: an iterator that is spelled like a symbol being substituted (F8-style guard)
                if not (sq["type"] == "custom" and "iterator symbol" in str(r3)):
                    res.violation("failing-input", f"renaming the bound name {old} of the sequence of {'.'.join(bpath) or 'root'} to {new} turns a compilable routine into {st3}",
                                  {"qref": case.qref, "renamed_qref": q3, "bound": {old: new}}, str(r3)[:300], "ok")
                    return
                res.stats["bound_name_renaming_refused_iterator_guard"] += 1
            else:
                diffs = compare.trees_equal_real(cr, r3.routine, rng, None, constraints=False)
                if diffs:
                    res.violation("failing-input", f"renaming the bound name {old} of the sequence of {'.'.join(bpath) or 'root'} to {new} changes a compiled value: {diffs[0][:2]}",
                                  {"qref": case.qref, "renamed_qref": q3, "bound": {old: new}}, [str(x)[:200] for x in diffs[0]], "equal: bound names do not matter")
                    return
                others = set(refsem.top_level_inputs(spec))
                for p2, n2 in nodes(spec):
                    others |= set(declared(n2))
                if new in others:
                    res.nontrivial.append((case.seed, "bound-name-clash"))
                    res.stats["bound_name_renaming_with_clash"] += 1
    # ---- (2) evaluate: values mentioning other keys
    names = list(cr.input_params)
    if len(names) >= 2:
        keys = rng.sample(names, min(len(names), rng.randint(2, 3)))
        sigma_t = {}
        for kx in keys:
            other = [x for x in names if x != kx]
            sigma_t[kx] = E.bin_("+", E.sym(rng.choice(other)), E.num(rng.randint(1, 3))) if rng.random() < 0.8 else E.num(rng.randint(2, 5))
        items = list(sigma_t.items())
        rng.shuffle(items)
        asg = {kx: (int(v[1]) if v[0] == "num" else E.to_str(v)) for kx, v in items}
        mentions = any(E.fv(v) & set(keys) for v in sigma_t.values())
        try:
            ev = evaluate(cr, asg).routine
        except Exception as e:
            res.stats["evaluate_raised_" + type(e).__name__] += 1
            return
        res.stats["evaluate_cases"] += 1
        for (path, a), (_, b) in zip(walk(cr), walk(ev)):
            for rn_, r in a.resources.items():
                # reference: value of the original at rho' = rho after sigma  ==  value of the evaluated at rho
                for _ in range(2):
                    rho = {x: Fraction(rng.randint(2, 9)) for x in names}
                    salt = rng.randint(0, 10**6)
                    try:
                        rho2 = dict(rho)
                        for kx, v in sigma_t.items():
                            rho2[kx] = E.ev(v, rho, salt)
                        exp = E.sympy_ev(r.value, rho2, salt)
                        got = E.sympy_ev(b.resources[rn_].value, dict(rho), salt)
                    except (E.Undefined, OverflowError, KeyError):
                        continue
                    if not compare.close(got, exp, True):
                        res.violation("failing-input", f"evaluate substituted an assigned value again (or not at all) in {'.'.join(path) or 'root'}.{rn_}",
                                      {"qref": case.qref, "assignments_in_order": list(asg.items())},
                                      {"evaluated": str(b.resources[rn_].value), "value": got}, exp)
                        return
        if mentions:
            res.nontrivial.append((case.seed, "assignment-mentions-key"))
            res.stats["assignment_mentions_other_key"] += 1
    if case.seed % 73 == 0:
        res.samples.append({"qref": case.qref})


def corpus(ctx):
    """minimised past failures (F1, F11)"""
    q = {"name": "root", "input_params": ["N", "M"],
         "children": [{"name": "a", "input_params": ["N", "M"], "resources": [{"name": "x", "type": "additive", "value": "N+2*M"}]}],
         "linked_params": [{"source": "M", "targets": ["a.N"]}, {"source": "N", "targets": ["a.M"]}]}
    st, r = try_compile(q)
    ctx.stats["corpus_cases"] += 1
    if st == "ok":
        v = r.routine.children["a"].resources["x"].value
        got = E.sympy_ev(v, {"N": Fraction(3), "M": Fraction(5)})
        if got != 5 + 2 * 3:
            ctx.violation("failing-input", "corpus: cross links M->a.N, N->a.M capture each other", {"qref": q}, str(v), "M + 2*N")
    q2 = {"name": "root", "input_params": ["N", "M"], "resources": [{"name": "x", "type": "additive", "value": "N*M+1"}]}
    st, r = try_compile(q2)
    if st == "ok":
        for asg in ({"N": "M+1", "M": 3}, {"M": 3, "N": "M+1"}):
            v = evaluate(r.routine, asg).routine.resources["x"].value
            got = E.sympy_ev(v, {"M": Fraction(7), "N": Fraction(100)})
            if got != (7 + 1) * 3 + 1:
                ctx.violation("failing-input", "corpus: assigned value M+1 was substituted again", {"qref": q2, "assignments_in_order": list(asg.items())}, str(v), "3*M + 4")


def corpus_f18(ctx):
    """F18: the bound placeholder of a closed form is spelled like a parameter of the wrapper (count 5, sum N*(N+1)/2, N := 2*K): the
    compiled repetition keeps the formula in its placeholder — at placeholder = count it gives the total 15, whatever K is"""
    q = {"name": "root", "input_params": ["K"], "local_variables": {"L": "2*K"}, "linked_params": [{"source": "L", "targets": ["loop.N"]}],
         "children": [{"name": "loop", "input_params": ["N"], "children": [{"name": "core", "resources": [{"name": "T", "type": "additive", "value": 3}]}],
                       "repetition": {"count": 5, "sequence": {"type": "closed_form", "sum": "N*(N+1)/2", "num_terms_symbol": "N"}}}]}
    st, r = try_compile(q)
    ctx.stats["corpus_cases"] += 1
    if st != "ok":
        ctx.violation("failing-input", f"corpus F18: {st}", {"qref": q}, str(r)[:200], "ok")
        return
    rep = r.routine.children["loop"].repetition
    try:
        tot = E.sympy_ev(rep.sequence.sum, {str(rep.sequence.num_terms_symbol): Fraction(5), "K": Fraction(4), "N": Fraction(5)})
    except Exception as e:
        tot = f"{type(e).__name__}: {e}"
    if str(rep.sequence.num_terms_symbol) != "N" or tot != 15 or E.sympy_ev(r.routine.resources["T"].value, {"K": Fraction(4)}) != 45:
        ctx.violation("failing-input", "corpus F18: a wrapper parameter spelled like the bound placeholder of its closed form was substituted into the formula",
                      {"qref": q}, {"sum": str(rep.sequence.sum), "num_terms_symbol": str(rep.sequence.num_terms_symbol), "sum at placeholder=count": str(tot)},
                      {"sum": "N*(N + 1)/2", "num_terms_symbol": "N", "sum at placeholder=count": 15})


def run(ctx, widen=False):
    n = ctx.n(300, 8000) * (3 if widen else 1)
    ctx.rule = ("(R, pi.R) pairs: pi renames the parameters/locals/port symbols of one random node injectively onto the pool N,M,K,L,x,y,S,W,z shared by "
                "all scopes; plus evaluate with 2-3 assignments whose values mention other names; non-trivial = pi maps onto a name used elsewhere in the "
                "hierarchy, or an assigned value mentions another assigned key; distinct (seed, kind)")
    base = ctx.seed * 1000003 + 4500000
    pipeline.run_stream(ctx, __name__, range(base, base + n))
    # second family: repetition wrappers with closed-form / custom sequences below the root, parameters handed down through links
    pipeline.run_stream(ctx, __name__, range(base + 90000, base + 90000 + n // 2),
                        extra={"p_rep": 0.6, "rep_kinds": ["closed_form", "closed_form", "custom", "arithmetic"], "p_placeholder_clash": 0.5,
                               "p_deep_link": 0.5, "symbolic_rep": 0.9})
    # third family: one source forwarded to several parameters nested inside the same child, whose own port-size symbols are often
    # spelled like that source and are used in its resources (names an ancestor forwards THROUGH a routine vs the routine's own names)
    pipeline.run_stream(ctx, __name__, range(base + 130000, base + 130000 + n // 2),
                        extra={"p_multi_deep_link": 0.9, "p_port_sym_in_resource": 0.9, "p_deep_link": 0.5, "max_depth": 3,
                               "size_thresholds": (0.2, 0.75, 0.85)})
    corpus(ctx)
    corpus_f18(ctx)


def replay(payload):
    inp = payload["input"]
    st, r = try_compile(inp["qref"])
    print("compile original:", st, "| recorded:", payload.get("what"))
    if "renamed_qref" in inp:
        st2, r2 = try_compile(inp["renamed_qref"])
        print("compile renamed:", st2)
        if st == "ok" and st2 == "ok":
            for (p, a), (_, b) in zip(walk(r.routine), walk(r2.routine)):
                for rn_ in a.resources:
                    print(".".join(p) or "root", rn_, "|", a.resources[rn_].value, "|", b.resources[rn_].value)
    if "assignments_in_order" in inp and st == "ok":
        ev = evaluate(r.routine, dict(inp["assignments_in_order"])).routine
        for p, a in walk(ev):
            for rn_, x in a.resources.items():
                print(".".join(p) or "root", rn_, "=", x.value)
    return 0
