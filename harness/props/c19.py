"""C19 — Big-O analysis returns the dominant power.

Polynomials of degree 0..6 in a chosen variable are built from coefficient lists the harness knows (numeric, symbolic,
cancelling, containing log(a)), presented expanded, in Horner form and as unexpanded products; `BigO(expr, x)` must be
O(x**deg) with deg the highest power whose coefficient is not identically zero; constants give O(1)."""
from __future__ import annotations

import itertools
import random

from ..real import sympy_backend as B  # noqa: F401  (asserts the import path)

LEVEL = "proof"


def coeff_pool():
    import sympy

    a, b = sympy.symbols("a b")
    return [(sympy.Integer(0), True), (sympy.Integer(1), False), (sympy.Integer(-2), False), (a, False), (a - a, True), (sympy.log(a) + 1, False),
            (a * b, False), (sympy.Rational(1, 3), False), (b - 2, False), ((a + 1) ** 2 - a**2 - 2 * a - 1, True),
            # numeric coefficients of every kind sympy has: floats of both signs and of magnitude below and above 1, negative rationals
            (sympy.Float(-0.5), False), (sympy.Float(0.25), False), (sympy.Float(-0.125) * a, False), (sympy.Float(2.5), False),
            (sympy.Float(-3.75), False), (sympy.Rational(-1, 2), False), (sympy.Float(-0.4) * a * b, False),
            # coefficients with another symbol in a denominator
            (1 / a, False), (b / a, False), (1 / (a + 1), False), (3 / (a * b), False)]


def expected_of(deg):
    import sympy

    x = sympy.Symbol("x")
    O = sympy.Function("O")
    return O(x**deg) if deg > 0 else O(1)


def check(ctx, expr, deg, form, coeffs):
    import sympy
    from bartiq.analysis import BigO

    x = sympy.Symbol("x")
    ctx.stats["evaluations"] += 1
    try:
        got = BigO(expr, x).expr
    except Exception as e:
        ctx.violation("failing-input", f"BigO raised {type(e).__name__} on a polynomial ({form})", {"expression": str(expr), "variable": "x", "coefficients_low_to_high": [str(c) for c in coeffs]},
                      str(e)[:200], str(expected_of(deg)))
        return False
    exp = expected_of(deg)
    if got != exp:
        ctx.violation("failing-input", f"BigO of a degree-{deg} polynomial in x ({form}) is {got}", {"expression": str(expr), "variable": "x", "coefficients_low_to_high": [str(c) for c in coeffs]},
                      str(got), str(exp))
        return False
    return True


def forms(coeffs, rng):
    import sympy

    x = sympy.Symbol("x")
    expanded = sum((c * x**i for i, c in enumerate(coeffs)), sympy.Integer(0))
    yield "expanded", expanded
    h = sympy.Integer(0)
    for c in reversed(coeffs):
        h = sympy.Add(sympy.Mul(h, x, evaluate=False) if h != 0 else 0, c)
    yield "horner", h
    yield "shifted", sympy.expand(expanded.subs(x, x + 1)).subs(x, x - 1) if False else expanded + (x + 1) ** 2 - x**2 - 2 * x - 1


def run(ctx, widen=False):
    import sympy

    rng = ctx.rng
    ctx.rule = ("coefficient lists over a 17-value pool (0, 1, -2, a, a-a, log(a)+1, a*b, 1/3, b-2, an identically-zero combination, floats -0.5 0.25 2.5 -3.75, -0.125a, -0.4ab, -1/2) for degree 0..4|6: exhaustive over a "
                "5-value sub-pool for degree<=3|4, random beyond; each in expanded, Horner and padded-with-cancelling-terms form, plus unexpanded (x+1)^k products; "
                "non-trivial = leading listed coefficient is identically zero (true degree lower than the list length) or a coefficient is symbolic")
    pool = coeff_pool()
    x = sympy.Symbol("x")
    small = pool[:5]
    maxdeg = 4 if ctx.thorough() else 3
    for d in range(0, maxdeg + 1):
        for combo in itertools.product(small, repeat=d + 1):
            coeffs = [c for c, _ in combo]
            zero = [z for _, z in combo]
            deg = max([i for i, z in enumerate(zero) if not z], default=0)
            if all(zero):
                continue   # the zero polynomial has no degree; BigO(0) is outside the statement
            for form, e in forms(coeffs, rng):
                if not e.free_symbols and deg > 0:
                    continue
                if x not in sympy.sympify(e).free_symbols and deg > 0:
                    continue
                if not check(ctx, e, deg, form, coeffs):
                    return
            if zero[-1] or any(c.free_symbols for c in coeffs):
                ctx.nontrivial(tuple(str(c) for c in coeffs))
    ctx.exhaustive = True
    for i in range(ctx.n(600, 20000)):
        d = rng.randint(0, 6)
        combo = [rng.choice(pool) for _ in range(d + 1)]
        coeffs = [c for c, _ in combo]
        zero = [z for _, z in combo]
        if all(zero):
            continue
        deg = max(i for i, z in enumerate(zero) if not z)
        for form, e in forms(coeffs, rng):
            if x not in sympy.sympify(e).free_symbols and deg > 0:
                continue
            if not check(ctx, e, deg, form, coeffs):
                return
        if zero[-1] or any(c.free_symbols for c in coeffs):
            ctx.nontrivial(tuple(str(c) for c in coeffs))
        if i % 150 == 0:
            ctx.sample({"coefficients_low_to_high": [str(c) for c in coeffs], "degree": deg})
    a = sympy.Symbol("a")
    for k in range(1, 7):
        for e, deg in (((x + 1) ** k, k), ((x + a) ** k * (x - 2), k + 1), (sympy.Integer(7), 0), (a + 3, 0), (sympy.log(a) * x**k + x, k), ((2 * x + 1) ** k - (2 * x) ** k, k - 1)):
            if deg == 0 and x in sympy.sympify(e).free_symbols:
                pass
            if not check(ctx, e, deg, "product", [e]):
                return
            ctx.nontrivial(("product", str(e)))
    # the variable of interest may be any sympy symbol: with assumptions, a Dummy, a dotted or port-style name
    from bartiq.analysis import BigO

    O = sympy.Function("O")
    for var in (sympy.Symbol("N", positive=True), sympy.Symbol("N", integer=True), sympy.Symbol("n", real=True, nonnegative=True),
                sympy.Dummy("N"), sympy.Symbol("a.b.N"), sympy.Symbol("#in_0"),
                # … or a symbol whose NAME is also the name of a constant, a function or a sympy singleton (a symbol is a symbol)
                sympy.Symbol("E"), sympy.Symbol("e"), sympy.Symbol("pi"), sympy.Symbol("oo"), sympy.Symbol("I"), sympy.Symbol("O"),
                sympy.Symbol("log"), sympy.Symbol("lambda"), sympy.Symbol("infinity"), sympy.Symbol("S"), sympy.Symbol("gamma")):
        for deg in range(0, 5):
            expr = sum(((i + 2) * a**(i % 2) * var**i for i in range(deg + 1)), sympy.Integer(0))
            ctx.stats["evaluations"] += 1
            try:
                got = BigO(expr, var).expr
            except Exception as e:
                ctx.violation("failing-input", f"BigO raised {type(e).__name__} for the variable {sympy.srepr(var)}", {"expression": sympy.srepr(expr), "variable": sympy.srepr(var)}, str(e)[:200], "O(var**deg)")
                return
            exp = O(var**deg) if deg > 0 else O(1)
            if got != exp:
                ctx.violation("failing-input", f"BigO of a degree-{deg} polynomial in the variable {sympy.srepr(var)} is {got}",
                              {"expression": sympy.srepr(expr), "variable": sympy.srepr(var)}, str(got), str(exp))
                return
            ctx.nontrivial(("variable-kind", sympy.srepr(var), deg))
    model_correspondence(ctx)


def model_correspondence(ctx):
    """`_get_leading_terms` (the real function, on sympy Poly objects in 1-3 generators) vs the Lean `leadingTerms` on the
    exponent vectors `Poly.terms()` lists; also records whether the univariate lists are strictly decreasing (the contract the
    theorem C19_univariate assumes)"""
    import sympy
    from bartiq.analysis import _get_leading_terms

    from .. import model

    rng = ctx.rng
    gens_all = sympy.symbols("x y z")
    reqs, impl, inputs = [], [], []
    for i in range(ctx.n(400, 6000)):
        ng = rng.choice([1, 1, 2, 3])
        gens = gens_all[:ng]
        nterms = rng.randint(1, 6)
        e = sympy.Integer(0)
        for _ in range(nterms):
            e += rng.choice([1, 2, -3, sympy.Symbol("a")]) * sympy.prod([g ** rng.randint(0, 4) for g in gens])
        if rng.random() < 0.3:
            e = e * (gens[0] + 1) ** rng.randint(1, 2)
        try:
            poly = sympy.Poly(e, *gens)
        except Exception:
            continue
        if poly.is_zero:
            continue
        terms = [t for t, _ in poly.terms()]
        if ng == 1:
            ctx.stats["univariate_term_lists"] += 1
            if any(a[0] <= b[0] for a, b in zip(terms, terms[1:])):
                ctx.disagreement("Poly.terms() lists univariate exponents in strictly decreasing order (contract of C19_univariate)", {"expression": str(e)}, "decreasing", str(terms))
        lead = _get_leading_terms(poly)
        impl.append(sorted(tuple(sympy.Poly(t, *gens).monoms()[0]) for t in lead))
        reqs.append("leading " + " ".join("(" + " ".join(map(str, t)) + ")" for t in terms))
        inputs.append((str(e), [str(g) for g in gens]))
    for (es, gs), rq, im, r in zip(inputs, reqs, impl, model.run_driver(reqs)):
        ctx.stats["model_vs_impl_compared"] += 1
        mv = sorted(tuple(int(v) for v in t) for t in r[1]) if r[0] == "ok" else r
        if mv != im:
            ctx.disagreement("_get_leading_terms vs Bartiq.leadingTerms", {"expression": es, "generators": gs, "request": rq}, str(mv), str(im))
        elif len(im) > 1:
            ctx.stats["model_vs_impl_multivariate_several_terms"] += 1


def replay(payload):
    import sympy
    from bartiq.analysis import BigO

    inp = payload["input"]
    e = sympy.sympify(inp["expression"])
    print("recorded:", payload.get("what"))
    print("BigO =", BigO(e, sympy.Symbol("x")).expr)
    return 0
