"""C11 — the expression language means standard arithmetic.

Search on the real parser: strings are produced from trees the harness knows (minimal-parenthesis rendering by the
standard grammar, random redundant parentheses, and *flat* operator sequences read by the harness' own
precedence-climbing reader), parsed with `sympy_backend.as_expression`, and the value at rational points (negative
operands included) is compared with the exact value of the tree.  Exhaustive: every pair and triple of binary operators
with unary minus in every position.  Correspondence: the Lean lexer/parser/interp on the same strings."""
from __future__ import annotations

import itertools
import random
import warnings
from fractions import Fraction

from .. import compare, expr as E, model
from ..real import sympy_backend as B

LEVEL = "proof"
BINOPS = ["+", "-", "*", "/", "//", "%", "**", "^"]
PREC = {"+": 1, "-": 1, "*": 2, "/": 2, "//": 2, "%": 2}


def read_flat(tokens):
    """The standard reading (usual precedence, left-associative + - * / // %, right-associative power binding tighter than
    a unary sign on its left and admitting a signed exponent) of a token list; independent of bartiq and of `ast`."""
    pos = 0

    def peek():
        return tokens[pos] if pos < len(tokens) else None

    def take():
        nonlocal pos
        pos += 1
        return tokens[pos - 1]

    def atom():
        t = take()
        if t == "(":
            e = expr(1)
            assert take() == ")"
            return e
        if isinstance(t, tuple):
            return t
        raise ValueError(t)

    def power():
        a = atom()
        if peek() in ("**", "^"):
            take()
            return E.bin_("**", a, factor())
        return a

    def factor():
        if peek() == "-":
            take()
            return E.neg(factor())
        return power()

    def expr(minp):
        left = factor()
        while peek() in PREC and PREC[peek()] >= minp:
            op = take()
            right = expr(PREC[op] + 1)
            left = E.bin_(op, left, right)
        return left

    e = expr(1)
    assert pos == len(tokens), tokens
    return e


def tok_str(tokens):
    out = []
    for t in tokens:
        if isinstance(t, tuple):
            out.append(E.to_str(t) if t[0] != "num" or t[1] >= 0 else f"({E.to_str(t)})")
        else:
            out.append(t)
    return " ".join(out)


def points_for(tree, rng, k=5):
    names = sorted(E.fv(tree))
    pts = []
    for _ in range(k):
        pts.append({n: Fraction(rng.choice([-3, -2, -1, 1, 2, 3, 4, 5]), rng.choice([1, 1, 1, 2, 3])) for n in names})
    for _ in range(k):
        pts.append({n: Fraction(rng.choice([-3, -2, -1, 1, 2, 3])) for n in names})
    return pts


def known_family(tree):
    """does the expression contain a `//` whose two operands the real parser reduces to literals, or a `%` whose operands share
    a symbol after the real parser's simplification?  (the operand texts are parsed on their own by the real parser)"""
    found = []

    def rec(t):
        if t[0] == "bin":
            rec(t[2]); rec(t[3])
            if t[1] in ("//", "%"):
                try:
                    with warnings.catch_warnings():
                        warnings.simplefilter("ignore")
                        a, b = B.as_expression(E.to_str_full(t[2])), B.as_expression(E.to_str_full(t[3]))
                    fa = set() if isinstance(a, (int, float)) else {str(x) for x in a.free_symbols}
                    fb = set() if isinstance(b, (int, float)) else {str(x) for x in b.free_symbols}
                    if t[1] == "//" and not fa and not fb:
                        found.append("floordiv-literal-negative-quotient")
                    if t[1] == "%" and fa & fb:
                        found.append("mod-common-symbol-negative-factor")
                except Exception:
                    pass
        elif t[0] == "neg":
            rec(t[1])
        elif t[0] == "app":
            for x in t[2]:
                rec(x)
    rec(tree)
    return found[0] if found else None


def check_string(ctx, s, tree, rng, what, power="**"):
    ctx.stats["evaluations"] += 1
    with warnings.catch_warnings():
        warnings.simplefilter("ignore")
        try:
            got = B.as_expression(s)
        except Exception as e:
            defined = False
            for env in points_for(tree, rng):
                try:
                    E.ev(tree, env)
                    defined = True
                    break
                except (E.Undefined, OverflowError, ZeroDivisionError):
                    pass
            if not defined:
                ctx.stats["undefined_everywhere_skipped"] += 1   # e.g. a literal division by zero: no standard reading exists
                return None
            ctx.violation("failing-input", f"{what}: the parser rejects a string of the grammar ({type(e).__name__})", {"expression": s}, str(e)[:200], E.to_str_full(tree))
            return None
    if not isinstance(got, (int, float)):
        import sympy as _sp

        if got.has(_sp.re, _sp.im, _sp.arg):
            # sympy rewrites Abs of a symbolic power into exp/log/re/im/arg of its parts: a complex decomposition of a real-valued
            # expression that the exact rational evaluator cannot follow (the same exclusion as in C12)
            ctx.stats["complex_decomposition_skipped"] += 1
            return None
    fr = E.sympy_fv(got)
    if not fr <= E.fv(tree):
        ctx.violation("failing-input", f"{what}: parsed expression mentions symbols {sorted(fr - E.fv(tree))} that are not in the string", {"expression": s}, str(got), E.to_str_full(tree))
        return None
    decided = 0
    for env in points_for(tree, rng):
        salt = rng.randint(0, 10**6)
        try:
            exp = E.ev(tree, env, salt)
        except (E.Undefined, OverflowError, ZeroDivisionError):
            continue
        try:
            val = E.sympy_ev(got, dict(env), salt)
        except (E.Undefined, OverflowError, ZeroDivisionError):
            ctx.stats["impl_undefined_where_reading_defined"] += 1
            continue
        decided += 1
        if not compare.close(val, exp, compare.has_float(got)):
            # the two listed sympy findings also arise when sympy's own simplification turns the operands of `//` into literals
            # (a.b // a.b // (-(1/2)) -> 1 // (-1/2)) or gives the operands of `%` a common symbol: same witness families
            wid = known_family(tree)
            ctx.violation("failing-input", f"{what}: value differs from the standard mathematical reading", {"expression": s, "point": env},
                          {"parsed": str(got), "value": val}, {"reading": E.to_str_full(tree), "value": exp}, witness_id=wid)
            if wid is not None:
                ctx.stats["known_family_" + wid] += 1
                return None
            return None
    if decided:
        ctx.stats["strings_decided"] += 1
    return got


def enumerate_operators(ctx, rng):
    a, b, c, d = E.sym("a"), E.sym("b"), E.sym("c"), E.sym("d")
    lit = E.num(2)
    n = 0
    # pairs and triples, unary minus on every operand position (incl. exponents and bases)
    for k in (2, 3):
        operands = [a, b, c, d][: k + 1]
        for ops in itertools.product(BINOPS, repeat=k):
            for negs in itertools.product([0, 1], repeat=k + 1):
                if k == 3 and sum(negs) > 1 and not ctx.thorough():
                    continue
                toks = []
                for i, x in enumerate(operands):
                    if negs[i]:
                        toks.append("-")
                    toks.append(x if (i + sum(negs)) % 3 else (lit if i == k else x))
                    if i < k:
                        toks.append(ops[i])
                tree = read_flat(["**" if t == "^" and False else t for t in toks])
                s = tok_str(toks)
                check_string(ctx, s, tree, rng, "operator table")
                n += 1
                if ctx.violations:
                    return n
                ctx.nontrivial(("ops", ops, negs))
    # parenthesised variants of every pair
    for ops in itertools.product(BINOPS, repeat=2):
        for shape in (0, 1):
            toks = ["(", a, ops[0], b, ")", ops[1], c] if shape == 0 else [a, ops[0], "(", b, ops[1], c, ")"]
            tree = read_flat(toks)
            check_string(ctx, tok_str(toks), tree, rng, "operator table (parenthesised)")
            n += 1
            if ctx.violations:
                return n
    ctx.stats["operator_table_strings"] = n
    return n


def identifiers(ctx, rng):
    names = ["#p", "a.#p", "a.b.x", "lambda", "in", "in_0", "lambda_x", "x_lambda", "inx", "xin", "a.in", "a.lambda", "in.x", "lambda.x",
             "#in", "#lambda", "a.#in_0", "a.b.#out_1", "Lambda", "IN", "_in", "in_", "lambda1", "lambda_", "_lambda", "a.in.b", "not_in", "b.lambda_2",
             "N", "x1", "_x", "x_", "a1.b2.c3",
             # names spelled like the words Python's float() accepts: they are ordinary parameter names
             "inf", "nan", "Inf", "NaN", "infinity", "a.inf", "#nan", "inf_0",
             # reserved words in every position of a port reference
             "in.#out", "lambda.#out", "top.in.#out", "a.lambda.#p", "a.b.#lambda", "a.#in", "in.lambda.#in"]
    import sympy

    for nm in names:
        ctx.stats["evaluations"] += 1
        try:
            got = B.as_expression(nm)
        except Exception as e:
            ctx.violation("failing-input", f"identifier {nm!r} is rejected by the parser ({type(e).__name__})", {"expression": nm}, str(e)[:200], f"Symbol({nm})")
            return
        if not (isinstance(got, sympy.Symbol) and str(got) == nm):
            ctx.violation("failing-input", f"identifier {nm!r} is not read as a single symbol of that name", {"expression": nm}, repr(got), f"Symbol({nm})")
            return
        ctx.nontrivial(("ident", nm))
    # identifiers in operator contexts, adjacent occurrences, every position
    for nm in names:
        for other in ("lambda", "in", "x", "#q"):
            for tmpl in ("{a} + {b}", "{a}*{b}", "{a} ** 2 - {b}", "f({a}, {b})", "({a})/({b})", "{a}+{a}", "{a}*{a}*{b}", "-{a} // {b}", "max({a},{b})", "2*{a}-{b}%{a}"):
                s = tmpl.format(a=nm, b=other)
                tree = None
                try:
                    toks = []
                except Exception:
                    pass
                ctx.stats["evaluations"] += 1
                try:
                    with warnings.catch_warnings():
                        warnings.simplefilter("ignore")
                        got = B.as_expression(s)
                except Exception as e:
                    ctx.violation("failing-input", f"expression with identifier {nm!r} is rejected ({type(e).__name__})", {"expression": s}, str(e)[:200], "parsed")
                    return
                fs = E.sympy_fv(got)
                want = {nm, other}
                if not fs <= want or (nm not in fs and tmpl not in ("{a}+{a}",) and False):
                    ctx.violation("failing-input", f"identifiers of {s!r} are not read as the single symbols {sorted(want)}", {"expression": s}, sorted(fs), sorted(want))
                    return
                # value check through the template read by the harness
                ta, tb = E.sym(nm), E.sym(other)
                trees = {"{a} + {b}": E.bin_("+", ta, tb), "{a}*{b}": E.bin_("*", ta, tb), "{a} ** 2 - {b}": E.bin_("-", E.bin_("**", ta, E.num(2)), tb),
                         "f({a}, {b})": E.app("f", ta, tb), "({a})/({b})": E.bin_("/", ta, tb), "{a}+{a}": E.bin_("+", ta, ta),
                         "{a}*{a}*{b}": E.bin_("*", E.bin_("*", ta, ta), tb), "-{a} // {b}": E.bin_("//", E.neg(ta), tb), "max({a},{b})": E.app("max", ta, tb),
                         "2*{a}-{b}%{a}": E.bin_("-", E.bin_("*", E.num(2), ta), E.bin_("%", tb, ta))}
                check_string(ctx, s, trees[tmpl], rng, "identifier shapes")
                if ctx.violations:
                    return


def builtins(ctx, rng):
    import sympy
    from bartiq.symbolics.sympy_interpreter import SPECIAL_FUNCS

    x, y = E.sym("x"), E.sym("y")
    exact = {"max": 2, "min": 2, "floor": 1, "ceil": 1, "ceiling": 1, "abs": 1, "mod": 2, "frac": 1, "sum": 3, "prod": 3}
    for f, ar in exact.items():
        for casing in (f, f.upper(), f.capitalize(), "".join(c.upper() if i % 2 else c for i, c in enumerate(f))):
            args = [E.bin_("/", x, E.num(2)), E.bin_("-", y, E.num(3)), E.num(2)][:ar]
            tree = E.app(f, *args)
            s = f"{casing}(" + ", ".join(E.to_str(a) for a in args) + ")"
            check_string(ctx, s, tree, rng, f"built-in {f} written {casing}")
            if ctx.violations:
                return
            ctx.nontrivial(("builtin", casing))
    for f in sorted(SPECIAL_FUNCS):
        if f in exact or f in ("sum_over", "prod_over", "round", "sgn", "multiplicity", "nlz", "heaviside", "lambertw"):
            continue
        ctx.stats["evaluations"] += 1
        try:
            lo = B.as_expression(f"{f}(x)")
            up = B.as_expression(f"{f.upper()}(x)")
            cap = B.as_expression(f"{f.capitalize()}(x)")
        except Exception as e:
            ctx.stats["builtin_rejected_" + f] += 1
            continue
        if not (lo == up == cap):
            ctx.violation("failing-input", f"built-in {f} is not case-insensitive", {"expression": f"{f.upper()}(x)"}, [str(up), str(cap)], str(lo))
            return
        if E.sympy_heads(lo):
            ctx.violation("failing-input", f"built-in {f} is left uninterpreted", {"expression": f"{f}(x)"}, str(lo), "built-in")
            return
    # unknown functions stay uninterpreted with their arguments preserved
    for fn in ("foo", "Foo", "my_func", "g2", "cost", "O"):
        args = [E.bin_("+", x, E.num(1)), E.bin_("*", E.num(2), y)]
        s = f"{fn}({E.to_str(args[0])}, {E.to_str(args[1])})"
        ctx.stats["evaluations"] += 1
        got = B.as_expression(s)
        from sympy.core.function import AppliedUndef

        if not (isinstance(got, (AppliedUndef, sympy.Order)) and type(got).__name__ in (fn, "Order")):
            ctx.violation("failing-input", f"unknown function {fn} does not stay an uninterpreted call", {"expression": s}, repr(got), f"{fn}(x + 1, 2*y)")
            return
        if isinstance(got, AppliedUndef):
            for ga, ta in zip(got.args, args):
                v, d = compare.sem_equal(ga, ta, rng)
                if v == "different" or len(got.args) != 2:
                    ctx.violation("failing-input", f"arguments of unknown function {fn} are not preserved", {"expression": s}, str(got), s)
                    return
        ctx.nontrivial(("unknown-fn", fn))
    # several unknown functions in ONE expression, incl. names that differ only in letter case, nested in each other: each call
    # keeps its own name (the set of function names of the result is the set written) and its own arguments
    for s, want in (("T(x) + t(y)", {"T", "t"}), ("t(y) + T(x)", {"T", "t"}), ("G(g(x) + 1)", {"G", "g"}), ("g(G(x) + 1) * G(y)", {"G", "g"}),
                    ("foo(x) - Foo(x) + FOO(x)", {"foo", "Foo", "FOO"}), ("cost(x) / Cost(y)", {"cost", "Cost"}), ("f(g(x), G(f(y)))", {"f", "g", "G"})):
        ctx.stats["evaluations"] += 1
        try:
            got = B.as_expression(s)
        except Exception as e:
            ctx.violation("failing-input", f"expression with several unknown functions is rejected ({type(e).__name__})", {"expression": s}, str(e)[:200], "parsed")
            return
        heads = E.sympy_heads(got)
        if heads != want:
            ctx.violation("failing-input", f"the unknown functions of {s!r} are not kept apart: result calls {sorted(heads)}", {"expression": s}, str(got), sorted(want))
            return
        ctx.nontrivial(("unknown-fns", s))


def gen_tree(rng, depth):
    if depth <= 0 or rng.random() < 0.25:
        r = rng.random()
        if r < 0.5:
            return E.sym(rng.choice(["x", "y", "z", "N", "a.b", "#p", "lambda", "in"]))
        if r < 0.9:
            return E.num(rng.randint(1, 6))
        return E.num(Fraction(rng.randint(1, 9), rng.choice([2, 4, 5])))
    r = rng.random()
    if r < 0.7:
        op = rng.choice(["+", "-", "*", "/", "//", "%", "**"])
        if op == "**":
            return E.bin_("**", gen_tree(rng, depth - 1), rng.choice([E.num(2), E.num(3), E.neg(E.num(1)), E.neg(E.num(2)), E.sym("k")]))
        l, r = gen_tree(rng, depth - 1), gen_tree(rng, depth - 1)
        if op == "%" and E.fv(l) & E.fv(r):
            # known finding (mod-common-symbol-negative-factor): sympy rewrites Mod(a*x, b*x) assuming b > 0; a modulo whose two
            # sides share a symbol is kept out of the generated family; the pinned witness is replayed by known_witnesses2()
            r = E.subst(r, {s_: E.sym("w") for s_ in E.fv(l) & E.fv(r)})
        if op == "//" and not E.fv(l) and not E.fv(r):
            # known finding (floordiv-literal-negative-quotient): literal // literal is kept out of the generated family;
            # the pinned witnesses are replayed by known_witnesses()
            r = E.bin_("+", r, E.sym("x"))
        return E.bin_(op, l, r)
    if r < 0.82:
        return E.neg(gen_tree(rng, depth - 1))
    if r < 0.92:
        return E.app(rng.choice(["max", "min", "Max", "MIN"]), gen_tree(rng, depth - 1), gen_tree(rng, depth - 1))
    if r < 0.97:
        return E.app(rng.choice(["floor", "ceiling", "Ceil", "abs", "FLOOR"]), gen_tree(rng, depth - 1))
    return E.app(rng.choice(["f", "g"]), gen_tree(rng, depth - 1))


def random_strings(ctx, rng):
    depth = ctx.n(5, 7)
    for i in range(ctx.n(1500, 30000)):
        t = gen_tree(rng, rng.randint(2, depth))
        style = rng.random()
        power = "^" if rng.random() < 0.3 else "**"
        if style < 0.5:
            s = E.to_str(t, power=power)
        elif style < 0.85:
            s = E.to_str(t, power=power, rng=rng, extra=0.25)
        else:
            s = E.to_str_full(t, power=power)
        if rng.random() < 0.3:
            s = s.replace(" ", "")
        check_string(ctx, s, t, rng, "random expression")
        if ctx.violations:
            return
        if E.size(t) >= 6:
            ctx.nontrivial(("rand", s))
        if i % 400 == 0:
            ctx.sample({"expression": s, "reading": E.to_str_full(t)})


def model_correspondence(ctx, rng):
    """the Lean lexer+parser+interp on the same kind of strings"""
    strs = []
    for i in range(ctx.n(400, 6000)):
        t = gen_tree(rng, rng.randint(1, 5))
        s = E.to_str(t, power="^" if rng.random() < 0.3 else "**", rng=rng, extra=0.2)
        if rng.random() < 0.3:
            s = s.replace(" ", "")
        strs.append((s, t))
    a, b, c = E.sym("a"), E.sym("b"), E.sym("c")
    for ops in itertools.product(BINOPS, repeat=2):
        for negs in itertools.product([0, 1], repeat=3):
            toks = []
            for i, x in enumerate([a, b, c]):
                if negs[i]:
                    toks.append("-")
                toks.append(x)
                if i < 2:
                    toks.append(ops[i])
            strs.append((tok_str(toks), read_flat(toks)))
    try:
        resp = model.run_driver(["parse " + s for s, _ in strs])
    except RuntimeError as e:
        ctx.notes.append("model parser not available: " + str(e)[:100])
        return
    for (s, t), r in zip(strs, resp):
        ctx.stats["model_vs_impl_compared"] += 1
        with warnings.catch_warnings():
            warnings.simplefilter("ignore")
            try:
                got = B.as_expression(s)
                impl_ok = True
            except Exception:
                impl_ok = False
        if r[0] != "ok":
            if impl_ok:
                ctx.disagreement("as_expression vs Lean parse (acceptance)", {"expression": s}, str(r)[:100], "accepted")
            continue
        if not impl_ok:
            defined = False
            for env in points_for(t, rng):
                try:
                    E.ev(t, env)
                    defined = True
                    break
                except (E.Undefined, OverflowError, ZeroDivisionError):
                    pass
            if defined:
                ctx.disagreement("as_expression vs Lean parse (acceptance)", {"expression": s}, "accepted", "rejected")
            else:
                ctx.stats["undefined_everywhere_skipped"] += 1
            continue
        mt = E.from_sx(r[1])
        v, d = compare.sem_equal(got, mt, rng)
        if v == "different":
            ctx.disagreement("as_expression vs Lean parse (value)", {"expression": s}, E.to_str_full(mt), {"impl": str(got), "at": d})


def known_witnesses(ctx):
    """replay the pinned witnesses of the listed finding; each one that still fails is reported as KNOWN-FINDING"""
    for s, reading in (("(1/36)//(-2)", -1), ("-7//(1/2)", -14), ("(-7/2)//1", -4)):
        ctx.stats["evaluations"] += 1
        got = B.as_expression(s)
        if E.sympy_ev(got, {}) != reading:
            ctx.violation("failing-input", f"literal floor division {s} is not the floor of the quotient", {"expression": s}, str(got), reading,
                          witness_id="floordiv-literal-negative-quotient")


def known_witnesses2(ctx):
    s = "lambda % (-(2/5) * lambda)"
    got = B.as_expression(s)
    ctx.stats["evaluations"] += 1
    val = E.sympy_ev(got, {"lambda": Fraction(1, 2)})
    if val != Fraction(-1, 10):
        ctx.violation("failing-input", f"{s} at lambda=1/2 is {val}, the standard reading is -1/10", {"expression": s, "point": {"lambda": "1/2"}}, str(got), "-1/10",
                      witness_id="mod-common-symbol-negative-factor")


def literal_history(ctx, rng):
    """numeric literals mean themselves whatever has been parsed before in the process: a value is first met as a FLOAT literal
    (`70123.0*x`), then as an integer literal in integer-only arithmetic that needs more than 15 digits — and the other way round"""
    for i in range(ctx.n(40, 400)):
        v = rng.randint(10**4, 10**6) * 2 + 1
        first_float = i % 2 == 0
        vf = E.num(v)
        t_float = E.bin_("+", E.bin_("*", vf, E.sym("x")), E.num(1))
        s_float = f"{v}.0*x + 1"
        t_mod = E.bin_("%", E.bin_("+", E.bin_("**", vf, E.num(4)), E.num(1)), vf)
        s_mod = f"({v}**4 + 1) % {v}"
        t_can = E.bin_("-", E.bin_("+", E.bin_("**", vf, E.num(4)), E.num(1)), E.bin_("**", vf, E.num(4)))
        s_can = f"{v}**4 + 1 - {v}**4"
        t_div = E.bin_("//", E.bin_("+", E.bin_("*", vf, E.bin_("**", E.num(10), E.num(17))), E.num(7)), vf)
        s_div = f"({v}*10**17 + 7) // {v}"
        seq = [(s_float, t_float)] + [(s_mod, t_mod), (s_can, t_can), (s_div, t_div)]
        if not first_float:
            seq = seq[1:] + seq[:1]
        for s_, t_ in seq:
            before = len(ctx.violations)
            check_string(ctx, s_, t_, rng, "numeric literal after a history of other literals of equal value "
                         f"({'float literal first' if first_float else 'integer literals first'}: {[x for x, _ in seq]})")
            if len(ctx.violations) > before:
                return
        ctx.stats["literal_histories"] += 1
        ctx.nontrivial(("literal-history", v))


def literal_powers(ctx, rng):
    """integer literals raised to NEGATIVE integer literals are exact rationals (3 ** -1 is 1/3, not 0.333…): placed where a rounding
    error of one unit in the last place is amplified — floor division, remainder, floor/ceiling at an integer boundary, huge
    cancelling factors"""
    n = E.num
    for i in range(ctx.n(60, 600)):
        b = rng.choice([3, 7, 10, 49, 6, 11, 13])
        e = rng.choice([1, 1, 2, 3])
        k = rng.randint(1, 9)
        pw = E.bin_("**", n(b), E.neg(n(e)))                    # b ** -e
        spw = rng.choice([f"{b} ** -{e}", f"{b} ** (-{e})", f"{b}^-{e}"])
        forms = [
            (f"{k} // {spw}", E.bin_("//", n(k), pw)),
            (f"{k} % {spw}", E.bin_("%", n(k), pw)),
            (f"{b ** e} * {spw} // 1", E.bin_("//", E.bin_("*", n(b ** e), pw), n(1))),
            (f"floor({k * b ** e} * {spw} * N)", E.app("floor", E.bin_("*", E.bin_("*", n(k * b ** e), pw), E.sym("N")))),
            (f"ceiling({k} * {spw} * N) + x ** {spw}", E.bin_("+", E.app("ceiling", E.bin_("*", E.bin_("*", n(k), pw), E.sym("N"))), E.bin_("**", E.sym("x"), pw))),
            (f"10 ** -{300 + k} * 10 ** {300 + k}", E.bin_("*", E.bin_("**", n(10), E.neg(n(300 + k))), E.bin_("**", n(10), n(300 + k)))),
        ]
        s_, t_ = forms[i % len(forms)]
        before = len(ctx.violations)
        got = check_string(ctx, s_, t_, rng, "integer literal raised to a negative integer literal")
        if len(ctx.violations) > before:
            return
        ctx.stats["literal_power_strings"] += 1
        ctx.nontrivial(("literal-power", s_))


def function_history(ctx, rng):
    """history: the backend's public `func(name)` (the way repetitions and user code obtain a function by name) is called with a
    spelling of a built-in BEFORE any expression with that exact spelling has been parsed in this process; the spelling must still
    be read as the built-in afterwards (spellings used here are used nowhere else in this module)"""
    x, y = E.sym("x"), E.sym("y")
    exact = {"max": 2, "min": 2, "floor": 1, "ceiling": 1, "abs": 1, "mod": 2}
    for f, ar in exact.items():
        for casing in (f[0] + f[1:].upper(), f[:-1].upper() + f[-1], f[0].upper() + f[1] + f[2:].upper()):
            if casing == f:
                continue
            ctx.stats["function_histories"] += 1
            try:
                B.func(casing)
            except Exception as e:
                ctx.stats["func_raised_" + type(e).__name__] += 1
            args = [E.bin_("/", x, E.num(2)), E.bin_("-", y, E.num(3))][:ar]
            tree = E.app(f, *args)
            s = f"{casing}(" + ", ".join(E.to_str(a) for a in args) + ")"
            check_string(ctx, s, tree, rng, f"built-in {f} written {casing}, parsed after SympyBackend.func({casing!r}) was called")
            if ctx.violations:
                return
            ctx.nontrivial(("builtin-after-func", casing))


def run(ctx, widen=False):
    rng = ctx.rng
    known_witnesses(ctx)
    known_witnesses2(ctx)
    ctx.rule = ("exhaustive: every pair and triple of the 8 binary operators with unary minus in every operand position (flat strings read by the harness' own "
                "precedence reader) + parenthesised pairs; every identifier shape x reserved word x position; every exact built-in in 4 casings; all other built-ins "
                "for case-insensitivity; unknown functions; random strings to nesting depth 5|7 with random redundant parentheses and both power spellings; values "
                "compared at 10 rational points incl. negative operands; non-trivial = distinct string with >=2 operators / distinct identifier or function shape")
    function_history(ctx, rng)
    if not ctx.violations:
        enumerate_operators(ctx, rng)
    if not ctx.violations:
        identifiers(ctx, rng)
    if not ctx.violations:
        builtins(ctx, rng)
    if not ctx.violations:
        random_strings(ctx, rng)
    if not ctx.violations:
        literal_history(ctx, rng)
    if not ctx.violations:
        literal_powers(ctx, rng)
    model_correspondence(ctx, rng)


def replay(payload):
    s = payload["input"]["expression"]
    print("expression:", s, "| recorded:", payload.get("what"))
    import re
    m = re.search(r"SympyBackend\.func\('([^']+)'\)", str(payload.get("what")))
    if m:
        print("history: SympyBackend.func(%r) called first" % m.group(1))
        B.func(m.group(1))
    try:
        print("parsed:", repr(B.as_expression(s)))
    except Exception as e:
        print("parser raised", type(e).__name__, e)
    return 0
