"""Subprocess worker for C14: prints one line per routine seed:  <seed> <sha256 of exported compilation result | status>
usage: c14_worker.py <mode> <seed> [<seed> ...]      mode in cold | warm | cleared
 cold    : compile each routine in a fresh interpreter state (first thing done)
 warm    : first compile 40 unrelated routines, then the requested ones
 cleared : like warm, but clear bartiq's numeric cache before each requested routine
The process's PYTHONHASHSEED is set by the parent."""
import hashlib
import json
import os
import random
import sys

sys.path.insert(0, os.path.dirname(os.path.dirname(os.path.abspath(__file__))))
from harness import routinegen as G  # noqa: E402
from harness.real import try_compile  # noqa: E402
from harness.props.c14 import floatify, gen, numeric_doc  # noqa: E402
from harness.real import evaluate  # noqa: E402


def canon_text(s: str) -> str:
    """order-insensitive form of a printed expression: the terms of every sum and the factors of every product, at every
    parenthesis level, are sorted.  sympy's printer orders the arguments of Add/Mul with a sort key under which `N + 1` and `N + 1.0`
    tie; ties are broken by hash order, so the TEXT of one and the same expression can differ between processes (observed at
    thorough seed 24) — a property of sympy's printing, not of bartiq's operations, and not a difference of the exported value"""
    def split_top(t, seps):
        out, depth, cur, i = [], 0, "", 0
        while i < len(t):
            ch = t[i]
            if ch in "([":
                depth += 1
            elif ch in ")]":
                depth -= 1
            hit = next((sp for sp in seps if depth == 0 and t.startswith(sp, i)), None)
            if hit is not None and cur.strip():
                out.append((cur, hit))
                cur = ""
                i += len(hit)
                continue
            cur += ch
            i += 1
        out.append((cur, ""))
        return out

    def canon(t):
        t = t.strip()
        terms = split_top(t, [" + ", " - "])
        if len(terms) > 1:
            signed, sign = [], "+"
            for body, sep in terms:
                signed.append(sign + canon(body))
                sign = "-" if sep == " - " else "+"
            return " ".join(sorted(signed))
        # products / quotients: split at single '*' and at '/' (never inside '**'), keep the operator with its factor
        parts, depth, cur, i, op = [], 0, "", 0, "*"
        while i < len(t):
            ch = t[i]
            if ch in "([":
                depth += 1
            elif ch in ")]":
                depth -= 1
            single_star = ch == "*" and not t.startswith("**", i) and not (i > 0 and t[i - 1] == "*")
            if depth == 0 and (single_star or ch == "/") and cur.strip():
                parts.append((op, cur))
                cur, op = "", ch
            else:
                cur += ch
            i += 1
        parts.append((op, cur))
        if len(parts) > 1:
            return "".join(sorted(o + canon(x) for o, x in parts))
        # descend into one level of parentheses / call arguments
        if "(" in t:
            a = t.index("(")
            depth, j = 0, a
            while j < len(t):
                depth += t[j] == "("
                depth -= t[j] == ")"
                if depth == 0:
                    break
                j += 1
            inner = ", ".join(canon(x) for x, _ in split_top(t[a + 1:j], [", "]))
            return t[:a] + "(" + inner + ")" + (canon(t[j + 1:]) if t[j + 1:].strip() else "")
        return t

    try:
        return canon(s)
    except Exception:
        return s


def canon_doc(obj):
    """apply canon_text to every string of a JSON-like object that looks like an expression"""
    if isinstance(obj, dict):
        return {k: canon_doc(v) for k, v in obj.items()}
    if isinstance(obj, (list, tuple)):
        return [canon_doc(v) for v in obj]
    if isinstance(obj, str) and any(c in obj for c in "+*("):
        return canon_text(obj)
    return obj


def _shared_impl(x):
    """a user implementation that only handles numbers (raises on symbols: the call then stays unevaluated)"""
    return int(x) * 2 + 1


def functions_digest(names, seed):
    """partial evaluation with a functions_map whose ONE callable is registered under the given names: calls with symbolic
    arguments stay in the result under the names the document uses, whatever was registered earlier in the process"""
    a, b = names
    q = {"name": "root", "input_params": ["N", "M"],
         "resources": [{"name": "T", "type": "additive", "value": f"{a}(M) + {a}(N) + 10*{b}(M)"}]}
    st, r = try_compile(q)
    if st != "ok":
        return "functions:" + st
    try:
        ev = evaluate(r.routine, {"N": seed % 4 + 1}, functions_map={a: _shared_impl, b: _shared_impl})
        return "functions:" + str(ev.routine.resources["T"].value) + ev.to_qref().model_dump_json()
    except Exception as e:
        return "functions:" + type(e).__name__


def export_digest(q, seed=0):
    st, r = try_compile(q)
    if st != "ok":
        return "status:" + st
    try:
        doc = json.dumps(canon_doc(json.loads(r.to_qref().model_dump_json())))
    except Exception as e:
        # listed C13 finding (port-variable inputs): fall back to a canonical dump of the dataclass tree
        def dump(cr):
            return {"name": cr.name, "inputs": list(cr.input_params), "children": [dump(c) for c in cr.children.values()],
                    "ports": {k: str(v.size) for k, v in cr.ports.items()}, "resources": {k: str(v.value) for k, v in cr.resources.items()},
                    "constraints": [(str(c.lhs), str(c.rhs)) for c in cr.constraints]}
        doc = json.dumps(canon_doc(dump(r.routine)))
    # aggregation as a post-processing stage, with a NESTED dictionary whose composite entry is listed before its components, the
    # components having different resource types and sharing a target: the exported document must not depend on the process either
    try:
        from bartiq.compilation.postprocessing import aggregate_resources

        nested = {"T": {"cost": 2, "anc": 3, "Q": 1}, "cost": {"base": 4}, "anc": {"base": 50}, "Q": {"base": "k"}}
        for keep in (True, False):
            st2, r2 = try_compile(q, postprocessing_stages=[aggregate_resources(nested, remove_decomposed=keep)])
            if st2 != "ok":
                doc += "aggregate:" + st2
                continue
            try:
                doc += json.dumps(canon_doc(json.loads(r2.to_qref().model_dump_json())))
            except Exception:
                def dump2(cr):
                    return {"name": cr.name, "children": [dump2(c) for c in cr.children.values()],
                            "resources": {k: (v.type.value, str(v.value)) for k, v in sorted(cr.resources.items())}}
                doc += json.dumps(canon_doc(dump2(r2.routine)))
    except ImportError as e:
        doc += "aggregate-unavailable:" + str(e)
    # evaluation with float-typed assignments is part of the observed history-sensitive surface
    try:
        names = sorted(r.routine.input_params)
        ev = evaluate(r.routine, {n: float(i % 3 + 1) for i, n in enumerate(names)})
        doc += json.dumps({k: repr(v.value) for k, v in ev.routine.resources.items()})
    except Exception as e:
        doc += "evaluate:" + type(e).__name__
    doc += functions_digest(("t_cost", "u_cost"), seed)
    return hashlib.sha256(doc.encode()).hexdigest()


def main():
    mode = sys.argv[1]
    seeds = [int(x) for x in sys.argv[2:]]
    if mode in ("warm", "cleared"):
        for s in range(900000, 900040):
            st, r = try_compile(G.to_qref(gen(s, None), G.Rendered()))
            st, r = try_compile(numeric_doc(s))
            if st == "ok":
                evaluate(r.routine, {"N": s % 3 + 1})
        functions_digest(("cost", "other_cost"), 1)      # the same callable, registered earlier under other names
    for s in seeds:
        if mode == "cleared":
            # clear every memoised function of the backend module (whatever they are called)
            import bartiq.symbolics.sympy_backend as _sbm

            for _v in list(vars(_sbm).values()):
                if callable(getattr(_v, "cache_clear", None)):
                    _v.cache_clear()
        q = floatify(G.to_qref(gen(s, None), G.Rendered()), s)
        print(s, export_digest(q, s), flush=True)
        print(-s, export_digest(floatify(numeric_doc(s), s), s), flush=True)


if __name__ == "__main__":
    main()
