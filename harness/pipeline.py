"""Shared steps for the properties that observe `compile_routine`: case construction, model-vs-implementation
correspondence of whole compiled trees, walking helpers."""
from __future__ import annotations

import json
import random

from . import compare, expr as E, model, routinegen as G
from .real import schema, try_compile


# the input shapes compile_routine accepts; every stream cycles through them
INPUT_FORMS = ("schema", "program", "dict", "routine", "routine-twice", "rawdict", "rawprogram")


class Case:
    __slots__ = ("seed", "spec", "qref", "tree_of", "sexp", "status", "result", "err")

    def __init__(self, seed, spec):
        self.seed = seed
        self.spec = spec
        R = G.Rendered()
        self.qref = G.to_qref(spec, R)
        self.tree_of = R.tree_of
        self.sexp = None
        self.status = None
        self.result = None
        self.err = None

    def compile(self, **kw):
        try:
            sch = schema(self.qref)
        except Exception as e:
            self.status, self.err = "schema", e
            return self
        try:
            self.sexp = G.routine_sexp(sch.program, self.tree_of)
        except KeyError as e:
            self.sexp = None
        self.status, res = try_compile(self.qref, form=INPUT_FORMS[self.seed % len(INPUT_FORMS)], **kw)
        if self.status == "ok":
            self.result = res
        else:
            self.err = res
        return self


def model_status(resp):
    if resp[0] == "ok":
        return "ok"
    if resp[0] == "err":
        return resp[1] if resp[1] != "internal" else "internal:" + resp[2]
    return "bad:" + str(resp)[:80]


def weaker_comparator_only(case, ms, resp, seed):
    """impl: compilation error 'constraint was violated'; model: ok with an inconclusive constraint whose sides differ at every
    sampled point (by the same amount) — the model's comparator is weaker than sympy's, nothing else differs"""
    if not (case.status == "compilation" and ms == "ok" and "constraint was violated" in str(case.err)):
        return False
    import random as _r
    from fractions import Fraction as _F

    rng = _r.Random(seed * 5 + 3)
    try:
        m = model.decode_croutine(resp[1])
    except Exception:
        return False

    def nodes(t):
        yield t
        for c in t["children"]:
            yield from nodes(c)
    for n in nodes(m):
        for c in n.get("constraints", []):
            if c[2] != "inconclusive":
                continue
            diffs = set()
            for _ in range(4):
                env = {x: _F(rng.randint(2, 11)) for x in E.fv(c[0]) | E.fv(c[1])}
                salt = rng.randint(0, 10**6)
                try:
                    diffs.add(E.ev(c[0], env, salt) - E.ev(c[1], env, salt))
                except Exception:
                    diffs.add(None)
            if len(diffs) == 1 and None not in diffs and 0 not in diffs:
                return True
    return False


def same_status(impl, mod):
    if impl == mod:
        return True
    return impl.startswith("internal") and mod.startswith("internal")


def compare_trees(cr, m, rng, path=(), out=None, counters=None, constraints=True):
    """real CompiledRoutine vs decoded model tree -> list of difference descriptions"""
    out = [] if out is None else out
    if list(cr.children) != [c["name"] for c in m["children"]]:
        out.append((path, "children (order)", list(cr.children), [c["name"] for c in m["children"]]))
        return out
    if (cr.type or None) != m["type"]:
        out.append((path, "type", cr.type, m["type"]))
    if not set(cr.input_params) <= set(m["input_params"]):
        out.append((path, "input_params", sorted(cr.input_params), sorted(m["input_params"])))
    if set(cr.resources) != set(m["resources"]):
        out.append((path, "resource names", sorted(cr.resources), sorted(m["resources"])))
        return out
    if {n: p.direction for n, p in cr.ports.items()} != {n: p[0] for n, p in m["ports"].items()}:
        out.append((path, "ports", sorted(cr.ports), sorted(m["ports"])))
        return out
    ckey = lambda c: ((c[0][0] or "", c[0][1]), (c[1][0] or "", c[1][1]))  # noqa: E731
    conns_i = sorted((((s.routine_name, s.port_name), (t.routine_name, t.port_name)) for s, t in cr.connections.items()), key=ckey)
    conns_m = sorted(m["connections"], key=ckey)
    if conns_i != conns_m:
        out.append((path, "connections", conns_i, conns_m))
    for rn, rr in cr.resources.items():
        if rr.type.value != m["resources"][rn][0]:
            out.append((path, f"resource {rn} type", rr.type.value, m["resources"][rn][0]))
        v, d = compare.sem_equal(rr.value, m["resources"][rn][1], rng)
        if counters is not None:
            counters[v] += 1
        if v == "different":
            out.append((path, f"resource {rn}", str(rr.value), {"model": E.to_str(m["resources"][rn][1])[:300], "at": d}))
    for pn, pp in cr.ports.items():
        v, d = compare.sem_equal(pp.size, m["ports"][pn][1], rng)
        if counters is not None:
            counters[v] += 1
        if v == "different":
            out.append((path, f"port {pn}", str(pp.size), {"model": E.to_str(m["ports"][pn][1])[:300], "at": d}))
    # constraints: compare as multisets of semantically equal pairs (tautologies included: both keep them)
    ci = [(c.lhs, c.rhs) for c in cr.constraints]
    cm = list(m["constraints"])
    if not constraints:
        pass
    elif len(ci) != len(cm):
        out.append((path, "number of constraints", [(str(a), str(b)) for a, b in ci], [(E.to_str(a), E.to_str(b)) for a, b, _ in cm]))
    else:
        for (a, b), (ma, mb, _) in zip(ci, cm):
            for x, mx in ((a, ma), (b, mb)):
                v, d = compare.sem_equal(x, mx, rng)
                if v == "different":
                    out.append((path, "constraint side", str(x), {"model": E.to_str(mx)[:200], "at": d}))
    if (cr.repetition is None) != (m["repetition"] is None):
        out.append((path, "repetition presence", cr.repetition is not None, m["repetition"] is not None))
    elif cr.repetition is not None:
        v, d = compare.sem_equal(cr.repetition.count, m["repetition"]["count"], rng)
        if v == "different":
            out.append((path, "repetition count", str(cr.repetition.count), d))
        if cr.repetition.sequence.type != m["repetition"]["sequence"]["type"]:
            out.append((path, "sequence type", cr.repetition.sequence.type, m["repetition"]["sequence"]["type"]))
    for (cn, cc), mc in zip(cr.children.items(), m["children"]):
        compare_trees(cc, mc, rng, path + (cn,), out, counters, constraints)
    return out


def correspond_compile(ctx, cases, name="compile_routine vs compileRoutine"):
    """run the model on every case that has an s-expression and compare with the implementation's outcome"""
    import collections

    todo = [c for c in cases if c.sexp is not None and c.status != "schema"]
    if not todo:
        return
    resp = model.run_driver(["compile 0 " + c.sexp for c in todo])
    counters = collections.Counter()
    for c, r in zip(todo, resp):
        ms = model_status(r)
        ctx.stats["model_vs_impl_compared"] += 1
        if not same_status(c.status, ms):
            ctx.stats["model_vs_impl_status_differs"] += 1
            ctx.disagreement(name, {"qref": c.qref, "generator_seed": c.seed}, ms, c.status + ((": " + str(c.err)[:200]) if c.err else ""))
            continue
        if c.status != "ok":
            continue
        diffs = compare_trees(c.result.routine, model.decode_croutine(r[1]), random.Random(c.seed * 7 + 1), counters=counters)
        if diffs:
            ctx.stats["model_vs_impl_tree_differs"] += 1
            ctx.disagreement(name, {"qref": c.qref, "generator_seed": c.seed}, [d[3] for d in diffs[:3]],
                             [(list(d[0]), d[1], d[2]) for d in diffs[:3]])
    for k, v in counters.items():
        ctx.stats["expr_cmp_" + k] += v


def pmap(fn, items, procs=14):
    """order-preserving parallel map over picklable items (fork)"""
    import multiprocessing as mp

    if len(items) < 8:
        return [fn(x) for x in items]
    with mp.get_context("fork").Pool(procs) as pool:
        return pool.map(fn, items, chunksize=max(1, len(items) // (procs * 4)))


# ------------------------------------------------------------------------------------------------
# generic parallel stream:  seeds -> (generate, model, implementation + oracle) -> merged into ctx
class Result:
    def __init__(self):
        import collections

        self.stats = collections.Counter()
        self.violations = []
        self.disagreements = []
        self.nontrivial = []
        self.samples = []

    def violation(self, kind, what, replay_input, observed=None, expected=None, witness_id=None):
        self.violations.append((kind, what, replay_input, observed, expected, witness_id))

    def disagreement(self, name, replay_input, model_side, impl_side):
        self.disagreements.append((name, replay_input, model_side, impl_side))


def _prep(args):
    modname, seed, extra = args
    import importlib

    mod = importlib.import_module(modname)
    spec = mod.gen(seed, extra)
    case = Case(seed, spec)
    try:
        sch = schema(case.qref)
        return seed, G.routine_sexp(sch.program, case.tree_of)
    except Exception:
        return seed, None


class CaseTimeout(BaseException):
    """raised by SIGVTALRM (process CPU time, so that an oversubscribed machine does not turn slow into 'timed out') inside a worker: one generated case exceeded its time budget (BaseException so that no
    `except Exception` in sympy / bartiq / the oracle swallows it)"""


def _on_alarm(signum, frame):
    raise CaseTimeout()


CASE_BUDGET_S = 120


def _work(args):
    modname, seed, extra, resp_line = args
    import importlib
    import signal

    from .runner import jsonable

    mod = importlib.import_module(modname)
    res = Result()
    budget = getattr(mod, "CASE_BUDGET_S", CASE_BUDGET_S)
    if budget:
        signal.signal(signal.SIGVTALRM, _on_alarm)
        signal.setitimer(signal.ITIMER_VIRTUAL, budget)
    try:
        spec = mod.gen(seed, extra)
        kw = {}
        if hasattr(mod, "compile_kw"):
            import inspect

            kw = mod.compile_kw(seed) if inspect.signature(mod.compile_kw).parameters else mod.compile_kw()
        case = Case(seed, spec).compile(**kw)
        res.stats["evaluations"] += 1
        res.stats["impl_status_" + case.status] += 1
        if resp_line is not None and case.status != "schema":
            r = E.parse_sexp(resp_line)
            ms = model_status(r)
            res.stats["model_vs_impl_compared"] += 1
            if not same_status(case.status, ms) and weaker_comparator_only(case, ms, r, seed):
                # sympy's automatic simplification (ceiling(ceiling(x)) = ceiling(x), …) lets the real comparator decide a constraint that
                # the model's polynomial comparator keeps as inconclusive: the comparator is a parameter of the theorems (CmpSound), a
                # weaker sound instance is not a disagreement — provided the retained constraint really is violated
                res.stats["comparator_weaker_than_sympy"] += 1
            elif not same_status(case.status, ms):
                res.disagreement("compile_routine vs compileRoutine (outcome)", {"qref": case.qref, "generator_seed": seed},
                                 ms, case.status + ((": " + str(case.err)[:200]) if case.err else ""))
            elif case.status == "ok":
                import collections

                cnt = collections.Counter()
                diffs = compare_trees(case.result.routine, model.decode_croutine(r[1]), random.Random(seed * 7 + 1), counters=cnt)
                for k, v in cnt.items():
                    res.stats["expr_cmp_" + k] += v
                if diffs:
                    res.disagreement("compile_routine vs compileRoutine (tree)", {"qref": case.qref, "generator_seed": seed},
                                     [d[3] for d in diffs[:3]], [(list(d[0]), d[1], d[2]) for d in diffs[:3]])
        mod.oracle(case, res, extra)
        # every replay records the input shape the case was handed to compile_routine in
        form = INPUT_FORMS[seed % len(INPUT_FORMS)]
        res.stats["input_form_" + form] += 1
        for v in res.violations:
            if isinstance(v[2], dict):
                v[2].setdefault("input_form", form)
        for d_ in res.disagreements:
            if isinstance(d_[1], dict):
                d_[1].setdefault("input_form", form)
    except CaseTimeout:
        # one case ran longer than its budget (sympy's numeric evaluation of huge products, towers of powers, ...): the case is
        # dropped and counted; termination as such is C17's subject and is examined there with its own retry logic
        res.stats["case_timeouts"] += 1
        res.samples.append({"case_timeout": {"generator_seed": seed, "budget_s": budget}})
    except Exception as e:  # harness bug: surface it, do not hide it
        import traceback

        res.stats["harness_exception"] += 1
        res.samples.append({"harness_exception": traceback.format_exc()[-800:], "seed": seed})
    finally:
        if budget:
            signal.setitimer(signal.ITIMER_VIRTUAL, 0)
    return (dict(res.stats), jsonable(res.violations), jsonable(res.disagreements), jsonable(res.nontrivial), jsonable(res.samples))


def run_stream(ctx, modname, seeds, extra=None, use_model=True, procs=14):
    seeds = list(seeds)
    sexps = dict(pmap(_prep, [(modname, s, extra) for s in seeds], procs)) if use_model else {}
    resp = {}
    if use_model:
        have = [s for s in seeds if sexps.get(s)]
        lines = ["compile 0 " + sexps[s] for s in have]
        if lines:
            import subprocess

            cmd = [model.DRIVER] if __import__("os").path.exists(model.DRIVER) else ["lake", "env", "lean", "--run", "Driver.lean"]
            p = subprocess.run(cmd, input="\n".join(lines) + "\n", cwd=model.LEAN_DIR, capture_output=True, text=True, timeout=3600)
            outs = [ln for ln in p.stdout.split("\n") if ln.strip()]
            if p.returncode != 0 or len(outs) != len(lines):
                raise RuntimeError(f"model driver failed rc={p.returncode} {len(outs)}/{len(lines)}: {p.stderr[:300]}")
            resp = dict(zip(have, outs))
    results = pmap(_work, [(modname, s, extra, resp.get(s)) for s in seeds], procs)
    harness_exc = 0
    for stats, viols, disag, nontriv, samples in results:
        for k, v in stats.items():
            ctx.stats[k] += v
        for v in viols:
            ctx.violation(*v)
        for d in disag:
            ctx.disagreement(*d)
        for k in nontriv:
            ctx.nontrivial(json.dumps(k, sort_keys=True))
        for s in samples:
            if isinstance(s, dict) and "case_timeout" in s:
                ctx.notes.append("case over its time budget: " + json.dumps(s["case_timeout"]))
                print("CASE-TIMEOUT", modname, json.dumps(s["case_timeout"]), flush=True)
                continue
            if isinstance(s, dict) and "harness_exception" in s:
                harness_exc += 1
                if harness_exc <= 2:
                    print("HARNESS EXCEPTION", s, flush=True)
            ctx.sample(s)
    if harness_exc:
        raise RuntimeError(f"{harness_exc} harness exceptions (see above)")
