#!/usr/bin/env python3
"""validate MANIFEST.json and evidence/*.json against the schemas (run with python3-vt, which has jsonschema)"""
import glob, json, sys
import jsonschema
ok = True
m = json.load(open('/verif/MANIFEST.json')) if len(sys.argv) < 2 or sys.argv[1] != '--evidence-only' else None
if m is not None:
    try:
        jsonschema.validate(m, json.load(open('/root/.vp/MANIFEST.schema.json'))); print('MANIFEST valid,', len(m['checks']), 'checks')
    except Exception as e:
        ok = False; print('MANIFEST INVALID', str(e)[:300])
sch = json.load(open('/root/.vp/EVIDENCE.schema.json'))
for f in sorted(glob.glob('/verif/evidence/*.json')):
    e = json.load(open(f))
    try:
        jsonschema.validate(e, sch); print(f.split('/')[-1], e['level'], e['tier'], 'valid', 'obl=%s/%s' % (e['coverage'].get('discharged'), e['coverage'].get('obligations')), 'nontrivial=%s' % e['coverage'].get('distinct_nontrivial'))
    except Exception as ex:
        ok = False; print(f, 'INVALID', str(ex)[:300])
sys.exit(0 if ok else 1)
