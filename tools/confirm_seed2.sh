#!/bin/bash
# usage: confirm_seed2.sh C08 2 — second-wave variant: the authoritative change is <out>/patch.diff; the scratch worktree is reset
# to HEAD and the patch applied (sub-agents share one git stash, so the worktree state is not trusted)
P=$1; SFX=${2:-2}
WT=/tmp/seed${SFX}_$P; OUT=/tmp/seed${SFX}_$P.out; DST=/verif/seeded/$P-$SFX
mkdir -p $DST
git -C $WT checkout -q -- . ; git -C $WT apply $OUT/patch.diff || { echo "{\"error\": \"patch does not apply\"}" > $DST/confirm.json; exit 1; }
cp $OUT/patch.diff $DST/patch.diff
cp $OUT/demo.py $DST/demo.py; cp $OUT/notes.md $DST/notes.md 2>/dev/null
python3 /verif/tools/run_baseline.py --repo $WT > $DST/baseline.log 2>&1; B=$?
PYTHONPATH=$WT/src /venv/bin/python $OUT/demo.py > $DST/demo_with.log 2>&1; W=$?
PYTHONPATH=/repo/src /venv/bin/python $OUT/demo.py > $DST/demo_without.log 2>&1; WO=$?
echo "{\"baseline_exit\": $B, \"demo_with_change_exit\": $W, \"demo_without_change_exit\": $WO}" > $DST/confirm.json
cat $DST/confirm.json
