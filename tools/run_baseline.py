#!/usr/bin/env python3
"""Run the repository's pinned test suite (guard OFF) and compare with /root/.vp/BASELINE.json.
usage: run_baseline.py [--repo DIR] [-n WORKERS]   exit 0 iff every stable_pass test passes."""
import json, os, subprocess, sys, tempfile, xml.etree.ElementTree as ET
repo = "/repo"; workers = None
a = sys.argv[1:]
while a:
    x = a.pop(0)
    if x == "--repo": repo = a.pop(0)
    elif x == "-n": workers = a.pop(0)
base = json.load(open("/root/.vp/BASELINE.json"))
fd, xml = tempfile.mkstemp(suffix=".xml", dir="/var/tmp"); os.close(fd)
env = dict(os.environ); env.pop("BARTIQ_VERIF", None)
env["PYTHONPATH"] = os.path.join(repo, "src")
cmd = ["/venv/bin/python", "-m", "pytest", "-ra", "-q", "-p", "no:cacheprovider", "--timeout=900",
       "--continue-on-collection-errors", f"--junitxml={xml}"]
if workers: cmd += ["-n", workers]
r = subprocess.run(cmd, cwd=repo, env=env, stdout=subprocess.PIPE, stderr=subprocess.STDOUT, text=True)
passed = set()
for tc in ET.parse(xml).getroot().iter("testcase"):
    if not any(ch.tag in ("failure", "error", "skipped") for ch in tc):
        passed.add(f"{tc.get('classname')}::{tc.get('name')}")
os.unlink(xml)
missing = [t for t in base["stable_pass"] if t not in passed]
print(r.stdout[-600:])
print(f"baseline stable_pass={len(base['stable_pass'])} passed_now={len(passed)} missing={len(missing)}")
for t in missing[:20]: print("  MISSING", t)
sys.exit(1 if missing else 0)
