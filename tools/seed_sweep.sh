#!/bin/bash
# run every check (without the Lean gate) for several seeds; print the ones that do not exit 0
cd /verif
for sd in "$@"; do
  for p in C01 C02 C03 C04 C05 C06 C07 C08 C09 C10 C11 C12 C13 C14 C15 C16 C17 C18 C19 C20; do
    out=$(VERIF_SEED=$sd timeout 900 ./check $p --no-lean 2>&1 | grep -v "WARNING\|KNOWN-FINDING" | tail -2)
    rc=$?
    echo "seed=$sd $p :: $(echo "$out" | tail -1)"
    if echo "$out" | grep -q VIOLATION; then echo "   !!! $out"; cp replays/$p-$sd-0.json /var/tmp/sweep_$p-$sd.json 2>/dev/null; fi
  done
done
