#!/bin/bash
# Regression of the machinery against the seeded changes: apply each seeded/<id>/patch.diff to /repo, run the checks that
# meta.json says catch it (development mode: --no-lean, the Lean side does not depend on these files unless a translator
# reads them — pass LEAN=1 to include the gate), expect exit 1, and undo the change straight afterwards.
# usage: [SEEDS="1 2 3"] [BARTIQ_REPO=<scratch worktree>] tools/seeded_matrix.sh [seed-dir-name ...]
#        (with the default /repo: never run concurrently with registered checks)
cd "$(dirname "$0")/.."
REPO=${BARTIQ_REPO:-/repo}
[ -n "$(git -C $REPO status --porcelain)" ] && { echo "working tree of $REPO not clean"; exit 2; }
sel=("$@"); [ ${#sel[@]} -eq 0 ] && sel=($(ls seeded))
miss=0
for s in "${sel[@]}"; do
  d=seeded/$s
  if ! git -C $REPO apply --check $PWD/$d/patch.diff 2>/dev/null; then echo "$s: PATCH DOES NOT APPLY"; miss=$((miss+1)); continue; fi
  git -C $REPO apply $PWD/$d/patch.diff
  checks=$(python3 -c "import json;print(' '.join(json.load(open('$d/meta.json'))['caught_by_checks']))")
  for c in $checks; do
   for sd in ${SEEDS:-${VERIF_SEED:-1}}; do
    if [ -n "$LEAN" ]; then out=$(VERIF_SEED=$sd ./check $c 2>&1); else out=$(VERIF_SEED=$sd ./check $c --no-lean 2>&1); fi
    rc=$?
    if [ $rc -eq 1 ] && echo "$out" | grep -q "^VIOLATION property=$c"; then echo "$s: caught by $c seed=$sd :: $(echo "$out" | grep '^VIOLATION' | head -1)"
    else echo "$s: MISSED by $c seed=$sd (exit $rc) :: $(echo "$out" | tail -1)"; miss=$((miss+1)); fi
   done
  done
  git -C $REPO checkout -- . ; git -C $REPO clean -fdq src tests 2>/dev/null
done
echo "missed=$miss"
exit $([ $miss -eq 0 ] && echo 0 || echo 1)
