#!/usr/bin/env python3
"""write seeded/<id>-5/meta.json from scratch/wave8_info.py for the confirmed eighth-wave changes (development helper)"""
import json, os, sys
sys.path.insert(0, "/verif/scratch")
from wave8_info import INFO
for pid, (chg, needs) in sorted(INFO.items()):
    d = f"/verif/seeded/{pid}-8"
    if not os.path.exists(d + "/confirm.json"):
        continue
    conf = json.load(open(d + "/confirm.json"))
    if conf.get("baseline_exit") != 0 or conf.get("demo_with_change_exit") != 1 or conf.get("demo_without_change_exit") != 0:
        print(pid, "NOT CONFIRMED", conf); continue
    old = json.load(open(d + "/meta.json")) if os.path.exists(d + "/meta.json") else {}
    meta = {"breaks_property": pid, "caught_by_checks": old.get("caught_by_checks", [pid]), "confirmed": conf,
            "confirmation": "tools/confirm_seed2.sh: patch.diff applied to a scratch worktree; unedited pytest baseline passes with the change, demo.py exits 1 with the change and 0 without",
            "origin": "independent sub-agent (eighth wave) given only the property text, one line each about the seven earlier changes to avoid, and a scratch worktree",
            "change": chg, "needs_to_manifest": needs,
            "what_i_ran": old.get("what_i_ran", "tools/seeded_matrix.sh on a scratch worktree (BARTIQ_REPO), ./check <id> --no-lean, seeds 1 2")}
    json.dump(meta, open(d + "/meta.json", "w"), indent=1)
    print(pid, "meta written")
