#!/bin/bash
# usage: confirm_seed.sh C08 [suffix]   — confirm a sub-agent's seeded change in its scratch worktree and store it under /verif/seeded/
P=$1; SFX=${2:-1}
WT=/tmp/seed_$P; OUT=/tmp/seed_$P.out; DST=/verif/seeded/$P-$SFX
mkdir -p $DST
git -C $WT diff > $DST/patch.diff
cp $OUT/demo.py $DST/demo.py; cp $OUT/notes.md $DST/notes.md 2>/dev/null
python3 /verif/tools/run_baseline.py --repo $WT > $DST/baseline.log 2>&1; B=$?
PYTHONPATH=$WT/src /venv/bin/python $OUT/demo.py > $DST/demo_with.log 2>&1; W=$?
PYTHONPATH=/repo/src /venv/bin/python $OUT/demo.py > $DST/demo_without.log 2>&1; WO=$?
echo "{\"baseline_exit\": $B, \"demo_with_change_exit\": $W, \"demo_without_change_exit\": $WO}" > $DST/confirm.json
cat $DST/confirm.json
