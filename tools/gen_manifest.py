#!/usr/bin/env python3
"""Generate /verif/MANIFEST.json.  The level of a property is `proof` exactly when lean/Properties/<id>.lean holds theorems
for it (their number is measured by every run and written to the evidence); C14 is `other` by design (DESIGN.md §5 C14)."""
import json
import os
import re
import sys

ROOT = os.path.dirname(os.path.dirname(os.path.abspath(__file__)))
sys.path.insert(0, ROOT)

TEXT = {
    "C01": ("compile refines the bottom-up reading: Lean theorems about the executable model of `_compile` (substitution lemma for every interpretation, per-node resource step); "
            "model tied to the code by whole-tree differential execution on generated hierarchies; the property oracle compares every compiled resource of the real code with an "
            "independent value-level reading at random rational points",
            "theorem", "Lean kernel + model; tie = correspondence of compile_routine vs compileRoutine (semantic comparison) and translator for the stage order; sympy simplification is modelled, not verified"),
    "C02": ("port sizes follow the wires: per-node theorems (sizes pushed along connections are the compiled source sizes; declared sizes are substituted in scope) + whole-tree correspondence + "
            "oracle on real compiled trees (both ends of every connection, every port vs the reading)",
            "theorem", "as C01; W7 (declared output size equal to what flows in) is an input assumption"),
    "C03": ("names never capture: substitution lemma with explicit capture side condition, simultaneity at every port/resource of a hierarchy, iterator guard, kernel-checked counter-example "
            "for sequential substitution; oracle: (R, pi.R) renaming pairs and re-substitution probes on the real code",
            "theorem", "as C01"),
    "C04": ("closedness of the WHOLE compiled hierarchy (Lean theorem, obtained by instantiating the refinement theorem of C01 with the one-point interpretation: semantic well-scopedness => every port size and resource mentions only the given names); hypothesis evaluated by the model on every generated routine (driver `wellscoped`); oracle inspects every expression of real compiled trees and total numeric assignments",
            "theorem", "as C01"),
    "C05": ("evaluate: order-freedom, everywhere, empty, unassigned-untouched, remaining inputs, staging, exact values, and functions_map (reaches every call; rewritten expression = original read with the names interpreted by the implementations, for every interpretation) proved for the model of `_evaluate_internal`; Lean `evaluate` vs real `evaluate` on the same compiled routine, assignment and functions_map; partial on rounding to 15 digits",
            "theorem", "Lean kernel + model of evaluate; rounding (mpmath/IEEE) not modelled: checked numerically to 1e-14 relative"),
    "C06": ("size mismatches: theorems relative to the comparator contract; ground truth from the independent reading on a fault stream, both violating and satisfying assignments",
            "theorem", "comparator (sympy expand) is a contract: CmpSound; instance Cmp.poly corresponded"),
    "C07": ("closed forms regenerated from get_sum/get_prod each run and proved equal to the unrolled sums by induction on the count over an arbitrary field",
            "theorem", "translator harness/translate/sequences.py (sympy expression -> Lean term); Mathlib big operators"),
    "C08": ("default propagation: oracle on real trees (sum/product over exactly the children, explicit wins, flat leaf sum) + model correspondence",
            "theorem", "as C01"),
    "C09": ("order independence (Lean theorems): `_compile` sees its parameter dictionaries only as mappings; independent children commute; ANY two processing orders that respect the wiring give the parent and every child the same compiled result, also when children are re-listed at every level at once; the order `sorted_children_order` returns is such an order for every listing (Kahn correctness); canonical sort / lookup lemmas for the other fields; + Lean compile vs real compile on original and permuted documents + permutation oracle on the real code (all child orders <=4 in thorough)",
            "theorem", "as C01; qref's own sorting of lists is external"),
    "C10": ("structure preservation: oracle walks source vs compiled trees; model correspondence compares names, types, ports, connections, resources",
            "theorem", "as C01"),
    "C11": ("parser: Lean lexer+recursive-descent parser+interp with operator/built-in tables regenerated from the source; exhaustive operator pairs/triples on the real parser against an independent precedence reader",
            "theorem", "ast.parse and the five regex stages are modelled by the Lean lexer/parser (corresponded); tables by translator"),
    "C12": ("print/parse round trip: oracle on expressions produced by compile/evaluate and on generated sympy objects; the Lean parser reads the printed text like the real parser",
            "theorem", "sympy StrPrinter layout of Add/Mul is external (partial)"),
    "C13": ("QREF export/import (Lean theorem): export then import is the identity up to re-read expressions, including the string encodings of endpoints and link targets (deep-link paths with dots) and the merge of links; Lean `Routine.toQ` vs the document `to_qref` wrote, field by field; oracle on uncompiled routines and compilation results incl. every sequence kind; re-compilation equality",
            "theorem", "pydantic/qref validators external"),
    "C14": ("purity/reproducibility: memoisation transparency and history freedom proved; mutation, hash seeds, process history explored across processes",
            "theorem", "runtime effects cannot be exhibited by a pure model (level other)"),
    "C15": ("aggregation (Lean theorems): the expanded dictionary is the path sum W(r,b)=w(r,b)+sum_t w(r,t)W(t,b) over base targets for every commutative semiring; every cyclic dictionary is rejected and only cyclic ones are (Kahn correctness and completeness); Lean `addAggregatedResources` vs real on all weighted graphs on 3|4 names; path-sum reference with exact fractions",
            "theorem", "graphlib external"),
    "C16": ("highwater = local ancillae + max over cuts (Lean theorem over an ordered additive group; the literal loop incl. the zero-watermark filter equals the cut formula on non-negative sizes); Lean `highwaterImpl` on the values of every real compiled node vs the real highwater; independent cut enumeration on real compiled trees, also for Routine objects with another valid children_order",
            "theorem", "as C01"),
    "C17": ("verification is the first step of compile_routine in the model and any topology/repetition problem or child cycle is a compilation error (proved); the KeyError/CycleError/AssertionError sites of `_compile` are unreachable on soundly wired trees of any depth and sequence kind (proved; hypothesis `Routine.sound` evaluated by the driver on every compiled routine); a resource type the repetition cannot process (`other`, `qubits` under a non-constant sequence) ends in bartiq's own error for every sequence kind and listing position (proved; table walked on the real code); fault injection at every position on the real code; "
            "partial on exceptions raised inside sympy",
            "theorem", "qref verify_topology is a hand model, corresponded on every injected fault"),
    "C18": ("LaTeX rendering total and complete: oracle with an independent formatter of entry keys incl. multiplicity, four flag combinations, source and compiled documents",
            "theorem", "sympy.latex external (partial)"),
    "C19": ("Big-O: theorems about the leading-term filter (decreasing exponent lists give exactly the degree; in ANY order the largest exponent is reported and the result is non-empty); exhaustive coefficient patterns on the real BigO",
            "theorem", "Poly.terms() ordering is a contract checked on samples"),
    "C20": ("gradient descent: invariant proved for ANY cost function and ANY arithmetic over a linear order (bounds, history, start, consistency, errors); Float instance compared bit-for-bit with the implementation",
            "theorem", "IEEE NaN not a linear order (partial); Lean Float + - * / are IEEE doubles"),
}


def theorems_of(pid):
    path = os.path.join(ROOT, "lean", "Properties", f"{pid}.lean")
    if not os.path.exists(path):
        return []
    src = re.sub(r"/-.*?-/", "", open(path).read(), flags=re.S)
    src = "\n".join(ln.split("--")[0] for ln in src.split("\n"))
    return re.findall(r"^\s*theorem\s+(" + pid + r"_\w+)", src, flags=re.M)


def main():
    props = [json.loads(ln) for ln in open(os.path.join(ROOT, "properties.jsonl"))]
    checks = []
    for p in props:
        pid = p["id"]
        text, _, note = TEXT[pid]
        ths = theorems_of(pid)
        if pid == "C14":
            cat = "other"
        elif ths:
            cat = "proof"
        else:
            cat = "exploration"
        lvl_text = text
        if cat == "proof":
            lvl_text = f"machine-checked Lean 4 theorems ({', '.join(ths)}) about the executable model + " + text
        elif cat == "exploration":
            lvl_text = "NO THEOREM YET for this property (claimed as exploration until lean/Properties/%s.lean exists): " % pid + text
        checks.append({
            "property_id": pid,
            "quick_cmd": f"./check {pid} --tier quick",
            "thorough_cmd": f"./check {pid} --tier thorough",
            "evidence_file": f"evidence/{pid}.json",
            "replay_cmd_template": f"./check {pid} --replay {{path}}",
            "engine": "lean4-proof+correspondence",
            "level_claimed": {"category": cat, "text": lvl_text, "design_ref": f"DESIGN.md §5 {pid}"},
            "level_note": note,
            "technique": ("Lean 4 proof over an executable model, tied by translator + differential correspondence" if cat != "exploration"
                          else "differential oracle on the real code + model correspondence (theorems pending)"),
        })
    m = {
        "version": 1,
        "setup_cmd": "cd lean && lake build BartiqModel Generated BartiqProofs Properties driver",
        "hooks": {"guard": "BARTIQ_VERIF", "enable": "no hooks are needed: every observation goes through public functions; the name is reserved",
                  "baseline_off_cmd": "python3 tools/run_baseline.py", "source_commits": [], "add_only": True},
        "engines": [{"name": "lean4-proof+correspondence", "path": "check", "serves_properties": [p["id"] for p in props],
                     "kind_free_text": "Lean 4 model (lean/BartiqModel, core only) + theorems (lean/Properties) + translators (harness/translate) + Python correspondence/oracle harness"}],
        "checks": checks,
        "notes": "Known findings are listed in known_findings.json; fix: commits in /repo are recorded there as `fixed`. Seeded mutations and what catches them: seeded/ and DESIGN.md §9.",
        "not_applicable": [],
    }
    json.dump(m, open(os.path.join(ROOT, "MANIFEST.json"), "w"), indent=1)
    print("MANIFEST.json written:", {c["property_id"]: c["level_claimed"]["category"] for c in checks})


if __name__ == "__main__":
    main()
