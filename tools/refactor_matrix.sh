#!/bin/bash
# Behaviour-preserving refactorings of /repo (stored under refactors/<id>/patch.diff) must NOT raise any alarm: apply each one to a
# scratch worktree, run every check WITH the Lean gate (translators re-read the refactored source), expect exit 0 everywhere.
# usage: BARTIQ_REPO=<scratch worktree> tools/refactor_matrix.sh [id ...]     (do not run other gated checks at the same time)
cd "$(dirname "$0")/.."
REPO=${BARTIQ_REPO:?set BARTIQ_REPO to a scratch worktree of /repo}
[ -n "$(git -C $REPO status --porcelain)" ] && { echo "working tree of $REPO not clean"; exit 2; }
sel=("$@"); [ ${#sel[@]} -eq 0 ] && sel=($(ls refactors))
alarms=0
for s in "${sel[@]}"; do
  d=refactors/$s
  if ! git -C $REPO apply --check $PWD/$d/patch.diff 2>/dev/null; then echo "$s: PATCH DOES NOT APPLY"; continue; fi
  git -C $REPO apply $PWD/$d/patch.diff
  for i in $(seq -w 1 20); do
    out=$(VERIF_SEED=${VERIF_SEED:-1} ./check C$i 2>&1); rc=$?
    if [ $rc -ne 0 ]; then echo "$s: ALARM from C$i (exit $rc) :: $(echo "$out" | grep '^VIOLATION' | head -1) :: $(echo "$out" | tail -1 | cut -c1-160)"; alarms=$((alarms+1)); fi
  done
  echo "$s: done"
  git -C $REPO checkout -- . ; git -C $REPO clean -fdq src 2>/dev/null
done
# regenerate lean/Generated from the unchanged tree again
BARTIQ_REPO=/repo ./check C07 > /dev/null 2>&1
echo "alarms=$alarms"
exit $([ $alarms -eq 0 ] && echo 0 || echo 1)
