#!/bin/bash
# run every registered check once with the Lean gate (what MANIFEST.json registers), sequentially; refreshes evidence/
# usage: tools/run_all.sh [quick|thorough]   (VERIF_SEED honoured)
cd "$(dirname "$0")/.."
tier=${1:-quick}; bad=0
for i in $(seq -w 1 20); do
  out=$(./check C$i --tier $tier 2>&1); rc=$?
  echo "C$i exit=$rc :: $(echo "$out" | grep -v '^KNOWN-FINDING' | tail -1)"
  echo "$out" | grep '^VIOLATION'
  [ $rc -ne 0 ] && bad=$((bad+1))
done
echo "nonzero=$bad"; exit $([ $bad -eq 0 ] && echo 0 || echo 1)
