import Properties.C03
import Properties.C05
import Properties.C07
import Properties.C14
import Properties.C17
import Properties.C19
import Properties.C20
