import Properties.C03
import Properties.C05
import Properties.C07
