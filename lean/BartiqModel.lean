import BartiqModel.Basic
import BartiqModel.Sexp
import BartiqModel.Routine
