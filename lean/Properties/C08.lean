/-
  C08 — Additive and multiplicative resources accumulate up the hierarchy.
  The preprocessing stage `propagate_child_resources` gives a routine that lacks an additive (multiplicative) resource
  some children have the expression  c₁.res + c₂.res + …  (c₁.res · c₂.res · …) over EXACTLY those children; an explicit
  definition is never touched (C10_propagation_only_adds); by the refinement theorem (C01) each `cᵢ.res` then takes the
  child's own compiled value, so the compiled value is the algebra's sum (product) of the children's values.
-/
import BartiqProofs.Refinement
import Properties.C10
namespace Bartiq
open Expr
variable {V : Type}

/-- the algebra's own addition / multiplication on possibly undefined values -/
def optBin (A : Alg V) (op : BinOp) (a b : Option V) : Option V := a.bind fun x => b.bind fun y => A.bin op x y

theorem eval_foldl_bin (A : Alg V) (ρ : Env V) (op : BinOp) : ∀ (es : List Expr) (acc : Expr),
    eval A ρ (es.foldl (Expr.bin op) acc) = es.foldl (fun v e => optBin A op v (eval A ρ e)) (eval A ρ acc)
  | [], _ => rfl
  | e :: es, acc => by
    simp only [List.foldl_cons]
    rw [eval_foldl_bin A ρ op es]
    rfl

/-- the value of the default expression is the sum of the values of its terms, for every interpretation -/
theorem C08_sumOf_is_sum (A : Alg V) (ρ : Env V) (e : Expr) (es : List Expr) :
    eval A ρ (sumOf (e :: es)) = es.foldl (fun v x => optBin A .add v (eval A ρ x)) (eval A ρ e) :=
  eval_foldl_bin A ρ .add es e

theorem C08_prodOf_is_product (A : Alg V) (ρ : Env V) (e : Expr) (es : List Expr) :
    eval A ρ (prodOf (e :: es)) = es.foldl (fun v x => optBin A .mul v (eval A ρ x)) (eval A ρ e) :=
  eval_foldl_bin A ρ .mul es e

/-- a term `child.res` of the default expression takes the child's own value (the scope holds the children's values) -/
theorem C08_child_reference_is_child_value (top : Env V) (d : VDict V) (c res : String) (v : Option V)
    (h : d.get? (c ++ "." ++ res) = some v) : scopeOf top d (c ++ "." ++ res) = v := by
  simp [scopeOf, h]

/-! `childResMap` lists, for each resource name, exactly the children that have it with the given type -/

def hasRes (c : Routine) (n : String) (ty : ResTy) : Prop := ∃ res ∈ c.resources, res.name = n ∧ res.ty = ty

theorem inner_fold_get (ty : ResTy) (cname : String) : ∀ (rs : List Resource) (acc : Dict (List String)) (n : String) (x : String),
    x ∈ ((rs.foldl (fun acc r => if r.ty = ty then acc.set r.name ((acc.get? r.name).getD [] ++ [cname]) else acc) acc).get? n).getD [] ↔
      (x ∈ (acc.get? n).getD [] ∨ (x = cname ∧ ∃ res ∈ rs, res.name = n ∧ res.ty = ty))
  | [], acc, n, x => by simp
  | r :: rs, acc, n, x => by
    simp only [List.foldl_cons]
    rw [inner_fold_get ty cname rs]
    by_cases hty : r.ty = ty
    · simp only [hty, if_true, Dict.get?_set]
      by_cases hn : r.name = n
      · subst hn
        simp only [if_true, Option.getD_some, List.mem_append, List.mem_cons, List.not_mem_nil, or_false]
        constructor
        · rintro ((h | h) | ⟨h1, res, hres, h2⟩)
          · exact Or.inl h
          · exact Or.inr ⟨h, r, Or.inl rfl, rfl, hty⟩
          · exact Or.inr ⟨h1, res, Or.inr hres, h2⟩
        · rintro (h | ⟨h1, res, hres, h2⟩)
          · exact Or.inl (Or.inl h)
          · rcases hres with rfl | hres
            · exact Or.inl (Or.inr h1)
            · exact Or.inr ⟨h1, res, hres, h2⟩
      · simp only [hn, if_false, List.mem_cons]
        constructor
        · rintro (h | ⟨h1, res, hres, h2⟩)
          · exact Or.inl h
          · exact Or.inr ⟨h1, res, Or.inr hres, h2⟩
        · rintro (h | ⟨h1, res, hres, h2⟩)
          · exact Or.inl h
          · rcases hres with rfl | hres
            · exact absurd h2.1 hn
            · exact Or.inr ⟨h1, res, hres, h2⟩
    · simp only [hty, if_false, List.mem_cons]
      constructor
      · rintro (h | ⟨h1, res, hres, h2⟩)
        · exact Or.inl h
        · exact Or.inr ⟨h1, res, Or.inr hres, h2⟩
      · rintro (h | ⟨h1, res, hres, h2⟩)
        · exact Or.inl h
        · rcases hres with rfl | hres
          · exact absurd h2.2 hty
          · exact Or.inr ⟨h1, res, hres, h2⟩

theorem outer_fold_get (ty : ResTy) : ∀ (cs : List Routine) (acc : Dict (List String)) (n : String) (x : String),
    x ∈ ((cs.foldl (fun acc c => c.resources.foldl (fun acc r => if r.ty = ty then acc.set r.name ((acc.get? r.name).getD [] ++ [c.name]) else acc) acc) acc).get? n).getD [] ↔
      (x ∈ (acc.get? n).getD [] ∨ ∃ c ∈ cs, c.name = x ∧ hasRes c n ty)
  | [], acc, n, x => by simp
  | c :: cs, acc, n, x => by
    simp only [List.foldl_cons]
    rw [outer_fold_get ty cs, inner_fold_get ty c.name]
    simp only [List.mem_cons, hasRes]
    constructor
    · rintro ((h | ⟨h1, h2⟩) | ⟨c', hc', h⟩)
      · exact Or.inl h
      · exact Or.inr ⟨c, Or.inl rfl, h1.symm, h2⟩
      · exact Or.inr ⟨c', Or.inr hc', h⟩
    · rintro (h | ⟨c', hc', h1, h2⟩)
      · exact Or.inl (Or.inl h)
      · rcases hc' with rfl | hc'
        · exact Or.inl (Or.inr ⟨h1.symm, h2⟩)
        · exact Or.inr ⟨c', hc', h1, h2⟩

/-- **exactly those children**: the children listed for a resource name are precisely the children that have a resource of
    that name and type -/
theorem C08_exactly_those_children (children : List Routine) (ty : ResTy) (n : String) (x : String) :
    x ∈ ((childResMap children ty).get? n).getD [] ↔ ∃ c ∈ children, c.name = x ∧ hasRes c n ty := by
  unfold childResMap
  rw [outer_fold_get ty children [] n x]
  simp

/-- an explicit definition takes precedence: the stage leaves every resource the routine defines itself untouched -/
theorem C08_explicit_wins (r : Routine) (x : Resource) (hx : x ∈ r.resources) : x ∈ (propagateChildResourcesStep r).resources := by
  obtain ⟨extra, h⟩ := C10_propagation_only_adds r
  rw [h]; exact List.mem_append_left _ hx

end Bartiq
