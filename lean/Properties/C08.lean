/-
  C08 — Additive and multiplicative resources accumulate up the hierarchy.
  The preprocessing stage `propagate_child_resources` gives a routine that lacks an additive (multiplicative) resource
  some children have the expression  c₁.res + c₂.res + …  (c₁.res · c₂.res · …) over EXACTLY those children; an explicit
  definition is never touched (C10_propagation_only_adds); by the refinement theorem (C01) each `cᵢ.res` then takes the
  child's own compiled value, so the compiled value is the algebra's sum (product) of the children's values.
-/
import BartiqProofs.Refinement
import Properties.C10
import Mathlib.Algebra.BigOperators.Group.List.Basic
import Mathlib.Algebra.Ring.Defs
import Mathlib.Tactic.Ring
namespace Bartiq
open Expr
variable {V : Type}

/-- the algebra's own addition / multiplication on possibly undefined values -/
def optBin (A : Alg V) (op : BinOp) (a b : Option V) : Option V := a.bind fun x => b.bind fun y => A.bin op x y

theorem eval_foldl_bin (A : Alg V) (ρ : Env V) (op : BinOp) : ∀ (es : List Expr) (acc : Expr),
    eval A ρ (es.foldl (Expr.bin op) acc) = es.foldl (fun v e => optBin A op v (eval A ρ e)) (eval A ρ acc)
  | [], _ => rfl
  | e :: es, acc => by
    simp only [List.foldl_cons]
    rw [eval_foldl_bin A ρ op es]
    rfl

/-- the value of the default expression is the sum of the values of its terms, for every interpretation -/
theorem C08_sumOf_is_sum (A : Alg V) (ρ : Env V) (e : Expr) (es : List Expr) :
    eval A ρ (sumOf (e :: es)) = es.foldl (fun v x => optBin A .add v (eval A ρ x)) (eval A ρ e) :=
  eval_foldl_bin A ρ .add es e

theorem C08_prodOf_is_product (A : Alg V) (ρ : Env V) (e : Expr) (es : List Expr) :
    eval A ρ (prodOf (e :: es)) = es.foldl (fun v x => optBin A .mul v (eval A ρ x)) (eval A ρ e) :=
  eval_foldl_bin A ρ .mul es e

/-- a term `child.res` of the default expression takes the child's own value (the scope holds the children's values) -/
theorem C08_child_reference_is_child_value (top : Env V) (d : VDict V) (c res : String) (v : Option V)
    (h : d.get? (c ++ "." ++ res) = some v) : scopeOf top d (c ++ "." ++ res) = v := by
  simp [scopeOf, h]

/-! `childResMap` lists, for each resource name, exactly the children that have it with the given type -/

def hasRes (c : Routine) (n : String) (ty : ResTy) : Prop := ∃ res ∈ c.resources, res.name = n ∧ res.ty = ty

theorem inner_fold_get (ty : ResTy) (cname : String) : ∀ (rs : List Resource) (acc : Dict (List String)) (n : String) (x : String),
    x ∈ ((rs.foldl (fun acc r => if r.ty = ty then acc.set r.name ((acc.get? r.name).getD [] ++ [cname]) else acc) acc).get? n).getD [] ↔
      (x ∈ (acc.get? n).getD [] ∨ (x = cname ∧ ∃ res ∈ rs, res.name = n ∧ res.ty = ty))
  | [], acc, n, x => by simp
  | r :: rs, acc, n, x => by
    simp only [List.foldl_cons]
    rw [inner_fold_get ty cname rs]
    by_cases hty : r.ty = ty
    · simp only [hty, if_true, Dict.get?_set]
      by_cases hn : r.name = n
      · subst hn
        simp only [if_true, Option.getD_some, List.mem_append, List.mem_cons, List.not_mem_nil, or_false]
        constructor
        · rintro ((h | h) | ⟨h1, res, hres, h2⟩)
          · exact Or.inl h
          · exact Or.inr ⟨h, r, Or.inl rfl, rfl, hty⟩
          · exact Or.inr ⟨h1, res, Or.inr hres, h2⟩
        · rintro (h | ⟨h1, res, hres, h2⟩)
          · exact Or.inl (Or.inl h)
          · rcases hres with rfl | hres
            · exact Or.inl (Or.inr h1)
            · exact Or.inr ⟨h1, res, hres, h2⟩
      · simp only [hn, if_false, List.mem_cons]
        constructor
        · rintro (h | ⟨h1, res, hres, h2⟩)
          · exact Or.inl h
          · exact Or.inr ⟨h1, res, Or.inr hres, h2⟩
        · rintro (h | ⟨h1, res, hres, h2⟩)
          · exact Or.inl h
          · rcases hres with rfl | hres
            · exact absurd h2.1 hn
            · exact Or.inr ⟨h1, res, hres, h2⟩
    · simp only [hty, if_false, List.mem_cons]
      constructor
      · rintro (h | ⟨h1, res, hres, h2⟩)
        · exact Or.inl h
        · exact Or.inr ⟨h1, res, Or.inr hres, h2⟩
      · rintro (h | ⟨h1, res, hres, h2⟩)
        · exact Or.inl h
        · rcases hres with rfl | hres
          · exact absurd h2.2 hty
          · exact Or.inr ⟨h1, res, hres, h2⟩

theorem outer_fold_get (ty : ResTy) : ∀ (cs : List Routine) (acc : Dict (List String)) (n : String) (x : String),
    x ∈ ((cs.foldl (fun acc c => c.resources.foldl (fun acc r => if r.ty = ty then acc.set r.name ((acc.get? r.name).getD [] ++ [c.name]) else acc) acc) acc).get? n).getD [] ↔
      (x ∈ (acc.get? n).getD [] ∨ ∃ c ∈ cs, c.name = x ∧ hasRes c n ty)
  | [], acc, n, x => by simp
  | c :: cs, acc, n, x => by
    simp only [List.foldl_cons]
    rw [outer_fold_get ty cs, inner_fold_get ty c.name]
    simp only [List.mem_cons, hasRes]
    constructor
    · rintro ((h | ⟨h1, h2⟩) | ⟨c', hc', h⟩)
      · exact Or.inl h
      · exact Or.inr ⟨c, Or.inl rfl, h1.symm, h2⟩
      · exact Or.inr ⟨c', Or.inr hc', h⟩
    · rintro (h | ⟨c', hc', h1, h2⟩)
      · exact Or.inl (Or.inl h)
      · rcases hc' with rfl | hc'
        · exact Or.inl (Or.inr ⟨h1.symm, h2⟩)
        · exact Or.inr ⟨c', hc', h1, h2⟩

/-- **exactly those children**: the children listed for a resource name are precisely the children that have a resource of
    that name and type -/
theorem C08_exactly_those_children (children : List Routine) (ty : ResTy) (n : String) (x : String) :
    x ∈ ((childResMap children ty).get? n).getD [] ↔ ∃ c ∈ children, c.name = x ∧ hasRes c n ty := by
  unfold childResMap
  rw [outer_fold_get ty children [] n x]
  simp

/-- an explicit definition takes precedence: the stage leaves every resource the routine defines itself untouched -/
theorem C08_explicit_wins (r : Routine) (x : Resource) (hx : x ∈ r.resources) : x ∈ (propagateChildResourcesStep r).resources := by
  obtain ⟨extra, h⟩ := C10_propagation_only_adds r
  rw [h]; exact List.mem_append_left _ hx

/-! ### the "consequently" clause: from node-by-node accumulation to the flat sum over leaves

  The theorems above say what ONE node gets: the sum of its children's values (default propagation), or — for a repetition
  wrapper — its child's value times the sequence's sum (C07_model_*).  The clause "when only leaves define an additive resource,
  the top-level value equals the sum over all leaves of the leaf value weighted by the repetition sums of its repeated ancestors"
  is the algebraic consequence of applying that at every level; it is proved here for value trees over any commutative semiring
  (the tie of the premises to the code is the refinement theorem C01 + the oracle's flat-sum check on real compiled trees). -/

/-- the values the hierarchy computes level by level: a leaf's own value, a plain node's sum over its children, a repetition
    wrapper's child value times the weight of its sequence -/
inductive WTree (R : Type) where
  | leaf (v : R)
  | node (children : List (WTree R))
  | rep (weight : R) (child : WTree R)

namespace WTree
variable {R : Type} [CommSemiring R]

mutual
/-- bottom-up, one level at a time (what compilation does) -/
def value : WTree R → R
  | leaf v => v
  | node cs => valueList cs
  | rep w c => w * value c
def valueList : List (WTree R) → R
  | [] => 0
  | c :: cs => value c + valueList cs
end

mutual
/-- all leaves with the product of the weights of their repeated ancestors -/
def leaves : R → WTree R → List (R × R)
  | acc, leaf v => [(acc, v)]
  | acc, node cs => leavesList acc cs
  | acc, rep w c => leaves (acc * w) c
def leavesList : R → List (WTree R) → List (R × R)
  | _, [] => []
  | acc, c :: cs => leaves acc c ++ leavesList acc cs
end

/-- the flat sum: every leaf value weighted by the repetition sums above it -/
def flat (t : WTree R) : R := ((leaves 1 t).map fun p => p.1 * p.2).sum

mutual
theorem flat_aux : ∀ (t : WTree R) (acc : R), ((leaves acc t).map fun p => p.1 * p.2).sum = acc * value t
  | leaf v, acc => by simp [leaves, value]
  | node cs, acc => by simp only [leaves, value]; exact flatList_aux cs acc
  | rep w c, acc => by simp only [leaves, value]; rw [flat_aux c (acc * w)]; ring
theorem flatList_aux : ∀ (cs : List (WTree R)) (acc : R), ((leavesList acc cs).map fun p => p.1 * p.2).sum = acc * valueList cs
  | [], acc => by simp [leavesList, valueList]
  | c :: cs, acc => by
    simp only [leavesList, valueList, List.map_append, List.sum_append]
    rw [flat_aux c acc, flatList_aux cs acc]; ring
end

end WTree

/-- **the top-level value equals the sum over all leaves of the leaf value weighted by the repetition sums of its repeated
    ancestors** — for every hierarchy shape and depth, over any commutative semiring -/
theorem C08_top_level_is_weighted_leaf_sum {R : Type} [CommSemiring R] (t : WTree R) : t.value = t.flat := by
  unfold WTree.flat
  rw [WTree.flat_aux t 1, one_mul]

-- non-vacuity: root{ leaf 3, rep×4{ node{ leaf 5, leaf 1 } } } = 3 + 4·5 + 4·1 = 27 over ℕ
example : (WTree.node [.leaf 3, .rep 4 (.node [.leaf 5, .leaf 1])] : WTree Nat).value = 27 := by decide

end Bartiq
