/-
  C09 — Results do not depend on listing order.
  Proved here: every place where the model turns a user-ordered (or set-ordered) collection into a result goes either
  through a dictionary LOOKUP (insensitive to the order of a duplicate-free list) or through the canonical sort.
  The order in which children are processed is fixed by the wiring (`sortedChildrenOrder`), not by the listing.
  The order in which the children of a routine are PROCESSED does not matter either: `C09_children_order_irrelevant` — for any
  two orders in which no child is fed by a later one, `_compile` gives the parent the same ports, resources, input parameters,
  constraints and repetition and compiles every child to the same result (BartiqProofs/ChildOrder.lean: compilation sees its
  parameter dictionaries only as mappings, two children without a wire between them commute, and any two valid orders are
  connected by such exchanges); and `C09_children_processed_consistently_with_wiring` — whatever order the children are LISTED in,
  the order `sorted_children_order` returns is such an order.  `C09_relisting_children_everywhere` lifts this to re-listings at
  EVERY level of the hierarchy at once (BartiqProofs/ChildOrderDeep.lean).  PARTIAL: the other list-valued fields (ports,
  resources, connections, links, locals) are covered by the lookup / canonical-sort lemmas above and by the permutation oracle
  of harness/props/c09.py, not by one whole-tree theorem.
-/
import BartiqProofs.SortLemmas
import BartiqProofs.EvaluateLemmas
import BartiqProofs.GraphLemmas
import BartiqProofs.ChildOrderSort
import BartiqProofs.ChildOrderDeep
namespace Bartiq
open Expr

/-- the input parameters computed for a compiled node do not depend on the order in which input parameters or ports are listed -/
theorem C09_input_params_order_irrelevant (ips ips' : List String) (inputs : Dict Expr) (ports ports' : List Port)
    (h1 : ips.Perm ips') (h2 : ports.Perm ports') :
    newInputParams ips inputs ports = newInputParams ips' inputs ports' := by
  unfold newInputParams
  apply dedupSorted_eq_of_perm
  apply List.Perm.append
  · split
    · exact h1
    · exact List.Perm.refl _
  · exact h2.flatMap_right _

/-- local variables, link tables, parameter maps and assignments are consulted by lookup only: listing a duplicate-free
    dictionary in another order changes no substitution -/
theorem C09_dictionary_order_irrelevant (d d' : Dict Expr) (hp : d.Perm d') (hn : (d.map (·.1)).Nodup) (e : Expr) :
    Expr.subst d e = Expr.subst d' e :=
  subst_congr_lookup (Dict.get?_perm hp hn) e

/-- ports are processed by `introduce_port_variables` in the canonical (non-single?, name) order whatever order they are listed in:
    the sorted list of port NAMES is the same for every listing -/
theorem C09_port_names_canonical (ps ps' : List Port) (h : ps.Perm ps') :
    sortBy (fun a b : String => decide (a < b)) (ps.map (·.name)) = sortBy (fun a b => decide (a < b)) (ps'.map (·.name)) :=
  sortBy_eq_of_perm (h.map _)

/-- the order in which the predecessors of a child were collected (a Python `set`) is irrelevant to the graph handed to the
    topological sorter: they are sorted first -/
theorem C09_predecessor_order_irrelevant (preds preds' : List String) (h : preds.Perm preds') :
    sortBy (fun a b : String => decide (a < b)) preds = sortBy (fun a b => decide (a < b)) preds' :=
  sortBy_eq_of_perm h

/-- evaluation does not depend on the order of the assignment mapping (restated from C05 for the listing-order reading) -/
theorem C09_assignment_order_irrelevant (C : Comparator) (c : CRoutine) (σ σ' : Dict Expr)
    (hp : σ.Perm σ') (hn : (σ.map (·.1)).Nodup) : evaluate C c σ = evaluate C c σ' := by
  unfold evaluate
  exact evaluateInternal_congr C (SameAssignment.of_perm hp hn) id c c.name

-- non-vacuity
example : ["b", "a", "c"].Perm ["c", "b", "a"] := by decide

/-- local variables are processed in DEPENDENCY order, whatever order they are listed in: in the order the model of
    `TopologicalSorter(...).static_order()` returns, every variable comes after all the variables its definition mentions, every
    variable appears exactly once, and nothing else appears (from the correctness of Kahn's algorithm, GraphLemmas.staticOrder_spec) -/
theorem C09_locals_in_dependency_order (locals : Dict Expr) (order : List String) (h : localOrder locals = some order) :
    order.Nodup ∧ (∀ v ∈ order, locals.contains v = true) ∧
    ∀ (pre post : List String) (v : String) (e : Expr), order = pre ++ v :: post → locals.get? v = some e →
      ∀ u ∈ fv e, locals.contains u = true → u ∈ pre := by
  unfold localOrder at h
  obtain ⟨h1, h2, h3⟩ := Graph.staticOrder_spec _ order h
  refine ⟨h1, fun v hv => ?_, fun pre post v e ho hg u hu hc => ?_⟩
  · obtain ⟨kv, hkv, hx⟩ := Graph.mem_nodes _ v (h2 v hv)
    simp only [List.mem_map] at hkv
    obtain ⟨x, hx', rfl⟩ := hkv
    rcases hx with rfl | hx
    · exact Dict.contains_of_mem locals x.1 x.2 hx'
    · simp only [List.mem_eraseDups, List.mem_filter] at hx
      exact hx.2
  · subst ho
    rw [Graph.respects_append] at h3
    simp only [Bool.and_eq_true, Graph.respects, List.all_eq_true, Bool.or_eq_true, bne_iff_ne, ne_eq, List.nil_append] at h3
    have hedge : (u, v) ∈ Graph.edges (locals.map fun kv => (kv.1, ((Expr.fv kv.2).filter locals.contains).eraseDups)) := by
      simp only [Graph.edges, List.mem_flatMap, List.mem_map]
      refine ⟨(v, ((Expr.fv e).filter locals.contains).eraseDups), ⟨(v, e), Dict.get?_some_mem' locals v e hg, rfl⟩, u, ?_, rfl⟩
      simp only [List.mem_eraseDups, List.mem_filter]
      exact ⟨hu, hc⟩
    rcases h3.2.1 (u, v) hedge with hne | hmem
    · exact absurd rfl hne
    · simpa using hmem

/-- `_compile` reads its parameter dictionary only as a mapping: the same bindings inserted in another order give the very
    same compiled routine (whole subtree) -/
theorem C09_parameters_as_mapping (C : Comparator) (r : Routine) (σ σ' : Dict Expr) (path : String) (hp : σ.Perm σ')
    (hn : (σ.map (·.1)).Nodup) : compile C σ path r = compile C σ' path r :=
  compile_congr C r σ σ' path ⟨hp, hn⟩

/-- two children without a wire between them can be compiled in either order: the same compiled children, the same compiled
    siblings after them, parameters equal up to the order of dictionary entries -/
theorem C09_independent_children_commute (C : Comparator) (conns : List (Endpoint × Endpoint)) (path : String) (pm : PTree)
    (hw : PWF pm) (a b : Routine) (rest : List Routine) (hab : a.name ≠ b.name) (hind : Independent conns a.name b.name)
    (htd : TargetsDistinct conns) (p : PTree) (ca cb : CRoutine) (ccs : List CRoutine)
    (h : compileChildren C conns path pm (a :: b :: rest) = .ok (p, ca :: cb :: ccs)) :
    ∃ p', compileChildren C conns path pm (b :: a :: rest) = .ok (p', cb :: ca :: ccs) ∧ PEq p p' :=
  compileChildren_swap C conns path pm hw a b rest hab hind htd p ca cb ccs h

/-- **every reordering of the children of a routine that respects the wiring yields equal resources, port sizes, input
    parameters, constraints and repetition at that routine, and the same compiled children** (listed in the respective order).
    Hypotheses: children have distinct names, every port is the target of at most one connection (what verification enforces),
    the incoming parameter dictionary has unique keys, and the references `child.resource` are unambiguous. -/
theorem C09_children_order_irrelevant (C : Comparator) (name : String) (ty : Option String) (ips : List String) (lvs : Dict Expr)
    (lks : Dict (List (String × String))) (ps : List Port) (rs : List Resource) (cs : List (Endpoint × Endpoint))
    (rep : Option Repetition) (cons : List Constraint) (ord : List String) (ch ch' : List Routine) (σ : Dict Expr) (path : String)
    (hσ : Dict.NodupKeys σ) (hperm : ch.Perm ch') (hnd : (ch.map (·.name)).Nodup) (htd : TargetsDistinct cs)
    (hv : ValidOrder cs ch) (hv' : ValidOrder cs ch') (c : CRoutine)
    (h : compile C σ path ⟨name, ty, ips, lvs, lks, ps, rs, cs, rep, cons, ch, ord⟩ = .ok c)
    (hkeys : Dict.NodupKeys (cvList c.children)) :
    ∃ ccs', compile C σ path ⟨name, ty, ips, lvs, lks, ps, rs, cs, rep, cons, ch', ord⟩ = .ok { c with children := ccs' } ∧
      c.children.Perm ccs' :=
  compile_children_order C name ty ips lvs lks ps rs cs rep cons ord ch ch' σ path hσ hperm hnd htd hv hv' c h hkeys

/-- **in particular children are processed consistently with the wiring whatever order they are listed in**: the order
    `sorted_children_order` returns — the listed one if it already follows the data flow, graphlib's otherwise — never puts a
    child before one that feeds it, for every listing and every `children_order` -/
theorem C09_children_processed_consistently_with_wiring (ch : List Routine) (ord o : List String) (conns : List (Endpoint × Endpoint))
    (hn : (ch.map (·.name)).Nodup) (hord : ord.Perm (ch.map (·.name))) (hin : InnerEndpointsIn (ch.map (·.name)) conns)
    (h : sortedChildrenOrder (ch.map (·.name)) ord conns = .ok o) : ValidOrder conns (reorder (·.name) ch o) :=
  sortedChildren_valid ch ord o conns hn hord hin h

-- non-vacuity: two leaves fed from the parent's inputs, no wire between them: both orders are valid, targets are distinct
def leafA : Routine := ⟨"a", none, [], [], [], [⟨"in_0", .input, .sym "N"⟩], [⟨"T", .additive, .sym "N"⟩], [], none, [], [], []⟩
def leafB : Routine := ⟨"b", none, [], [], [], [⟨"in_0", .input, .sym "M"⟩], [⟨"T", .additive, .sym "M"⟩], [], none, [], [], []⟩
def twoWires : List (Endpoint × Endpoint) := [(⟨none, "in_0"⟩, ⟨some "a", "in_0"⟩), (⟨none, "in_1"⟩, ⟨some "b", "in_0"⟩)]
example : ValidOrder twoWires [leafA, leafB] ∧ ValidOrder twoWires [leafB, leafA] := by
  refine ⟨⟨?_, ⟨?_, trivial⟩⟩, ⟨?_, ⟨?_, trivial⟩⟩⟩ <;> intro b hb <;> simp at hb <;> subst hb <;>
    rintro ⟨c, hc, h1, h2⟩ <;> simp [twoWires] at hc <;> rcases hc with rfl | rfl <;> simp [leafA, leafB] at h1 h2
example : TargetsDistinct twoWires := by
  intro c1 h1 c2 h2 he
  simp [twoWires] at h1 h2
  rcases h1 with rfl | rfl <;> rcases h2 with rfl | rfl <;> simp_all
example : Independent twoWires "a" "b" := by
  intro c hc
  simp [twoWires] at hc
  rcases hc with rfl | rfl <;> simp

/-- **re-listing the children at every level of the hierarchy** (each time in an order that respects the wiring, with any
    recorded `children_order`) changes nothing but the order in which compiled children are listed: every routine of the
    compiled hierarchy has the same ports, resources, input parameters, constraints and repetition (`CSim`) -/
theorem C09_relisting_children_everywhere (C : Comparator) (r r' : Routine) (σ : Dict Expr) (path : String) (c : CRoutine)
    (hs : RSim r r') (hσ : Dict.NodupKeys σ) (h : compile C σ path r = .ok c) (href : c.RefsOK) :
    ∃ c', compile C σ path r' = .ok c' ∧ CSim c c' :=
  compile_sim C r r' σ path c hs hσ h href

-- non-vacuity: the two listings of a parent over the two leaves below are related by `RSim`
example : RSim ⟨"root", none, ["N", "M"], [], [], [⟨"in_0", .input, .sym "N"⟩, ⟨"in_1", .input, .sym "M"⟩], [], twoWires, none, [], [leafA, leafB], ["a", "b"]⟩
    ⟨"root", none, ["N", "M"], [], [], [⟨"in_0", .input, .sym "N"⟩, ⟨"in_1", .input, .sym "M"⟩], [], twoWires, none, [], [leafB, leafA], ["b", "a"]⟩ := by
  simp only [RSim, true_and]
  refine ⟨by decide, ?_, ?_, ?_, [leafA, leafB], ?_, List.Perm.swap _ _ _⟩
  · intro c1 h1 c2 h2 he
    simp [twoWires] at h1 h2
    rcases h1 with rfl | rfl <;> rcases h2 with rfl | rfl <;> simp_all
  · refine ⟨?_, ⟨?_, trivial⟩⟩ <;> intro b hb <;> simp at hb <;> subst hb <;>
      rintro ⟨c, hc, h1, h2⟩ <;> simp [twoWires] at hc <;> rcases hc with rfl | rfl <;> simp [leafA, leafB] at h1 h2
  · refine ⟨?_, ⟨?_, trivial⟩⟩ <;> intro b hb <;> simp at hb <;> subst hb <;>
      rintro ⟨c, hc, h1, h2⟩ <;> simp [twoWires] at hc <;> rcases hc with rfl | rfl <;> simp [leafA, leafB] at h1 h2
  · simp only [RSimList]
    refine ⟨leafA, [leafB], rfl, ?_, leafB, [], rfl, ?_, rfl⟩ <;>
      simp [RSim, leafA, leafB, TargetsDistinct, ValidOrder, RSimList]


end Bartiq
