/-
  C09 — Results do not depend on listing order.
  Proved here: every place where the model turns a user-ordered (or set-ordered) collection into a result goes either
  through a dictionary LOOKUP (insensitive to the order of a duplicate-free list) or through the canonical sort.
  The order in which children are processed is fixed by the wiring (`sortedChildrenOrder`), not by the listing.
  PARTIAL: invariance of the whole compiled tree under permutations of `children` needs the graph-theoretic fact that any
  two valid processing orders give the same values; that part is covered by the permutation oracle of harness/props/c09.py
  (all child orders for <= 4 children in the thorough tier) and by the refinement theorem C01 (both orders equal the reading).
-/
import BartiqProofs.SortLemmas
import BartiqProofs.EvaluateLemmas
import BartiqProofs.GraphLemmas
namespace Bartiq
open Expr

/-- the input parameters computed for a compiled node do not depend on the order in which input parameters or ports are listed -/
theorem C09_input_params_order_irrelevant (ips ips' : List String) (inputs : Dict Expr) (ports ports' : List Port)
    (h1 : ips.Perm ips') (h2 : ports.Perm ports') :
    newInputParams ips inputs ports = newInputParams ips' inputs ports' := by
  unfold newInputParams
  apply dedupSorted_eq_of_perm
  apply List.Perm.append
  · split
    · exact h1
    · exact List.Perm.refl _
  · exact h2.flatMap_right _

/-- local variables, link tables, parameter maps and assignments are consulted by lookup only: listing a duplicate-free
    dictionary in another order changes no substitution -/
theorem C09_dictionary_order_irrelevant (d d' : Dict Expr) (hp : d.Perm d') (hn : (d.map (·.1)).Nodup) (e : Expr) :
    Expr.subst d e = Expr.subst d' e :=
  subst_congr_lookup (Dict.get?_perm hp hn) e

/-- ports are processed by `introduce_port_variables` in the canonical (non-single?, name) order whatever order they are listed in:
    the sorted list of port NAMES is the same for every listing -/
theorem C09_port_names_canonical (ps ps' : List Port) (h : ps.Perm ps') :
    sortBy (fun a b : String => decide (a < b)) (ps.map (·.name)) = sortBy (fun a b => decide (a < b)) (ps'.map (·.name)) :=
  sortBy_eq_of_perm (h.map _)

/-- the order in which the predecessors of a child were collected (a Python `set`) is irrelevant to the graph handed to the
    topological sorter: they are sorted first -/
theorem C09_predecessor_order_irrelevant (preds preds' : List String) (h : preds.Perm preds') :
    sortBy (fun a b : String => decide (a < b)) preds = sortBy (fun a b => decide (a < b)) preds' :=
  sortBy_eq_of_perm h

/-- evaluation does not depend on the order of the assignment mapping (restated from C05 for the listing-order reading) -/
theorem C09_assignment_order_irrelevant (C : Comparator) (c : CRoutine) (σ σ' : Dict Expr)
    (hp : σ.Perm σ') (hn : (σ.map (·.1)).Nodup) : evaluate C c σ = evaluate C c σ' := by
  unfold evaluate
  exact evaluateInternal_congr C (SameAssignment.of_perm hp hn) id c c.name

-- non-vacuity
example : ["b", "a", "c"].Perm ["c", "b", "a"] := by decide

/-- local variables are processed in DEPENDENCY order, whatever order they are listed in: in the order the model of
    `TopologicalSorter(...).static_order()` returns, every variable comes after all the variables its definition mentions, every
    variable appears exactly once, and nothing else appears (from the correctness of Kahn's algorithm, GraphLemmas.staticOrder_spec) -/
theorem C09_locals_in_dependency_order (locals : Dict Expr) (order : List String) (h : localOrder locals = some order) :
    order.Nodup ∧ (∀ v ∈ order, locals.contains v = true) ∧
    ∀ (pre post : List String) (v : String) (e : Expr), order = pre ++ v :: post → locals.get? v = some e →
      ∀ u ∈ fv e, locals.contains u = true → u ∈ pre := by
  unfold localOrder at h
  obtain ⟨h1, h2, h3⟩ := Graph.staticOrder_spec _ order h
  refine ⟨h1, fun v hv => ?_, fun pre post v e ho hg u hu hc => ?_⟩
  · obtain ⟨kv, hkv, hx⟩ := Graph.mem_nodes _ v (h2 v hv)
    simp only [List.mem_map] at hkv
    obtain ⟨x, hx', rfl⟩ := hkv
    rcases hx with rfl | hx
    · exact Dict.contains_of_mem locals x.1 x.2 hx'
    · simp only [List.mem_eraseDups, List.mem_filter] at hx
      exact hx.2
  · subst ho
    rw [Graph.respects_append] at h3
    simp only [Bool.and_eq_true, Graph.respects, List.all_eq_true, Bool.or_eq_true, bne_iff_ne, ne_eq, List.nil_append] at h3
    have hedge : (u, v) ∈ Graph.edges (locals.map fun kv => (kv.1, ((Expr.fv kv.2).filter locals.contains).eraseDups)) := by
      simp only [Graph.edges, List.mem_flatMap, List.mem_map]
      refine ⟨(v, ((Expr.fv e).filter locals.contains).eraseDups), ⟨(v, e), Dict.get?_some_mem' locals v e hg, rfl⟩, u, ?_, rfl⟩
      simp only [List.mem_eraseDups, List.mem_filter]
      exact ⟨hu, hc⟩
    rcases h3.2.1 (u, v) hedge with hne | hmem
    · exact absurd rfl hne
    · simpa using hmem

end Bartiq
