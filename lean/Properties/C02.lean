/-
  C02 — Port sizes follow the wires.
  From the refinement theorem (C01): the size of EVERY port of every compiled node, at every point, is the value the
  value-level evaluator assigns to it — for input/through ports the size read in the scope extended by what the wires
  brought in, for output ports the size read after the children have delivered theirs.  Plus the elementary facts about
  how sizes travel: what is pushed along a connection is exactly the compiled size of its source port, and an unsized
  port (whose size is its own port variable) takes exactly what was pushed.
  PARTIAL: as C01 (`plainB`: no closed-form/custom sequences, no user-written sum_over in the refinement theorem).
-/
import BartiqProofs.Refinement
namespace Bartiq
open Expr
variable {V : Type}

/-- every port size of every node refines the reading (ports are part of the compared value tree) -/
theorem C02_port_sizes_refine_reading_partial (A : Alg V) (ρ : Env V) (C : Comparator) (r : Routine) (σ : Dict Expr)
    (c : CRoutine) (path : String) (h : compile C σ path r = .ok c) (hp : plainB r = true) :
    (denoteV A ρ (σ.mapVal (eval A ρ)) r).map (·.ports) = some (c.ports.map fun p => (p.name, p.dir, eval A ρ p.size)) := by
  rw [compile_refines_denoteV A ρ C r σ path c h hp]
  simp [evalTree_ports]

/-- what travels along a connection is the compiled size of its source port, delivered as the target's port variable -/
theorem C02_wire_carries_source_size {α : Type} (cm : List (String × Endpoint)) (sizes : Dict α) (upd : PUpdateG α)
    (h : paramTreeFromSizes cm sizes = .ok upd) :
    ∀ e ∈ upd, ∃ st ∈ cm, e.1 = st.2.routine ∧ e.2.1 = "#" ++ st.2.port ∧ sizes.get? st.1 = some e.2.2 := by
  unfold paramTreeFromSizes at h
  induction cm generalizing upd with
  | nil =>
    simp only [List.mapM_nil, pure, Except.pure, Except.ok.injEq] at h
    subst h; intro e he; cases he
  | cons st rest ih =>
    simp only [List.mapM_cons] at h
    cases hs : sizes.get? st.1 with
    | none => rw [hs] at h; cases h
    | some s =>
      rw [hs] at h
      simp only [pure_bind] at h
      obtain ⟨tl, htl, h⟩ := Except.bind_ok h
      simp only [pure, Except.pure, Except.ok.injEq] at h
      subst h
      intro e he
      simp only [List.mem_cons] at he
      rcases he with rfl | he
      · exact ⟨st, by simp, rfl, rfl, hs⟩
      · obtain ⟨st', hst', h'⟩ := ih tl htl e he
        exact ⟨st', by simp [hst'], h'⟩

/-- an unsized port (size = its own variable `#p`) carries exactly the size that was delivered for `#p` -/
theorem C02_unsized_carries_incoming (d : Dict Expr) (p : String) (v : Expr) (h : d.get? ("#" ++ p) = some v) :
    Expr.subst d (.sym ("#" ++ p)) = v := by
  simp [Expr.subst, substF, h]

/-- a port declared with an expression carries that expression read in the node's own scope -/
theorem C02_sized_carries_declared (A : Alg V) (ρ : Env V) (d : Dict Expr) (size : Expr) (hb : binders size = []) :
    eval A ρ (Expr.subst d size) = eval A (scopeOf ρ (d.mapVal (eval A ρ))) size := by
  have := eval_subst_instV A ρ d size hb
  simpa [instV] using this

/-- delivering a size for a port variable makes it the value looked up afterwards (later deliveries for other names do not
    disturb it) -/
theorem C02_delivered_is_looked_up (d : Dict Expr) (k : String) (v : Expr) : (d.set k v).get? k = some v := by
  simp [Dict.get?_set]

end Bartiq
