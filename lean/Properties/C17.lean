/-
  C17 — Well-formed input never crashes; ill-formed wiring is rejected up front.
  Model: `verify` (BartiqModel/Verify.lean: qref's `verify_topology` + bartiq's `verify_uncompiled_repetitions`) is the
  first step of `compileRoutineWith`.  The places where the Python code would fail with a `KeyError`, `CycleError` or
  `AssertionError` are modelled as `Err.internal`; `C17_compile_raises_only_own_errors` shows them unreachable on soundly
  wired trees (`Routine.sound`, BartiqModel/Sound.lean — executable, evaluated by the driver on every generated routine).
  PARTIAL: that no exception originates inside sympy is outside any model of bartiq.
-/
import BartiqModel.Pipeline
import BartiqProofs.SortTreeLemmas
import BartiqProofs.NoInternal
namespace Bartiq

/-- any topology or repetition problem anywhere in the hierarchy ⇒ a compilation error, before preprocessing or compilation
    produce anything (verification is the first step) -/
theorem C17_rejected_before_result (stages : List Stage) (C : Comparator) (r : Routine)
    (h : (topologyProblems r ++ repetitionProblems r) ≠ []) :
    ∃ m, compileRoutineWith stages C false r = .error (.compilation m) := by
  unfold compileRoutineWith verify
  have : (topologyProblems r ++ repetitionProblems r).isEmpty = false := by
    cases hl : topologyProblems r ++ repetitionProblems r with
    | nil => exact absurd hl h
    | cons _ _ => rfl
  simp only [this, Bool.false_eq_true, if_false]
  exact ⟨_, rfl⟩

/-- a repeated routine that does not have exactly one child, or has resources of its own, is a repetition problem -/
theorem C17_bad_repetition_is_problem (r : Routine) (rep : Repetition) (hr : r.rep = some rep)
    (h : r.children.length ≠ 1 ∨ r.resources.length ≠ 0) : repetitionProblemsHere r ≠ [] := by
  unfold repetitionProblemsHere
  rw [hr]
  rcases h with h | h
  · by_cases h0 : r.children.length = 0
    · simp [h0]
    · have : r.children.length > 1 := by omega
      simp [h0, this]
  · simp [h]

/-- problems found at a node are problems of the whole hierarchy (at the root; the recursion carries them up) -/
theorem C17_root_problem_propagates (r : Routine) (h : repetitionProblemsHere r ≠ []) : repetitionProblems r ≠ [] := by
  obtain ⟨_, _, _, _, _, _, _, _, _, _, ch, _⟩ := r
  simp only [repetitionProblems]
  intro hc
  exact h (List.append_eq_nil_iff.mp hc).1

/-- an unconnected or multiply connected port is a topology problem of that node -/
theorem C17_unconnected_is_problem (r : Routine) (p : String)
    (h : p ∈ (disconnectedHere r)) : topologyProblems r ≠ [] := by
  obtain ⟨_, _, _, _, _, _, _, _, _, _, ch, _⟩ := r
  simp only [topologyProblems]
  intro hc
  have h1 := (List.append_eq_nil_iff.mp hc).1
  have h2 := (List.append_eq_nil_iff.mp h1).2
  rw [h2] at h; cases h

/-- with verification skipped nothing is rejected up front (the exemption in the property) -/
theorem C17_skip_verification (stages : List Stage) (C : Comparator) (r : Routine) :
    compileRoutineWith stages C true r = (do let r ← preprocessWith stages r; let r ← sortTree r; compile C [] r.name r) := by
  unfold compileRoutineWith; simp

-- non-vacuity: a wrapper with a repetition and no children is rejected
example : repetitionProblemsHere (Routine.mk "w" none [] [] [] [] [] [] (some ⟨.num 3, .constant (.num 1)⟩) [] [] []) ≠ [] := by
  decide

/-- **a connection cycle among the children of a routine is always rejected with a compilation error** — also the cycles that
    qref's own `verify_topology` does not see (closed through a child's through port, F13): whenever some child is, along the
    child-to-child wires, (transitively) its own predecessor, `sorted_children_order` — and with it `_compile` — ends in a
    compilation error: the listed order cannot pass the data-flow scan and the topological sorter cannot return an order
    (correctness of the model of graphlib's static_order, GraphLemmas) -/
theorem C17_child_cycle_is_compilation_error (names ord : List String) (conns : List (Endpoint × Endpoint)) (a : String)
    (hnd : ord.Nodup) (hall : ∀ n ∈ names, n ∈ ord) (hc : Graph.Before (childGraph names conns) a a) :
    ∃ m, sortedChildrenOrder names ord conns = .error (.compilation m) :=
  sortedChildrenOrder_cycle names ord conns a hnd hall hc

/-- … and the ordering of the children fails ONLY because of such a cycle: consistent (acyclic) wiring is never rejected here -/
theorem C17_ordering_fails_only_on_cycles (names ord : List String) (conns : List (Endpoint × Endpoint)) (e : Err)
    (h : sortedChildrenOrder names ord conns = .error e) : ∃ a, Graph.Before (childGraph names conns) a a := by
  rw [sortedChildrenOrder_unfold] at h
  split at h
  · cases h
  · cases ho : Graph.staticOrder (childGraph names conns) with
    | none => exact Graph.cycle_of_staticOrder_none _ ho
    | some o => rw [ho] at h; cases h

/-- **well-formed input never crashes `_compile`**: on a soundly wired tree — local variables without circular definitions,
    every connection starting at a port that exists on the side it starts from, repetition wrappers of the propagated shape —
    `_compile` either returns a result or raises bartiq's own compilation error; the `KeyError` / `CycleError` /
    `AssertionError` sites are unreachable.  All hierarchies, all depths, all five sequence kinds, any comparator. -/
theorem C17_compile_raises_only_own_errors (C : Comparator) (r : Routine) (inputs : Dict Expr) (path : String) (e : Err)
    (hs : r.sound = true) (h : compile C inputs path r = .error e) : e.isInternal = false :=
  compile_no_internal C r inputs path e hs h

/-- … and so does the whole pipeline once preprocessing and the ordering of children have produced a sound tree (the driver
    reports `sound` for the tree they produce on every generated routine): verification raises compilation errors only -/
theorem C17_pipeline_raises_only_own_errors (stages : List Stage) (C : Comparator) (skip : Bool) (r r1 r2 : Routine) (e : Err)
    (hp : preprocessWith stages r = .ok r1) (ho : sortTree r1 = .ok r2) (hs : r2.sound = true)
    (h : compileRoutineWith stages C skip r = .error e) : e.isInternal = false := by
  unfold compileRoutineWith at h
  rcases Except.bind_error h with h | ⟨_, _, h⟩
  · cases skip with
    | true => simp [pure, Except.pure] at h
    | false =>
      simp only [Bool.false_eq_true, if_false] at h
      unfold verify at h
      simp only at h
      split at h
      · simp [pure, Except.pure] at h
      · simp only [throw, throwThe, MonadExceptOf.throw, Except.error.injEq] at h; subst h; rfl
  · rw [hp] at h
    simp only [bind, Except.bind] at h
    rw [ho] at h
    exact compile_no_internal C r2 [] r2.name e hs h

/-- evaluation (with or without a functions_map, any assignment) raises nothing but bartiq's own error class either -/
theorem C17_evaluate_raises_only_own_errors (C : Comparator) (c : CRoutine) (σ : Dict Expr) (fns : List FnImpl) (e : Err)
    (h : evaluateWith C c σ fns = .error e) : e.isInternal = false :=
  evaluateInternal_no_internal C σ (Expr.defineFns fns) c c.name e h

/-- a compiled node carries an additive/multiplicative resource under every name its source (or, for a repetition wrapper,
    its only child) promises — what makes the wrapper's assertions hold at every nesting depth -/
theorem C17_wrapper_assertions_hold (C : Comparator) (r : Routine) (inputs : Dict Expr) (path : String) (c : CRoutine)
    (h : compile C inputs path r = .ok c) (n : String) (hn : n ∈ r.amNames) : ∃ x ∈ c.resources, x.name = n ∧ x.ty.isAM = true :=
  compile_am C r inputs path c h n hn

-- non-vacuity: a wrapper with the propagated resource over a leaf that has it is sound; with a resource the leaf lacks it is not
example : (Routine.mk "w" none [] [] [] [] [⟨"T", .additive, .sym "l.T"⟩] [] (some ⟨.sym "N", .constant (.num 1)⟩) []
    [Routine.mk "l" none [] [] [] [] [⟨"T", .additive, .num 3⟩] [] none [] [] []] []).sound = true := by decide +kernel
example : (Routine.mk "w" none [] [] [] [] [⟨"U", .additive, .sym "l.U"⟩] [] (some ⟨.sym "N", .constant (.num 1)⟩) []
    [Routine.mk "l" none [] [] [] [] [⟨"T", .additive, .num 3⟩] [] none [] [] []] []).sound = false := by decide +kernel

-- non-vacuity: a.out -> b.in, b.out -> a.in is such a cycle
example : Graph.Before (childGraph ["a", "b"] [(⟨some "a", "out"⟩, ⟨some "b", "in"⟩), (⟨some "b", "out"⟩, ⟨some "a", "in"⟩)]) "a" "a" :=
  Graph.Before.trans (b := "b") (Graph.Before.edge (by decide)) (Graph.Before.edge (by decide))

/-! ### resource types under sequence kinds (the table harness/props/c17.py walks on the real code) -/

/-- a `qubits` resource under a non-constant sequence, or a resource of type `other`, of the only child of a repeated routine: the
    repetition step produces NO result (and, by `C17_wrapper_assertions_hold` / `processRepeatedResources_error`, what it raises on a
    soundly wired tree is bartiq's own compilation error) — whatever the other resources are and wherever the resource is listed -/
theorem C17_unprocessable_resource_never_compiles (rep : Repetition) (rs : List Resource) (cn : String)
    (childRes : List (String × ResTy)) (nt : String × ResTy) (hm : nt ∈ childRes) (hu : unprocessable rep.seq nt.2 = true) :
    ∀ out, processRepeatedResources rep rs [(cn, childRes)] ≠ .ok out := by
  intro out
  unfold processRepeatedResources
  simp only
  split
  · intro h; cases h
  · apply foldlM_never_ok_of_mem _ nt _ childRes hm
    intro b o
    obtain ⟨n, t⟩ := nt
    cases t with
    | additive => simp [unprocessable] at hu
    | multiplicative => simp [unprocessable] at hu
    | other => simp [throw, throwThe, MonadExceptOf.throw]
    | qubits =>
      cases hs : rep.seq with
      | constant m => rw [hs] at hu; simp [unprocessable] at hu
      | arithmetic a d => simp [throw, throwThe, MonadExceptOf.throw]
      | geometric r => simp [throw, throwThe, MonadExceptOf.throw]
      | closedForm s p n => simp [throw, throwThe, MonadExceptOf.throw]
      | custom t i => simp [throw, throwThe, MonadExceptOf.throw]


/-- … and on a wrapper whose assertions hold (what `C17_wrapper_assertions_hold` gives for every soundly wired tree) the outcome is an
    error that is NOT an internal exception: bartiq's own refusal, for every sequence kind and every position of the resource -/
theorem C17_unprocessable_resource_is_own_error (rep : Repetition) (rs : List Resource) (cn : String)
    (childRes : List (String × ResTy)) (nt : String × ResTy) (hm : nt ∈ childRes) (hu : unprocessable rep.seq nt.2 = true)
    (hit : rep.seq.iteratorOK = true) (hok : rs.all (repResourceOK cn childRes) = true) :
    ∃ e, processRepeatedResources rep rs [(cn, childRes)] = .error e ∧ e.isInternal = false := by
  cases h : processRepeatedResources rep rs [(cn, childRes)] with
  | ok out => exact absurd h (C17_unprocessable_resource_never_compiles rep rs cn childRes nt hm hu out)
  | error e => exact ⟨e, rfl, processRepeatedResources_error hit hok h⟩

/-- the one exception: `qubits` under a CONSTANT sequence is skipped (the wrapper carries no resource of that name) -/
theorem C17_qubits_under_constant_skipped (cnt m : Expr) (cn n : String) :
    processRepeatedResources ⟨cnt, .constant m⟩ [] [(cn, [(n, .qubits)])] = .ok [] := by
  simp [processRepeatedResources, List.foldlM, pure, Except.pure, bind, Except.bind]

-- non-vacuity: a qubits resource listed AFTER an additive one under an arithmetic sequence
example : unprocessable (.arithmetic (.num 1) (.num 2)) ResTy.qubits = true ∧
    (("anc", ResTy.qubits) ∈ [("T", ResTy.additive), ("anc", ResTy.qubits)]) := by
  simp [unprocessable]

end Bartiq
