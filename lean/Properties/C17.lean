/-
  C17 — Well-formed input never crashes; ill-formed wiring is rejected up front.
  Model: `verify` (BartiqModel/Verify.lean: qref's `verify_topology` + bartiq's `verify_uncompiled_repetitions`) is the
  first step of `compileRoutineWith`.  PARTIAL: that no exception originates inside sympy is outside any model of bartiq.
-/
import BartiqModel.Pipeline
import BartiqProofs.SortTreeLemmas
namespace Bartiq

/-- any topology or repetition problem anywhere in the hierarchy ⇒ a compilation error, before preprocessing or compilation
    produce anything (verification is the first step) -/
theorem C17_rejected_before_result (stages : List Stage) (C : Comparator) (r : Routine)
    (h : (topologyProblems r ++ repetitionProblems r) ≠ []) :
    ∃ m, compileRoutineWith stages C false r = .error (.compilation m) := by
  unfold compileRoutineWith verify
  have : (topologyProblems r ++ repetitionProblems r).isEmpty = false := by
    cases hl : topologyProblems r ++ repetitionProblems r with
    | nil => exact absurd hl h
    | cons _ _ => rfl
  simp only [this, Bool.false_eq_true, if_false]
  exact ⟨_, rfl⟩

/-- a repeated routine that does not have exactly one child, or has resources of its own, is a repetition problem -/
theorem C17_bad_repetition_is_problem (r : Routine) (rep : Repetition) (hr : r.rep = some rep)
    (h : r.children.length ≠ 1 ∨ r.resources.length ≠ 0) : repetitionProblemsHere r ≠ [] := by
  unfold repetitionProblemsHere
  rw [hr]
  rcases h with h | h
  · by_cases h0 : r.children.length = 0
    · simp [h0]
    · have : r.children.length > 1 := by omega
      simp [h0, this]
  · simp [h]

/-- problems found at a node are problems of the whole hierarchy (at the root; the recursion carries them up) -/
theorem C17_root_problem_propagates (r : Routine) (h : repetitionProblemsHere r ≠ []) : repetitionProblems r ≠ [] := by
  obtain ⟨_, _, _, _, _, _, _, _, _, _, ch, _⟩ := r
  simp only [repetitionProblems]
  intro hc
  exact h (List.append_eq_nil_iff.mp hc).1

/-- an unconnected or multiply connected port is a topology problem of that node -/
theorem C17_unconnected_is_problem (r : Routine) (p : String)
    (h : p ∈ (disconnectedHere r)) : topologyProblems r ≠ [] := by
  obtain ⟨_, _, _, _, _, _, _, _, _, _, ch, _⟩ := r
  simp only [topologyProblems]
  intro hc
  have h1 := (List.append_eq_nil_iff.mp hc).1
  have h2 := (List.append_eq_nil_iff.mp h1).2
  rw [h2] at h; cases h

/-- with verification skipped nothing is rejected up front (the exemption in the property) -/
theorem C17_skip_verification (stages : List Stage) (C : Comparator) (r : Routine) :
    compileRoutineWith stages C true r = (do let r ← preprocessWith stages r; let r ← sortTree r; compile C [] r.name r) := by
  unfold compileRoutineWith; simp

-- non-vacuity: a wrapper with a repetition and no children is rejected
example : repetitionProblemsHere (Routine.mk "w" none [] [] [] [] [] [] (some ⟨.num 3, .constant (.num 1)⟩) [] [] []) ≠ [] := by
  decide

/-- **a connection cycle among the children of a routine is always rejected with a compilation error** — also the cycles that
    qref's own `verify_topology` does not see (closed through a child's through port, F13): whenever some child is, along the
    child-to-child wires, (transitively) its own predecessor, `sorted_children_order` — and with it `_compile` — ends in a
    compilation error: the listed order cannot pass the data-flow scan and the topological sorter cannot return an order
    (correctness of the model of graphlib's static_order, GraphLemmas) -/
theorem C17_child_cycle_is_compilation_error (names ord : List String) (conns : List (Endpoint × Endpoint)) (a : String)
    (hnd : ord.Nodup) (hall : ∀ n ∈ names, n ∈ ord) (hc : Graph.Before (childGraph names conns) a a) :
    ∃ m, sortedChildrenOrder names ord conns = .error (.compilation m) :=
  sortedChildrenOrder_cycle names ord conns a hnd hall hc

/-- … and the ordering of the children fails ONLY because of such a cycle: consistent (acyclic) wiring is never rejected here -/
theorem C17_ordering_fails_only_on_cycles (names ord : List String) (conns : List (Endpoint × Endpoint)) (e : Err)
    (h : sortedChildrenOrder names ord conns = .error e) : ∃ a, Graph.Before (childGraph names conns) a a := by
  rw [sortedChildrenOrder_unfold] at h
  split at h
  · cases h
  · cases ho : Graph.staticOrder (childGraph names conns) with
    | none => exact Graph.cycle_of_staticOrder_none _ ho
    | some o => rw [ho] at h; cases h

-- non-vacuity: a.out -> b.in, b.out -> a.in is such a cycle
example : Graph.Before (childGraph ["a", "b"] [(⟨some "a", "out"⟩, ⟨some "b", "in"⟩), (⟨some "b", "out"⟩, ⟨some "a", "in"⟩)]) "a" "a" :=
  Graph.Before.trans (b := "b") (Graph.Before.edge (by decide)) (Graph.Before.edge (by decide))

end Bartiq
