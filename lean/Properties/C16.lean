/-
  C16 — Qubit highwater is the maximum over all cuts.
  The running-flow loop of `calculate_highwater` (active flow; per child: watermark = active − inflow + child highwater, then
  active := active − inflow + outflow; finally the outflow) is modelled over an arbitrary ordered additive group and proved
  equal, watermark by watermark, to the CUT formulation: during child j the wires alive are exactly those whose source lies
  before j and whose target lies after j (plus the routine's own through ports).  Hypotheses are those of the property: fully
  wired (each port's size is the total size of the wires attached to it — equal ends by C02), children in chronological order
  (every wire goes forward).  The tie between this numeric loop and `calculate_highwater` is the oracle/correspondence of
  harness/props/c16.py, which recomputes every node's highwater by cut enumeration.
-/
import BartiqModel.Highwater
import Mathlib.Algebra.Order.Group.Defs
import Mathlib.Algebra.BigOperators.Group.List.Basic
import Mathlib.Order.Defs.LinearOrder
import Mathlib.Tactic.Abel
namespace Bartiq

variable {K : Type} [AddCommGroup K]

/-- a wire: positions 0 = the routine's input side, j+1 = child j, n+1 = the routine's output side -/
structure Wire (K : Type) where
  src : Nat
  tgt : Nat
  size : K

/-- total size of the wires satisfying `P` -/
def S (ws : List (Wire K)) (P : Wire K → Prop) [DecidablePred P] : K := (ws.map fun w => if P w then w.size else 0).sum

theorem S_or_disjoint (ws : List (Wire K)) (P Q : Wire K → Prop) [DecidablePred P] [DecidablePred Q]
    (h : ∀ w, ¬ (P w ∧ Q w)) : S ws P + S ws Q = S ws (fun w => P w ∨ Q w) := by
  unfold S
  induction ws with
  | nil => simp
  | cons w ws ih =>
    simp only [List.map_cons, List.sum_cons]
    have hw := h w
    by_cases hp : P w <;> by_cases hq : Q w
    · exact absurd ⟨hp, hq⟩ hw
    · simp only [hp, hq, if_true, if_false, true_or]; rw [← ih]; abel
    · simp only [hp, hq, if_true, if_false, or_true]; rw [← ih]; abel
    · simp only [hp, hq, if_false, or_self]; rw [← ih]; abel

theorem S_sub_subset (ws : List (Wire K)) (P Q : Wire K → Prop) [DecidablePred P] [DecidablePred Q]
    (h : ∀ w ∈ ws, Q w → P w) : S ws P - S ws Q = S ws (fun w => P w ∧ ¬ Q w) := by
  unfold S
  induction ws with
  | nil => simp
  | cons w ws ih =>
    have ih' := ih (fun x hx => h x (List.mem_cons_of_mem _ hx))
    simp only [List.map_cons, List.sum_cons]
    by_cases hp : P w <;> by_cases hq : Q w
    · simp only [hp, hq, if_true, not_true_eq_false, and_false, if_false]; rw [← ih']; abel
    · simp only [hp, hq, if_true, if_false, not_false_eq_true, and_self]; rw [← ih']; abel
    · exact absurd (h w (by simp) hq) hp
    · simp only [hp, hq, if_false, false_and]; rw [← ih']; abel

theorem S_congr (ws : List (Wire K)) (P Q : Wire K → Prop) [DecidablePred P] [DecidablePred Q]
    (h : ∀ w ∈ ws, (P w ↔ Q w)) : S ws P = S ws Q := by
  unfold S
  congr 1
  apply List.map_congr_left
  intro w hw
  by_cases hp : P w
  · simp [hp, (h w hw).mp hp]
  · have : ¬ Q w := fun hq => hp ((h w hw).mpr hq)
    simp [hp, this]

/-- the same list in the cut formulation: wires alive during child `j` (source at a position ≤ j, target beyond j+1) -/
def cuts (ws : List (Wire K)) (thru outR : K) : List (ChildFlow K) → Nat → List K
  | [], _ => [outR]
  | c :: cs, j => (thru + S ws (fun w => w.src ≤ j ∧ j + 1 < w.tgt) + c.hw) :: cuts ws thru outR cs (j + 1)

/-- **flow invariant and main theorem**: with every wire going forward and every child's in/outflow the total of its
    wires, the loop's watermarks ARE the cut values, for every suffix of the children -/
theorem watermarks_eq_cuts (ws : List (Wire K)) (thru outR : K)
    (hfw : ∀ w ∈ ws, w.src < w.tgt) :
    ∀ (cs : List (ChildFlow K)) (j : Nat) (active : K),
      (∀ (i : Nat) (c : ChildFlow K), cs[i]? = some c →
        c.inflow = S ws (fun w => w.tgt = j + i + 1) ∧ c.outflow = S ws (fun w => w.src = j + i + 1)) →
      active = thru + S ws (fun w => w.src ≤ j) - S ws (fun w => w.tgt ≤ j) →
      watermarks outR cs active = cuts ws thru outR cs j
  | [], _, _, _, _ => rfl
  | c :: cs, j, active, hcs, hact => by
    have hc := hcs 0 c rfl
    simp only [Nat.add_zero] at hc
    have h1 : S ws (fun w => w.tgt ≤ j) + S ws (fun w => w.tgt = j + 1) = S ws (fun w => w.tgt ≤ j ∨ w.tgt = j + 1) :=
      S_or_disjoint ws _ _ (by intro w ⟨a, b⟩; omega)
    have h2 : S ws (fun w => w.tgt ≤ j ∨ w.tgt = j + 1) = S ws (fun w => w.tgt ≤ j + 1) :=
      S_congr ws _ _ (by intro w _; constructor <;> intro h <;> omega)
    have h3 : S ws (fun w => w.src ≤ j) - S ws (fun w => w.tgt ≤ j + 1) = S ws (fun w => w.src ≤ j ∧ ¬ w.tgt ≤ j + 1) :=
      S_sub_subset ws (fun w => w.src ≤ j) (fun w => w.tgt ≤ j + 1) (by intro w hw h; have := hfw w hw; omega)
    have h4 : S ws (fun w => w.src ≤ j ∧ ¬ w.tgt ≤ j + 1) = S ws (fun w => w.src ≤ j ∧ j + 1 < w.tgt) :=
      S_congr ws _ _ (by intro w _; constructor <;> intro h <;> omega)
    have h5 : S ws (fun w => w.src ≤ j) + S ws (fun w => w.src = j + 1) = S ws (fun w => w.src ≤ j ∨ w.src = j + 1) :=
      S_or_disjoint ws _ _ (by intro w ⟨a, b⟩; omega)
    have h6 : S ws (fun w => w.src ≤ j ∨ w.src = j + 1) = S ws (fun w => w.src ≤ j + 1) :=
      S_congr ws _ _ (by intro w _; constructor <;> intro h <;> omega)
    simp only [watermarks, cuts]
    congr 1
    · -- the watermark of child j is the cut value
      rw [hact, hc.1, ← h4, ← h3, ← h2, ← h1]; abel
    · -- the loop continues with the invariant re-established one position further
      apply watermarks_eq_cuts ws thru outR hfw cs (j + 1)
      · intro i c' hi
        have := hcs (i + 1) c' (by simpa using hi)
        constructor
        · rw [this.1]; exact S_congr ws _ _ (by intro w _; constructor <;> intro h <;> omega)
        · rw [this.2]; exact S_congr ws _ _ (by intro w _; constructor <;> intro h <;> omega)
      · rw [hact, hc.1, hc.2, ← h6, ← h5, ← h2, ← h1]; abel

variable [LinearOrder K]

theorem le_maxOf_head (x : K) (xs : List K) : x ≤ maxOf x xs := by
  unfold maxOf
  induction xs generalizing x with
  | nil => exact le_refl _
  | cons y ys ih => exact le_trans (le_max_left x y) (ih (max x y))

theorem le_maxOf_mem (x : K) (xs : List K) (y : K) (hy : y ∈ xs) : y ≤ maxOf x xs := by
  unfold maxOf
  induction xs generalizing x with
  | nil => cases hy
  | cons z zs ih =>
    simp only [List.mem_cons] at hy
    simp only [List.foldl_cons]
    rcases hy with rfl | hy
    · exact le_trans (le_max_right x y) (le_maxOf_head (max x y) zs)
    · exact ih (max x z) hy

/-- **C16**: the derived highwater is the local ancillae plus the maximum over the moments before the first child (total
    input size), during each child (wires alive at that moment + the child's own highwater) and after the last child -/
theorem C16_highwater_is_max_cut (ws : List (Wire K)) (thru anc inR outR : K) (cs : List (ChildFlow K))
    (hfw : ∀ w ∈ ws, w.src < w.tgt)
    (hin : inR = thru + S ws (fun w => w.src = 0))
    (hcs : ∀ (i : Nat) (c : ChildFlow K), cs[i]? = some c →
      c.inflow = S ws (fun w => w.tgt = i + 1) ∧ c.outflow = S ws (fun w => w.src = i + 1)) :
    highwaterNum anc inR outR cs = anc + maxOf inR (cuts ws thru outR cs 0) := by
  unfold highwaterNum
  rw [watermarks_eq_cuts ws thru outR hfw cs 0 inR]
  · intro i c hi
    have := hcs i c hi
    constructor
    · rw [this.1]; exact S_congr ws _ _ (by intro w _; constructor <;> intro h <;> omega)
    · rw [this.2]; exact S_congr ws _ _ (by intro w _; constructor <;> intro h <;> omega)
  · rw [hin]
    have h0 : S ws (fun w => w.tgt ≤ 0) = 0 := by
      unfold S
      have : (ws.map fun w => if w.tgt ≤ 0 then w.size else 0) = ws.map fun _ => (0 : K) := by
        apply List.map_congr_left
        intro w hw
        have := hfw w hw
        have : ¬ w.tgt ≤ 0 := by omega
        simp [this]
      rw [this]; simp
    rw [h0, S_congr ws (fun w => w.src ≤ 0) (fun w => w.src = 0) (by intro w _; constructor <;> intro h <;> omega)]
    abel

/-- in particular: never smaller than the routine's total input size plus its ancillae -/
theorem C16_ge_input [IsOrderedAddMonoid K] (anc inR outR : K) (cs : List (ChildFlow K)) :
    anc + inR ≤ highwaterNum anc inR outR cs := by
  unfold highwaterNum
  exact add_le_add_right (le_maxOf_head inR _) anc

theorem watermarks_last (outR : K) : ∀ (cs : List (ChildFlow K)) (active : K), outR ∈ watermarks outR cs active
  | [], _ => by simp [watermarks]
  | c :: cs, active => by simp only [watermarks, List.mem_cons]; exact Or.inr (watermarks_last outR cs _)

/-- … nor than its total output size -/
theorem C16_ge_output [IsOrderedAddMonoid K] (anc inR outR : K) (cs : List (ChildFlow K)) :
    anc + outR ≤ highwaterNum anc inR outR cs := by
  unfold highwaterNum
  exact add_le_add_right (le_maxOf_mem inR _ outR (watermarks_last outR cs inR)) anc

/-- … nor than any child's highwater plus the wires bypassing that child -/
theorem C16_ge_child_plus_bypass [IsOrderedAddMonoid K] (ws : List (Wire K)) (thru anc inR outR : K) (cs : List (ChildFlow K)) (x : K)
    (hx : x ∈ cuts ws thru outR cs 0) (heq : highwaterNum anc inR outR cs = anc + maxOf inR (cuts ws thru outR cs 0)) :
    anc + x ≤ highwaterNum anc inR outR cs := by
  rw [heq]
  exact add_le_add_right (le_maxOf_mem inR _ x hx) anc

/-! ### the code drops watermarks equal to 0 before taking the maximum: harmless on non-negative sizes -/

theorem foldl_max_filter_zero (l : List K) (acc : K) (hacc : 0 ≤ acc) :
    (l.filter (fun w => w ≠ 0)).foldl max acc = l.foldl max acc := by
  induction l generalizing acc with
  | nil => rfl
  | cons w ws ih =>
    by_cases hw : w = 0
    · subst hw
      simp only [ne_eq, not_true_eq_false, decide_false, Bool.false_eq_true, not_false_eq_true, List.filter_cons_of_neg,
        List.foldl_cons, max_eq_left hacc]
      exact ih acc hacc
    · simp only [ne_eq, hw, not_false_eq_true, decide_true, List.filter_cons_of_pos, List.foldl_cons]
      exact ih (max acc w) (le_trans hacc (le_max_left acc w))

theorem maxOf_eq_foldl_zero (x : K) (xs : List K) (hx : 0 ≤ x) : maxOf x xs = (x :: xs).foldl max 0 := by
  simp [maxOf, List.foldl_cons, max_eq_right hx]

/-- **the literal code = the cut formula's value** whenever no watermark is negative (sizes and highwaters are qubit counts):
    dropping the zero watermarks, and returning the ancillae alone when nothing is left, changes nothing -/
theorem C16_zero_filter_harmless (anc inR outR : K) (cs : List (ChildFlow K))
    (hnn : ∀ w ∈ inR :: watermarks outR cs inR, 0 ≤ w) :
    highwaterImpl anc inR outR cs = highwaterNum anc inR outR cs := by
  unfold highwaterImpl highwaterNum
  have hin : 0 ≤ inR := hnn inR (by simp)
  rw [maxOf_eq_foldl_zero inR _ hin, ← foldl_max_filter_zero (inR :: watermarks outR cs inR) 0 (le_refl 0)]
  cases hf : (inR :: watermarks outR cs inR).filter (fun w => w ≠ 0) with
  | nil => simp
  | cons w ws =>
    have hw : 0 ≤ w := hnn w ((List.mem_filter.mp (by rw [hf]; simp : w ∈ (inR :: watermarks outR cs inR).filter (fun w => w ≠ 0))).1)
    simp only
    rw [maxOf_eq_foldl_zero w ws hw]

-- the hypothesis is needed: with a negative "size" the literal code and the cut formula differ
example : highwaterImpl (0 : Int) (-1) 0 [] = -1 ∧ highwaterNum (0 : Int) (-1) 0 [] = 0 := by decide
-- and it is satisfiable: input 3, one child (inflow 3, outflow 2, highwater 5), output 2
example : (∀ w ∈ (3 : Int) :: watermarks 2 [⟨3, 2, 5⟩] 3, 0 ≤ w) ∧ highwaterImpl (1 : Int) 3 2 [⟨3, 2, 5⟩] = 6 := by decide

-- non-vacuity: one child (position 1) fed by a wire of size 3 from the input side (position 0), output wire of size 2
example : (∀ w ∈ ([⟨0, 1, 3⟩, ⟨1, 2, 2⟩] : List (Wire Int)), w.src < w.tgt) := by decide

end Bartiq
