/-
  C06 — Size mismatches are always detected; consistent sizes are never rejected.
  Relative to the comparator contract `CmpSound` (sympy's `expand`-based `compare` is external; the executable instance
  `Cmp.poly` is corresponded with it on every run): a violated constraint is raised only when the two sides differ under
  EVERY assignment; a constraint is dropped only after it was found valid under every assignment; a constraint whose
  status is unknown is kept and re-evaluated by every later `evaluate`; and `introduce_port_variables` produces a
  constraint for each of the three declared forms (constant, repeated symbol, compound).
-/
import BartiqProofs.Refinement
import Mathlib.Data.Rat.Defs
import Mathlib.Data.Rat.Cast.Defs
import Mathlib.Tactic.Ring
namespace Bartiq
open Expr
variable {V : Type}

/-- contract of the comparator: `equal` means equal values everywhere, `unequal` means different values everywhere
    (wherever both sides are defined) -/
structure CmpSound (A : Alg V) (C : Comparator) : Prop where
  equal : ∀ a b, C a b = .equal → ∀ ρ, eval A ρ a = eval A ρ b
  unequal : ∀ a b, C a b = .unequal → ∀ ρ x y, eval A ρ a = some x → eval A ρ b = some y → x ≠ y

/-- non-vacuity of the contract: the comparator that never commits is sound -/
theorem cmpSound_ambiguous (A : Alg V) : CmpSound A (fun _ _ => .ambiguous) :=
  { equal := by intro a b h; cases h
    unequal := by intro a b h; cases h }

/-- evaluating one constraint: it raises only if the (substituted) sides differ under every assignment -/
theorem C06_violation_only_if_always_different (A : Alg V) (C : Comparator) (hC : CmpSound A C) (c : Constraint) (σ : Dict Expr)
    (e : Constraint × Constraint) (h : evaluateConstraint C c σ = .error e) :
    ∀ ρ x y, eval A ρ (Expr.subst σ c.lhs) = some x → eval A ρ (Expr.subst σ c.rhs) = some y → x ≠ y := by
  unfold evaluateConstraint at h
  cases hc : C (Expr.subst σ c.lhs) (Expr.subst σ c.rhs) with
  | equal => simp [hc] at h
  | ambiguous => simp [hc] at h
  | unequal => exact hC.unequal _ _ hc

/-- a constraint is marked satisfied (and dropped by the next evaluation) only if it holds under every assignment -/
theorem C06_dropped_only_if_valid (A : Alg V) (C : Comparator) (hC : CmpSound A C) (c nc : Constraint) (σ : Dict Expr)
    (h : evaluateConstraint C c σ = .ok nc) (hs : nc.status = .satisfied) :
    ∀ ρ, eval A ρ (Expr.subst σ c.lhs) = eval A ρ (Expr.subst σ c.rhs) := by
  unfold evaluateConstraint at h
  cases hc : C (Expr.subst σ c.lhs) (Expr.subst σ c.rhs) with
  | equal => exact hC.equal _ _ hc
  | ambiguous =>
    simp only [hc] at h
    simp only [reduceCtorEq, if_false, Except.ok.injEq] at h
    subst h; cases hs
  | unequal => simp [hc] at h

/-- an undecided constraint is kept, with both sides rewritten by the same simultaneous substitution, so that every later
    `evaluate` checks it again with more information -/
theorem C06_undecided_is_kept (C : Comparator) (c : Constraint) (σ : Dict Expr)
    (hc : C (Expr.subst σ c.lhs) (Expr.subst σ c.rhs) = .ambiguous) :
    evaluateConstraint C c σ = .ok ⟨Expr.subst σ c.lhs, Expr.subst σ c.rhs, .inconclusive⟩ := by
  unfold evaluateConstraint
  simp [hc]

/-- the sides of a retained constraint mean what the declared size and the incoming size mean in the node's scope -/
theorem C06_constraint_sides_are_scope_values (A : Alg V) (ρ : Env V) (σ : Dict Expr) (e : Expr) (hb : binders e = []) :
    eval A ρ (Expr.subst σ e) = eval A (scopeOf ρ (σ.mapVal (eval A ρ))) e := by
  have := eval_subst_instV A ρ σ e hb
  simpa [instV] using this

/-- constants: a port declared with an integer constant gets the constraint `#port = constant` -/
theorem C06_constant_port_constrained (r : Routine) (st st' : IPVState) (port : Port) (k : Int)
    (hnot : ∀ s, port.size ≠ .sym s) (hk : port.size.constInt? = some k) (h : ipvStep r st port = .ok st') :
    (⟨.sym ("#" ++ port.name), port.size, .inconclusive⟩ : Constraint) ∈ st'.addCons.map (fun c => (⟨c.lhs, c.rhs, c.status⟩ : Constraint)) := by
  unfold ipvStep at h
  cases hsz : port.size with
  | sym s => exact absurd hsz (hnot s)
  | num q => simp only [hsz] at h hk; simp only [hk] at h; simp only [pure, Except.pure, bind, Except.bind, Except.ok.injEq] at h; subst h; simp
  | neg a => simp only [hsz] at h hk; simp only [hk] at h; simp only [pure, Except.pure, bind, Except.bind, Except.ok.injEq] at h; subst h; simp
  | bin o a b => simp only [hsz] at h hk; simp only [hk] at h; simp only [pure, Except.pure, bind, Except.bind, Except.ok.injEq] at h; subst h; simp
  | app f as => simp only [hsz] at h hk; simp only [hk] at h; simp only [pure, Except.pure, bind, Except.bind, Except.ok.injEq] at h; subst h; simp
  | big kk b i lo hi => simp only [hsz] at h hk; simp only [hk] at h; simp only [pure, Except.pure, bind, Except.bind, Except.ok.injEq] at h; subst h; simp

/-- repeated symbol: a port whose size is a symbol already fixed by an earlier port gets `#port = #earlier` -/
theorem C06_repeated_symbol_constrained (r : Routine) (st st' : IPVState) (port : Port) (s : String) (w : Expr)
    (hs : port.size = .sym s) (hne : s ≠ "#" ++ port.name) (hw : st.addLocals.get? s = some w) (h : ipvStep r st port = .ok st') :
    st'.addCons = st.addCons ++ [⟨.sym ("#" ++ port.name), w, .inconclusive⟩] := by
  unfold ipvStep at h
  simp only [hs, hw] at h
  rw [if_pos hne] at h
  simp only [pure, Except.pure, bind, Except.bind, Except.ok.injEq] at h
  subst h; rfl

/-- a fresh symbol is bound to the port variable (no constraint is needed: the symbol takes the incoming size) -/
theorem C06_fresh_symbol_bound (r : Routine) (st st' : IPVState) (port : Port) (s : String)
    (hs : port.size = .sym s) (hne : s ≠ "#" ++ port.name) (hw : st.addLocals.get? s = none) (h : ipvStep r st port = .ok st') :
    st'.addLocals = st.addLocals.set s (.sym ("#" ++ port.name)) ∧ st'.addCons = st.addCons := by
  unfold ipvStep at h
  simp only [hs, hw] at h
  rw [if_pos hne] at h
  simp only [pure, Except.pure, bind, Except.bind, Except.ok.injEq] at h
  subst h; exact ⟨rfl, rfl⟩

/-! ### completeness on numbers: once both sides of a retained constraint are closed (all top-level inputs assigned — C04), the
    executable comparator DECIDES it, and a difference of integer sizes is always a violation -/

theorem closedValue_sub (a b : Expr) (va vb : Rat) (ha : Poly.closedValue? a = some va) (hb : Poly.closedValue? b = some vb) :
    Poly.closedValue? (.bin .sub a b) = some (va - vb) := by
  unfold Poly.closedValue? at *
  split at ha
  · rename_i hfa
    split at hb
    · rename_i hfb
      simp only [List.isEmpty_iff] at hfa hfb
      simp only [Expr.fv, hfa, hfb, List.append_nil, List.isEmpty_nil, if_true, Expr.eval, ha, hb, Option.bind_some]
      rfl
    · cases hb
  · cases ha

/-- the comparator on two closed sides with exact values: equal values → equal; different INTEGER values → unequal -/
theorem C06_numeric_sizes_decided (a b : Expr) (va vb : Rat) (ha : Poly.closedValue? a = some va) (hb : Poly.closedValue? b = some vb)
    (hia : va.den = 1) (hib : vb.den = 1) : Cmp.poly a b = if va = vb then .equal else .unequal := by
  unfold Cmp.poly Poly.ofExpr
  rw [closedValue_sub a b va vb ha hb]
  simp only
  have hconst : Poly.isConst? (Poly.const (va - vb)) = some (va - vb) := by
    unfold Poly.const
    by_cases h0 : va - vb = 0
    · simp [h0, Poly.isConst?]
    · simp [h0, Poly.isConst?]
  rw [hconst]
  simp only
  by_cases h : va = vb
  · subst h; simp
  · have hne : va - vb ≠ 0 := sub_ne_zero.mpr h
    have hden : (va - vb).den = 1 := by
      have e1 : ((va.num : Int) : Rat) = va := Rat.coe_int_num_of_den_eq_one hia
      have e2 : ((vb.num : Int) : Rat) = vb := Rat.coe_int_num_of_den_eq_one hib
      rw [← e1, ← e2, ← Int.cast_sub]
      exact Rat.den_intCast _
    simp [h, hne, hden]

/-- **a real difference of integer sizes is always rejected** once the sides are numbers: the evaluation of such a constraint
    with the executable comparator fails exactly when the two values differ -/
theorem C06_numeric_mismatch_always_rejected (c : Constraint) (σ : Dict Expr) (va vb : Rat)
    (ha : Poly.closedValue? (Expr.subst σ c.lhs) = some va) (hb : Poly.closedValue? (Expr.subst σ c.rhs) = some vb)
    (hia : va.den = 1) (hib : vb.den = 1) :
    (va ≠ vb → ∃ e, evaluateConstraint Cmp.poly c σ = .error e) ∧
    (va = vb → ∃ nc, evaluateConstraint Cmp.poly c σ = .ok nc ∧ nc.status = .satisfied) := by
  have hd := C06_numeric_sizes_decided _ _ va vb ha hb hia hib
  constructor
  · intro hne
    simp only [hne, if_false] at hd
    exact ⟨(c, ⟨Expr.subst σ c.lhs, Expr.subst σ c.rhs, .violated⟩), by simp [evaluateConstraint, hd]⟩
  · intro heq
    simp only [heq, if_true] at hd
    exact ⟨⟨Expr.subst σ c.lhs, Expr.subst σ c.rhs, .satisfied⟩, by simp [evaluateConstraint, hd], rfl⟩

-- non-vacuity: 2·3 against 7 is rejected, against 6 accepted
example : Cmp.poly (.bin .mul (.num 2) (.num 3)) (.num 7) = .unequal ∧ Cmp.poly (.bin .mul (.num 2) (.num 3)) (.num 6) = .equal := by
  decide +kernel

end Bartiq
