/-
  C10 — Compilation preserves the structure of the hierarchy.
  Proved for the model's `_compile` (on the tree whose children are already in processing order): names, nesting, types,
  ports with directions, connections are preserved exactly; resources of a non-repeated node keep their names and types;
  default propagation only ADDS additive/multiplicative resources that some child has.  The reordering of children that precedes
  it (`sortTree`, by `sorted_children_order`) keeps every child exactly once (C10_reordering_loses_no_child, from the correctness
  of the model of graphlib's static_order).  That the port-variable stage only permutes ports is covered by the correspondence
  (harness/pipeline.compare_trees) and the oracle of harness/props/c10.py.
-/
import BartiqProofs.CompileSpec
import BartiqProofs.SortTreeLemmas
namespace Bartiq

/-- structure of a node: name, type, non-output ports, output ports (name and direction), connections, children -/
inductive STree where
  | node (name : String) (type : Option String) (nonOut out : List (String × Dir))
      (conns : List (Endpoint × Endpoint)) (children : List STree)

def portSig (ps : List Port) : List (String × Dir) := ps.map fun p => (p.name, p.dir)

mutual
def Routine.shape : Routine → STree
  | ⟨n, ty, _, _, _, ps, _, cs, _, _, ch, _⟩ =>
    .node n ty (portSig (Port.portsOf ps [.input, .through])) (portSig (Port.portsOf ps [.output])) cs (Routine.shapeList ch)
def Routine.shapeList : List Routine → List STree
  | [] => []
  | c :: cs => c.shape :: Routine.shapeList cs
end

mutual
def CRoutine.shape : CRoutine → STree
  | ⟨n, ty, _, ps, _, cs, _, _, ch, _⟩ =>
    .node n ty (portSig (Port.portsOf ps [.input, .through])) (portSig (Port.portsOf ps [.output])) cs (CRoutine.shapeList ch)
def CRoutine.shapeList : List CRoutine → List STree
  | [] => []
  | c :: cs => c.shape :: CRoutine.shapeList cs
end

theorem portsOf_append (a b : List Port) (ds : List Dir) : Port.portsOf (a ++ b) ds = Port.portsOf a ds ++ Port.portsOf b ds := by
  simp [Port.portsOf]

theorem portsOf_idem (ps : List Port) (ds : List Dir) : Port.portsOf (Port.portsOf ps ds) ds = Port.portsOf ps ds := by
  simp [Port.portsOf, List.filter_filter]

theorem portsOf_disjoint (ps : List Port) (ds ds' : List Dir) (h : ∀ d, d ∈ ds → d ∉ ds') :
    Port.portsOf (Port.portsOf ps ds) ds' = [] := by
  simp only [Port.portsOf, List.filter_filter, List.filter_eq_nil_iff]
  intro p _
  simp only [Bool.and_eq_true, List.contains_iff_mem, not_and]
  intro h2 h1
  exact h _ h1 h2

theorem finishNode_shape_ports (name : String) (ty : Option String) (ips : List String) (inputs : Dict Expr) (ps : List Port)
    (cs : List (Endpoint × Endpoint)) (ord : List String) (nc : List Constraint) (σ₁ σ₂ : Dict Expr) (res : List Resource)
    (rep : Option Repetition) (ccs : List CRoutine) :
    let c := finishNode name ty ips inputs ps cs ord nc (evaluatePorts (Port.portsOf ps [.input, .through]) σ₁) σ₂ res rep ccs
    portSig (Port.portsOf c.ports [.input, .through]) = portSig (Port.portsOf ps [.input, .through]) ∧
    portSig (Port.portsOf c.ports [.output]) = portSig (Port.portsOf ps [.output]) := by
  simp only [finishNode, portsOf_append, portsOf_evaluatePorts, portsOf_idem]
  have h1 : Port.portsOf (Port.portsOf ps [.output]) [.input, .through] = [] :=
    portsOf_disjoint ps _ _ (by intro d hd; simp at hd; subst hd; decide)
  have h2 : Port.portsOf (Port.portsOf ps [.input, .through]) [.output] = [] :=
    portsOf_disjoint ps _ _ (by intro d hd; simp at hd; rcases hd with rfl | rfl <;> decide)
  simp only [h1, h2, evaluatePorts, List.map_nil, List.append_nil, List.nil_append, portSig, List.map_map]
  exact ⟨rfl, rfl⟩

mutual
/-- **the compiled hierarchy has exactly the shape of the source** (names, nesting, types, ports+directions, connections) -/
theorem C10_compile_same_shape (C : Comparator) : ∀ (r : Routine) (inputs : Dict Expr) (path : String) (c : CRoutine),
    compile C inputs path r = .ok c → c.shape = r.shape
  | ⟨name, ty, ips, lvs, lks, ps, rs, cs, rep, cons, ch, ord⟩, inputs, path, c, h => by
    obtain ⟨t⟩ := compile_trace h
    have hch := C10_children_same_shape C ch cs path _ t.pm2 t.ccs t.hch
    have hp := finishNode_shape_ports name ty ips inputs ps cs ord t.nc (pmInit t.lv inputs lks ch).self
      (Dict.merge t.pm2.self (childrenVariables t.ccs)) t.res t.rep' t.ccs
    rw [t.hc]
    simp only [CRoutine.shape, Routine.shape, finishNode] at hp ⊢
    rw [hp.1, hp.2, hch]
theorem C10_children_same_shape (C : Comparator) : ∀ (ch : List Routine) (conns : List (Endpoint × Endpoint)) (path : String)
    (pm pm' : PTree) (ccs : List CRoutine), compileChildren C conns path pm ch = .ok (pm', ccs) →
    CRoutine.shapeList ccs = Routine.shapeList ch
  | [], _, _, _, _, ccs, h => by rw [(compileChildren_nil h).2]; rfl
  | c :: cs, conns, path, pm, pm', ccs, h => by
    obtain ⟨cc, upd, ccs', hcc, _, hrest, rfl⟩ := compileChildren_cons h
    simp only [CRoutine.shapeList, Routine.shapeList]
    rw [C10_compile_same_shape C c _ _ cc hcc, C10_children_same_shape C cs conns path _ pm' ccs' hrest]
end

/-- every resource defined in the source of a non-repeated node is present after compilation with the same name and type,
    in the same order, and compilation itself adds none -/
theorem C10_resources_same_names_types (C : Comparator) (r : Routine) (inputs : Dict Expr) (path : String) (c : CRoutine)
    (h : compile C inputs path r = .ok c) (hrep : r.rep = none) :
    c.resources.map (fun x => (x.name, x.ty)) = r.resources.map (fun x => (x.name, x.ty)) := by
  obtain ⟨t⟩ := compile_trace h
  have hr := t.hrep
  rw [hrep] at hr
  simp only [repStep, pure, Except.pure, Except.ok.injEq, Prod.mk.injEq] at hr
  rw [t.hc]
  simp only [finishNode, evaluateResources_shape, ← hr.1]

/-- the only other differences are input parameters: name, type, connections and child order field are copied -/
theorem C10_only_additions (C : Comparator) (r : Routine) (inputs : Dict Expr) (path : String) (c : CRoutine)
    (h : compile C inputs path r = .ok c) :
    c.name = r.name ∧ c.type = r.type ∧ c.conns = r.conns ∧ c.childrenOrder = r.childrenOrder := by
  obtain ⟨t⟩ := compile_trace h
  rw [t.hc]; simp [finishNode]

/-! default propagation (the preprocessing stage) only adds -/

theorem Resource.set_prefix (rs suffix : List Resource) (x : Resource) (h : Resource.has rs x.name = false) :
    ∃ suffix', Resource.set (rs ++ suffix) x = rs ++ suffix' := by
  induction rs with
  | nil => exact ⟨_, rfl⟩
  | cons y ys ih =>
    have hy : y.name ≠ x.name := by
      intro e; simp [Resource.has, Resource.find?, e] at h
    have hys : Resource.has ys x.name = false := by
      simp only [Resource.has, Resource.find?, List.find?_cons] at h ⊢
      simpa [hy] using h
    obtain ⟨s', hs'⟩ := ih hys
    refine ⟨s', ?_⟩
    simp only [List.cons_append, Resource.set, hy, if_false, hs']

theorem Resource.mem_set (l : List Resource) (x y : Resource) (h : y ∈ Resource.set l x) : y ∈ l ∨ y = x := by
  induction l with
  | nil => simp only [Resource.set, List.mem_singleton] at h; exact Or.inr h
  | cons z zs ih =>
    simp only [Resource.set] at h
    split at h
    · simp only [List.mem_cons] at h ⊢
      rcases h with h | h
      · exact Or.inr h
      · exact Or.inl (Or.inr h)
    · simp only [List.mem_cons] at h ⊢
      rcases h with h | h
      · exact Or.inl (Or.inl h)
      · rcases ih h with h | h
        · exact Or.inl (Or.inr h)
        · exact Or.inr h

theorem Resource.mem_foldl_set (xs l : List Resource) (y : Resource) (h : y ∈ xs.foldl Resource.set l) : y ∈ l ∨ y ∈ xs := by
  induction xs generalizing l with
  | nil => exact Or.inl h
  | cons x xs ih =>
    simp only [List.foldl_cons] at h
    rcases ih _ h with h | h
    · rcases Resource.mem_set l x y h with h | h
      · exact Or.inl h
      · exact Or.inr (by simp [h])
    · exact Or.inr (by simp [h])

theorem Resource.foldl_set_prefix (xs rs : List Resource) (h : ∀ x ∈ xs, Resource.has rs x.name = false) :
    ∀ suffix, ∃ suffix', xs.foldl Resource.set (rs ++ suffix) = rs ++ suffix' := by
  induction xs with
  | nil => intro s; exact ⟨s, rfl⟩
  | cons x xs ih =>
    intro s
    obtain ⟨s1, hs1⟩ := Resource.set_prefix rs s x (h x (by simp))
    simp only [List.foldl_cons, hs1]
    exact ih (fun y hy => h y (by simp [hy])) s1

/-- the propagation stage keeps every source resource of the node (same name, type AND value, same position) and only
    appends new ones -/
theorem C10_propagation_only_adds (r : Routine) :
    ∃ extra, (propagateChildResourcesStep r).resources = r.resources ++ extra := by
  unfold propagateChildResourcesStep
  simp only
  have hA : ∀ x ∈ (List.map (fun kv => ({ name := kv.1, ty := ResTy.additive, value := sumOf (List.map (fun c => Expr.sym (c ++ "." ++ kv.1)) kv.2) } : Resource))
        (List.filter (fun kv => !Resource.has r.resources kv.1) (childResMap r.children ResTy.additive))), Resource.has r.resources x.name = false := by
    intro x hx
    simp only [List.mem_map, List.mem_filter] at hx
    obtain ⟨kv, ⟨_, hkv⟩, rfl⟩ := hx
    simpa using hkv
  have hM : ∀ x ∈ (List.map (fun kv => ({ name := kv.1, ty := ResTy.multiplicative, value := prodOf (List.map (fun c => Expr.sym (c ++ "." ++ kv.1)) kv.2) } : Resource))
        (List.filter (fun kv => !Resource.has r.resources kv.1) (childResMap r.children ResTy.multiplicative))), Resource.has r.resources x.name = false := by
    intro x hx
    simp only [List.mem_map, List.mem_filter] at hx
    obtain ⟨kv, ⟨_, hkv⟩, rfl⟩ := hx
    simpa using hkv
  have hextra : ∀ x ∈ List.foldl Resource.set
      (List.map (fun kv => ({ name := kv.1, ty := ResTy.additive, value := sumOf (List.map (fun c => Expr.sym (c ++ "." ++ kv.1)) kv.2) } : Resource))
        (List.filter (fun kv => !Resource.has r.resources kv.1) (childResMap r.children ResTy.additive)))
      (List.map (fun kv => ({ name := kv.1, ty := ResTy.multiplicative, value := prodOf (List.map (fun c => Expr.sym (c ++ "." ++ kv.1)) kv.2) } : Resource))
        (List.filter (fun kv => !Resource.has r.resources kv.1) (childResMap r.children ResTy.multiplicative))),
      Resource.has r.resources x.name = false := by
    intro x hx
    rcases Resource.mem_foldl_set _ _ x hx with h | h
    · exact hA x h
    · exact hM x h
  have := Resource.foldl_set_prefix _ r.resources hextra []
  simpa using this

/-- **exactly the routines of the source**: whatever order `sorted_children_order` computes for a routine whose children have
    distinct names, whose listed order mentions exactly them and whose child-to-child connections mention only them, re-ordering
    the children by it yields a permutation of the children — none dropped, none duplicated -/
theorem C10_reordering_loses_no_child (ch : List Routine) (ord : List String) (conns : List (Endpoint × Endpoint)) (o : List String)
    (hn : (ch.map (·.name)).Nodup) (ho : ord.Perm (ch.map (·.name))) (hin : InnerEndpointsIn (ch.map (·.name)) conns)
    (h : sortedChildrenOrder (ch.map (·.name)) ord conns = .ok o) : (reorder (·.name) ch o).Perm ch :=
  reorder_perm (·.name) ch o hn (sortedChildrenOrder_perm _ ord conns o hn ho hin h)

end Bartiq
