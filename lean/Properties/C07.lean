/-
  C07 — Repetition arithmetic equals the unrolled sum.

  The closed forms below (`Generated.constSum`, `arithSum`, `geomSum`, `constProd`) are regenerated on every run by
  running the code's own `get_sum` / `get_prod` on fresh symbols (harness/translate/sequences.py), so these theorems
  are re-checked against what the code says now.  They hold over an arbitrary field and for every natural count.
-/
import Generated.Sequences
import Mathlib.Algebra.BigOperators.Group.Finset.Basic
import Mathlib.Algebra.BigOperators.Ring.Finset
import Mathlib.Algebra.CharZero.Defs
import Mathlib.Tactic.Ring
import Mathlib.Tactic.FieldSimp
import Mathlib.Tactic.Linarith

namespace Bartiq
open Finset Generated

variable {K : Type} [Field K]

/-- constant sequence: Σ_{i<n} m·x -/
theorem C07_constant_sum (n : ℕ) (m x : K) :
    constSum n m x = ∑ _i ∈ range n, m * x := by
  simp only [constSum, sum_const, card_range, nsmul_eq_mul]; ring

/-- arithmetic sequence: Σ_{i<n} (a + i·d)·x -/
theorem C07_arithmetic_sum [CharZero K] (n : ℕ) (a d x : K) :
    arithSum n a d x = ∑ i ∈ range n, (a + (i : K) * d) * x := by
  induction n with
  | zero => simp [arithSum]
  | succ k ih =>
    rw [sum_range_succ, ← ih]; simp only [arithSum]; push_cast; ring

/-- geometric sequence with ratio ≠ 1: Σ_{i<n} rⁱ·x -/
theorem C07_geometric_sum (n : ℕ) (r x : K) (hr : r ≠ 1) :
    geomSum n r x = ∑ i ∈ range n, r ^ i * x := by
  have h2 : (1 : K) - r ≠ 0 := sub_ne_zero.mpr (Ne.symm hr)
  have h1 : (1 : K) + -1 * r ≠ 0 := by
    have : (1 : K) + -1 * r = 1 - r := by ring
    rw [this]; exact h2
  induction n with
  | zero => simp [geomSum]
  | succ k ih =>
    rw [sum_range_succ, ← ih]; simp only [geomSum]
    have e : ((1 : K) + -1 * r) = 1 - r := by ring
    rw [e]; field_simp; ring

/-- constant sequence, multiplicative resource: Π_{i<n} x^m = x^(n·m) -/
theorem C07_constant_prod (n m : ℕ) (x : K) :
    constProd n m x = ∏ _i ∈ range n, x ^ m := by
  simp [constProd, pow_mul]

/-- the ratio-1 case is genuinely excluded: the closed form the code uses is 0/0 there (it is `0` in a field with
    `x/0 = 0`, not `n·x`) -/
theorem C07_geometric_ratio_one_degenerate (n : ℕ) (x : K) : geomSum n 1 x = 0 := by
  simp [geomSum]

-- non-vacuity: concrete instances over ℚ
example : arithSum (K := ℚ) 4 2 3 5 = (2 + 5 + 8 + 11) * 5 := by norm_num [arithSum]
example : geomSum (K := ℚ) 4 3 2 = (1 + 3 + 9 + 27) * 2 := by norm_num [geomSum]

end Bartiq
