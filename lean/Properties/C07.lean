/-
  C07 — Repetition arithmetic equals the unrolled sum.

  The closed forms below (`Generated.constSum`, `arithSum`, `geomSum`, `constProd`) are regenerated on every run by
  running the code's own `get_sum` / `get_prod` on fresh symbols (harness/translate/sequences.py), so these theorems
  are re-checked against what the code says now.  They hold over an arbitrary field and for every natural count.
-/
import Generated.Sequences
import BartiqModel.Compile
import BartiqProofs.ExprLemmas
import Mathlib.Data.Rat.Cast.CharZero
import Mathlib.Algebra.BigOperators.Group.Finset.Basic
import Mathlib.Algebra.BigOperators.Ring.Finset
import Mathlib.Algebra.CharZero.Defs
import Mathlib.Tactic.Ring
import Mathlib.Tactic.FieldSimp
import Mathlib.Tactic.Linarith

namespace Bartiq
open Finset Generated

variable {K : Type} [Field K]

/-- constant sequence: Σ_{i<n} m·x -/
theorem C07_constant_sum (n : ℕ) (m x : K) :
    constSum n m x = ∑ _i ∈ range n, m * x := by
  simp only [constSum, sum_const, card_range, nsmul_eq_mul]; ring

/-- arithmetic sequence: Σ_{i<n} (a + i·d)·x -/
theorem C07_arithmetic_sum [CharZero K] (n : ℕ) (a d x : K) :
    arithSum n a d x = ∑ i ∈ range n, (a + (i : K) * d) * x := by
  induction n with
  | zero => simp [arithSum]
  | succ k ih =>
    rw [sum_range_succ, ← ih]; simp only [arithSum]; push_cast; ring

/-- geometric sequence with ratio ≠ 1: Σ_{i<n} rⁱ·x -/
theorem C07_geometric_sum (n : ℕ) (r x : K) (hr : r ≠ 1) :
    geomSum n r x = ∑ i ∈ range n, r ^ i * x := by
  have h2 : (1 : K) - r ≠ 0 := sub_ne_zero.mpr (Ne.symm hr)
  have h1 : (1 : K) + -1 * r ≠ 0 := by
    have : (1 : K) + -1 * r = 1 - r := by ring
    rw [this]; exact h2
  induction n with
  | zero => simp [geomSum]
  | succ k ih =>
    rw [sum_range_succ, ← ih]; simp only [geomSum]
    have e : ((1 : K) + -1 * r) = 1 - r := by ring
    rw [e]; field_simp; ring

/-- constant sequence, multiplicative resource: Π_{i<n} x^m = x^(n·m) -/
theorem C07_constant_prod (n m : ℕ) (x : K) :
    constProd n m x = ∏ _i ∈ range n, x ^ m := by
  simp [constProd, pow_mul]

/-- the ratio-1 case is genuinely excluded: the closed form the code uses is 0/0 there (it is `0` in a field with
    `x/0 = 0`, not `n·x`) -/
theorem C07_geometric_ratio_one_degenerate (n : ℕ) (x : K) : geomSum n 1 x = 0 := by
  simp [geomSum]

/-! ### the model of `get_sum` / `get_prod` (BartiqModel/Compile.lean, corresponded with the code on every run) evaluates to the
    unrolled sums — under EVERY interpretation of the expression language in a field of characteristic 0 that gives
    `+ - * /` and natural powers their meaning -/

/-- an interpretation in a field that respects literals, `+ - * /` (division by a non-zero value) and natural powers -/
structure FieldLike (A : Alg K) : Prop where
  lit : ∀ q : ℚ, A.lit q = some (q : K)
  add : ∀ a b, A.bin .add a b = some (a + b)
  sub : ∀ a b, A.bin .sub a b = some (a - b)
  mul : ∀ a b, A.bin .mul a b = some (a * b)
  div : ∀ a b, b ≠ 0 → A.bin .div a b = some (a / b)
  pow : ∀ a (n : ℕ), A.bin .pow a (n : K) = some (a ^ n)

variable {A : Alg K} {ρ : Env K}

/-- constant sequence in the model: additive resource = Σ_{i<n} m·x -/
theorem C07_model_constant_sum (hA : FieldLike A) (cnt m x : Expr) (n : ℕ) (vm vx : K)
    (hc : Expr.eval A ρ cnt = some (n : K)) (hm : Expr.eval A ρ m = some vm) (hx : Expr.eval A ρ x = some vx) :
    ∃ e, Seq.getSum cnt x (.constant m) = .ok e ∧ Expr.eval A ρ e = some (∑ _i ∈ range n, vm * vx) := by
  refine ⟨_, rfl, ?_⟩
  simp only [Expr.eval, hc, hm, hx, Option.bind_some, hA.mul]
  rw [← C07_constant_sum]; simp only [constSum]; congr 1; ring

/-- arithmetic sequence in the model: Σ_{i<n} (a + i·d)·x -/
theorem C07_model_arithmetic_sum [CharZero K] (hA : FieldLike A) (cnt a d x : Expr) (n : ℕ) (va vd vx : K)
    (hc : Expr.eval A ρ cnt = some (n : K)) (ha : Expr.eval A ρ a = some va) (hd : Expr.eval A ρ d = some vd)
    (hx : Expr.eval A ρ x = some vx) :
    ∃ e, Seq.getSum cnt x (.arithmetic a d) = .ok e ∧ Expr.eval A ρ e = some (∑ i ∈ range n, (va + (i : K) * vd) * vx) := by
  refine ⟨_, rfl, ?_⟩
  simp only [Expr.eval, hc, ha, hd, hx, Option.bind_some, hA.mul, hA.add, hA.sub, hA.lit]
  rw [← C07_arithmetic_sum]; simp only [arithSum]; congr 1; push_cast; ring

/-- geometric sequence (ratio ≠ 1) in the model: Σ_{i<n} rⁱ·x -/
theorem C07_model_geometric_sum (hA : FieldLike A) (cnt r x : Expr) (n : ℕ) (vr vx : K) (hr : vr ≠ 1)
    (hc : Expr.eval A ρ cnt = some (n : K)) (hr' : Expr.eval A ρ r = some vr) (hx : Expr.eval A ρ x = some vx) :
    ∃ e, Seq.getSum cnt x (.geometric r) = .ok e ∧ Expr.eval A ρ e = some (∑ i ∈ range n, vr ^ i * vx) := by
  refine ⟨_, rfl, ?_⟩
  have h1 : ((1 : ℚ) : K) - vr ≠ 0 := by
    rw [Rat.cast_one]; exact sub_ne_zero.mpr (Ne.symm hr)
  simp only [Expr.eval, hc, hr', hx, Option.bind_some, hA.mul, hA.sub, hA.lit, hA.pow, hA.div _ _ h1]
  rw [← C07_geometric_sum n vr vx hr]; simp only [geomSum]; congr 1
  have h2 : (1 : K) - vr ≠ 0 := sub_ne_zero.mpr (Ne.symm hr)
  have e : ((1 : K) + -1 * vr) = 1 - vr := by ring
  rw [e, Rat.cast_one]; field_simp; ring

/-- constant sequence, multiplicative resource in the model: Π_{i<n} x^m (natural multiplier) -/
theorem C07_model_constant_prod (hA : FieldLike A) (cnt m x : Expr) (n mm : ℕ) (vx : K)
    (hc : Expr.eval A ρ cnt = some (n : K)) (hm : Expr.eval A ρ m = some (mm : K)) (hx : Expr.eval A ρ x = some vx) :
    ∃ e, Seq.getProd cnt x (.constant m) = .ok e ∧ Expr.eval A ρ e = some (∏ _i ∈ range n, vx ^ mm) := by
  refine ⟨_, rfl, ?_⟩
  simp only [Expr.eval, hc, hm, hx, Option.bind_some, hA.mul]
  rw [show ((n : K) * (mm : K)) = ((n * mm : ℕ) : K) by push_cast; ring, hA.pow]
  rw [← C07_constant_prod]; simp only [constProd]; congr 1; ring_nf

/-- … and `sum_over` its meaning (a sum over the integers lo..hi; empty when hi = lo - 1) -/
structure FieldLikeBig (A : Alg K) : Prop extends FieldLike A where
  bigsum : ∀ (n : ℕ) (f : Int → Option K) (g : ℕ → K), (∀ i : ℕ, i < n → f (i : Int) = some (g i)) →
    A.big .sum 0 ((n : K) - 1) f = some (∑ i ∈ range n, g i)

/-- custom sequence in the model: Σ_{i<n} term(i)·x, the term expression read with the iterator bound to i -/
theorem C07_model_custom_sum (hA : FieldLikeBig A) (cnt t x : Expr) (it : String) (n : ℕ) (gt : ℕ → K) (vx : K)
    (hc : Expr.eval A ρ cnt = some (n : K))
    (ht : ∀ i : ℕ, i < n → Expr.eval A (ρ.update it (A.lit (((i : Int) : ℚ)))) t = some (gt i))
    (hx : ∀ i : ℕ, i < n → Expr.eval A (ρ.update it (A.lit (((i : Int) : ℚ)))) x = some vx) :
    ∃ e, Seq.getSum cnt x (.custom t (.sym it)) = .ok e ∧ Expr.eval A ρ e = some (∑ i ∈ range n, gt i * vx) := by
  refine ⟨_, rfl, ?_⟩
  simp only [Expr.eval, hc, Option.bind_some, hA.lit, hA.sub, Rat.cast_zero, Rat.cast_one]
  apply hA.bigsum n _ (fun i => gt i * vx)
  intro i hi
  have ht' := ht i hi
  have hx' := hx i hi
  simp only [hA.lit] at ht' hx'
  simp only [ht', hx', Option.bind_some, hA.mul]

/-- closed-form sequence in the model: the child's resource times the user's sum formula read at `count` -/
theorem C07_model_closed_form_sum (hA : FieldLike A) (cnt s p x : Expr) (nn : String) (n : ℕ) (vs vx : K)
    (hb : Expr.binders s = [])
    (hc : Expr.eval A ρ cnt = some (n : K)) (hx : Expr.eval A ρ x = some vx)
    (hs : Expr.eval A (ρ.update nn (some (n : K))) s = some vs) :
    ∃ e, Seq.getSum cnt x (.closedForm (some s) p (.sym nn)) = .ok e ∧ Expr.eval A ρ e = some (vx * vs) := by
  refine ⟨_, rfl, ?_⟩
  have hu : Expr.under A ρ (Dict.get? [(nn, cnt)]) = ρ.update nn (some (n : K)) := by
    funext y
    simp only [Expr.under, Dict.get?, Env.update]
    by_cases hy : nn = y
    · subst hy; simp [hc]
    · have : ¬ y = nn := fun h => hy h.symm
      simp [hy, this]
  simp only [Expr.eval, hx, Option.bind_some]
  rw [Expr.eval_subst A _ ρ s (Expr.noCapture_of_no_binders hb), hu, hs]
  simp [hA.mul]

-- non-vacuity: exact rational arithmetic is such an interpretation
def ratFieldAlg : Alg ℚ :=
  { lit := some, neg := fun a => some (-a),
    bin := fun op a b => match op with
      | .add => some (a + b) | .sub => some (a - b) | .mul => some (a * b)
      | .div => if b = 0 then none else some (a / b)
      | .pow => if b.den = 1 ∧ 0 ≤ b.num then some (a ^ b.num.toNat) else none
      | _ => none,
    fn := fun _ _ => none, big := fun _ _ _ _ => none }

example : FieldLike ratFieldAlg where
  lit := by intro q; simp [ratFieldAlg]
  add := by intros; rfl
  sub := by intros; rfl
  mul := by intros; rfl
  div := by intro a b hb; simp [ratFieldAlg, hb]
  pow := by intro a n; simp [ratFieldAlg]

theorem bigFold_sum (f : Int → Option ℚ) (g : ℕ → ℚ) : ∀ (n : ℕ), (∀ i : ℕ, i < n → f (i : Int) = some (g i)) →
    RatAlg.bigFold .sum f 0 n = some (∑ i ∈ range n, g i)
  | 0, _ => by simp [RatAlg.bigFold]
  | n + 1, h => by
    have ih := bigFold_sum f g n (fun i hi => h i (Nat.lt_succ_of_lt hi))
    have hn := h n (Nat.lt_succ_self n)
    simp only [RatAlg.bigFold, ih, Option.bind_some, Int.zero_add, hn, sum_range_succ]

/-- the model's own exact-rational `sum_over` satisfies the law -/
example : FieldLikeBig { ratFieldAlg with big := RatAlg.big } where
  lit := by intro q; simp [ratFieldAlg]
  add := by intros; rfl
  sub := by intros; rfl
  mul := by intros; rfl
  div := by intro a b hb; simp [ratFieldAlg, hb]
  pow := by intro a n; simp [ratFieldAlg]
  bigsum := by
    intro n f g h
    have e : ((n : ℚ) - 1) = (((n : Int) - 1 : Int) : ℚ) := by push_cast; ring
    simp only [RatAlg.big]
    rw [e]
    simp only [Rat.den_intCast, Rat.num_intCast, Rat.den_ofNat, Rat.num_ofNat, and_self, if_true]
    have : ((n : Int) - 1 + 1 - 0).toNat = n := by omega
    rw [this]
    exact bigFold_sum f g n h

-- non-vacuity: concrete instances over ℚ
example : arithSum (K := ℚ) 4 2 3 5 = (2 + 5 + 8 + 11) * 5 := by norm_num [arithSum]
example : geomSum (K := ℚ) 4 3 2 = (1 + 3 + 9 + 27) * 2 := by norm_num [geomSum]

end Bartiq
