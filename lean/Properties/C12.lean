/-
  C12 — Expressions survive being written out and read back.
  print ∘ parse = id is proved for the model printer (`printWith`, BartiqModel/Printer.lean): standard minimal parentheses
  for sums/products/signs (what sympy's StrPrinter does) and bartiq's own policy around `^`, given by the table
  `Generated.parenTable` that is probed from the REAL `serialize` on every run.  The proof composes the printer lemma with the
  parser theorem of C11.  PARTIAL: sympy's lowering of its canonical Add/Mul/Pow objects to the printed layout (term order,
  sign extraction, numerator/denominator split) is external; that the printed layout denotes the same value is covered by
  the oracle of harness/props/c12.py, and the Lean parser is corresponded with the real parser on the printed texts.
-/
import BartiqProofs.PrinterRoundTrip
import Generated.Printer
namespace Bartiq

/-- **round trip**: parsing what the printer wrote gives back exactly the tree that was printed (all well-formed surface trees:
    any nesting of + - * / // % **, signs, calls, names, non-negative literals), for the table read from the real printer -/
theorem C12_roundtrip (t : SExpr) (h : wfs t = true) : parseToks (printWith Generated.parenTable t) = some t :=
  parse_print Generated.parenTable t h

/-- the real printer's decisions around `^`, as probed this run, are sufficient on their own -/
theorem C12_table_adequate : ParenTable.Adequate Generated.parenTable := by
  unfold ParenTable.Adequate
  decide

theorem cls_of_low_level (a : SExpr) (h : a.level < 5) : a.cls ∈ ["negnum", "rational", "add", "mul", "pow", "neg"] := by
  cases a with
  | num q => simp [SExpr.level] at h
  | name s => simp [SExpr.level] at h
  | call f args => simp [SExpr.level] at h
  | neg a => cases a <;> simp [SExpr.cls]
  | pos a => simp [SExpr.cls]
  | bin op a b =>
    cases a <;> cases b <;> simp only [SExpr.cls] <;> (repeat' split) <;> simp

/-- with an adequate table the model printer parenthesises a power's base exactly where the real printer does (the extra
    safety guard of the model never fires) -/
theorem C12_table_alone_suffices (tbl : ParenTable) (hA : tbl.Adequate) (a : SExpr) :
    (tbl.paren "powBase" a.cls || decide (a.level < 5)) = tbl.paren "powBase" a.cls := by
  by_cases h : a.level < 5
  · have := hA.1 a.cls (cls_of_low_level a h)
    simp [this]
  · simp [h]

/-- the re-read expression has the same symbols and the same calls, because it is the same tree -/
theorem C12_same_symbols_and_calls (t t' : SExpr) (h : wfs t = true)
    (h' : parseToks (printWith Generated.parenTable t) = some t') : t' = t := by
  rw [C12_roundtrip t h] at h'
  exact (Option.some.inj h').symm

/-- names (plain, dotted, `#port`, reserved words) are printed as themselves, as one token -/
theorem C12_names_print_as_themselves (tbl : ParenTable) (s : String) : printWith tbl (.name s) = [Tok.name s] := rfl

-- non-vacuity: (a ** b) ** c is printed with the base parenthesised and reads back as itself
example : printWith Generated.parenTable (.bin "**" (.bin "**" (.name "a") (.name "b")) (.name "c")) =
    [Tok.lp, Tok.name "a", Tok.pow, Tok.name "b", Tok.rp, Tok.pow, Tok.name "c"] := by decide

end Bartiq
