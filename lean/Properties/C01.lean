/-
  C01 — Compilation preserves the meaning of every resource.

  Main theorem (Layer B): on the preprocessed hierarchy, for EVERY interpretation of the operators and functions and
  EVERY point ρ of the compiled inputs, the values of the compiled tree are the values the value-level evaluator
  `denoteV` (BartiqModel/Denote.lean: no substitution anywhere; names are looked up per scope, children's values
  flow along links, wires and `child.resource` references) computes from the source.
  PARTIAL (named so): `plainB` admits repetition wrappers with constant, arithmetic and geometric sequences (the wrapper's
  resources are then the closed forms of `get_sum`/`get_prod` over the child's VALUE, which C07_model_* equate with the unrolled
  sums); it excludes closed-form and custom sequences and user-written sum_over/prod_over (expressions that bind an iterator).
  Those are covered by the correspondence and by the oracle.  That the value-level evaluator on
  the preprocessed routine agrees with the declarative bottom-up reading of the SOURCE document (preprocessing stages,
  child order) is checked by differential execution (driver command `denote` vs harness/refsem.py), not proved.
-/
import BartiqProofs.Refinement
import BartiqModel.Pipeline
namespace Bartiq
open Expr

variable {V : Type}

/-- **compile refines the value-level reading** (any depth, fan-out, wiring, links, locals, shared names) -/
theorem C01_compile_refines_reading_partial (A : Alg V) (ρ : Env V) (C : Comparator) (r : Routine) (c : CRoutine)
    (path : String) (h : compile C [] path r = .ok c) (hp : plainB r = true) :
    denoteV A ρ [] r = some (evalTree A ρ c) := by
  have := compile_refines_denoteV A ρ C r [] path c h hp
  simpa using this

/-- the same below the root: a subroutine compiled with the values `σ` handed down by its ancestors means what the
    evaluator computes when handed the VALUES of `σ` -/
theorem C01_subroutine_refines_reading_partial (A : Alg V) (ρ : Env V) (C : Comparator) (r : Routine) (σ : Dict Expr)
    (c : CRoutine) (path : String) (h : compile C σ path r = .ok c) (hp : plainB r = true) :
    denoteV A ρ (σ.mapVal (eval A ρ)) r = some (evalTree A ρ c) :=
  compile_refines_denoteV A ρ C r σ path c h hp

/-- through the whole pipeline: verification, the preprocessing stages read from the source, child ordering, `_compile` -/
theorem C01_pipeline_refines_reading_partial (A : Alg V) (ρ : Env V) (C : Comparator) (stages : List Stage) (skip : Bool)
    (q : Routine) (c : CRoutine) (h : compileRoutineWith stages C skip q = .ok c) :
    ∃ r, (preprocessWith stages q >>= sortTree) = .ok r ∧ (plainB r = true → denoteV A ρ [] r = some (evalTree A ρ c)) := by
  unfold compileRoutineWith at h
  obtain ⟨_, _, h⟩ := Except.bind_ok h
  obtain ⟨r1, hr1, h⟩ := Except.bind_ok h
  obtain ⟨r2, hr2, h⟩ := Except.bind_ok h
  refine ⟨r2, ?_, fun hp => C01_compile_refines_reading_partial A ρ C r2 c _ h hp⟩
  rw [hr1]; exact hr2

/-- the elementary step, with no restriction on the expression language other than the capture guard: a substituted
    expression means the original read in the scope -/
theorem C01_resource_step (A : Alg V) (σ : Dict Expr) (ρ : Env V) (e : Expr) (h : NoCapture σ.get? e) :
    eval A ρ (Expr.subst σ e) = eval A (under A ρ σ.get?) e := eval_subst A σ ρ e h

/-- a parameter nobody links becomes a top-level input named by its path: `promote_unlinked_inputs` adds the input
    `child.param` to the parent together with the link `child.param → (child, param)` -/
theorem C01_unlinked_becomes_path_input (r : Routine) (c : Routine) (p : String) (hc : c ∈ r.children) (hp : p ∈ c.inputParams)
    (hun : (c.name, p) ∉ r.linked.flatMap (·.2)) :
    (c.name ++ "." ++ p) ∈ (promoteUnlinkedInputsStep r).inputParams := by
  unfold promoteUnlinkedInputsStep
  simp only [List.mem_append]
  right
  have hmem : (c.name ++ "." ++ p, [(c.name, p)]) ∈
      r.children.flatMap (fun c => (c.inputParams.filter fun i => !(r.linked.flatMap (·.2)).contains (c.name, i)).map fun i =>
        (c.name ++ "." ++ i, [(c.name, i)])) := by
    simp only [List.mem_flatMap, List.mem_map, List.mem_filter]
    refine ⟨c, hc, p, ⟨hp, ?_⟩, rfl⟩
    simpa using hun
  -- keys of `ofList` contain every key of the list
  have hkeys : ∀ (l : List (String × List (String × String))) (k : String) (v : List (String × String)) (acc : Dict (List (String × String))),
      ((k, v) ∈ l ∨ k ∈ acc.keys) → k ∈ (l.foldl (fun acc kv => acc.set kv.1 kv.2) acc).keys := by
    intro l
    induction l with
    | nil =>
      intro k v acc h
      rcases h with h | h
      · cases h
      · exact h
    | cons x xs ih =>
      intro k v acc h
      simp only [List.foldl_cons]
      apply ih k v
      have hset : ∀ (d : Dict (List (String × String))) (a : String) (b : List (String × String)), a ∈ (d.set a b).keys := by
        intro d a b
        induction d with
        | nil => simp [Dict.set, Dict.keys]
        | cons y ys ihy =>
          simp only [Dict.set]
          by_cases hy : y.1 = a
          · simp [hy, Dict.keys]
          · simp only [hy, if_false, Dict.keys, List.map_cons, List.mem_cons]; right; exact ihy
      have hmono : ∀ (d : Dict (List (String × String))) (a : String) (b : List (String × String)) (k : String), k ∈ d.keys → k ∈ (d.set a b).keys := by
        intro d a b k hk
        induction d with
        | nil => simp [Dict.keys] at hk
        | cons y ys ihy =>
          simp only [Dict.set]
          by_cases hy : y.1 = a
          · simpa [hy, Dict.keys] using hk
          · simp only [hy, if_false, Dict.keys, List.map_cons, List.mem_cons] at hk ⊢
            rcases hk with hk | hk
            · exact Or.inl hk
            · exact Or.inr (ihy hk)
      rcases h with h | h
      · simp only [List.mem_cons] at h
        rcases h with h | h
        · right; rw [← h]; exact hset acc k v
        · left; exact h
      · right; exact hmono acc x.1 x.2 k h
  exact hkeys _ _ _ [] (Or.inl hmem)

-- non-vacuity: a repetition wrapper (arithmetic sequence, symbolic count) around a leaf is within `plainB`
example : plainB ⟨"w", none, ["N"], [], [], [], [⟨"T", .additive, .sym "core.T"⟩], [],
    some ⟨.sym "N", .arithmetic (.num 1) (.sym "N")⟩, [],
    [⟨"core", none, [], [], [], [], [⟨"T", .additive, .num 3⟩], [], none, [], [], []⟩], ["core"]⟩ = true := by decide

end Bartiq
