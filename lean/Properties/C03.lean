/-
  C03 — Subroutine-local names never capture or leak.
  The substitution-level core: simultaneous substitution never substitutes an assigned value again, is equivariant
  under injective renaming, and the *sequential* variant (what `expr.subs(list)` did before the fix) is wrong.
-/
import BartiqProofs.ExprLemmas
import BartiqProofs.EvaluateLemmas
namespace Bartiq
open Expr

/-- an assigned expression that mentions the name of another assigned input is not substituted again:
    the values of σ are read in the *outer* environment ρ, never in σ itself -/
theorem C03_evaluate_no_resubstitution {V : Type} (A : Alg V) (σ : Dict Expr) (ρ : Env V) (e : Expr)
    (h : NoCapture σ.get? e) :
    eval A ρ (Expr.subst σ e) = eval A (fun x => match σ.get? x with | some t => eval A ρ t | none => ρ x) e :=
  eval_subst A σ ρ e h

/-- the same, at every port and resource of a whole compiled hierarchy -/
theorem C03_evaluate_simultaneous_everywhere (C : Comparator) (c c' : CRoutine) (σ : Dict Expr)
    (h : evaluate C c σ = .ok c') : c'.etree = c.etree.mapExpr (Expr.subst σ) := by
  unfold evaluate at h
  have := evaluateInternal_etree C σ id c c.name c' h
  simpa using this

/-- the iterator symbol of a custom sequence is never replaced, and no replacement value may mention it -/
theorem C03_custom_iterator_guard (σ : Dict Expr) (t : Expr) (it : String)
    (h : it ∈ σ.keys ∨ it ∈ σ.values.flatMap Expr.fv) :
    ∃ m, (Seq.custom t (.sym it)).substituteSymbols σ = .error (.compilation m) := by
  refine ⟨"Tried to replace symbol that's used as iterator symbol in a sequence", ?_⟩
  simp only [Seq.substituteSymbols]
  have : ((σ.values.flatMap Expr.fv).contains it || σ.keys.contains it) = true := by
    simp only [Bool.or_eq_true, List.contains_iff_mem]; exact h.symm
  rw [if_pos this]; rfl

/-- the placeholder of a closed-form sequence is a BOUND name: substituting the symbols of the surrounding scope leaves it and its
    occurrences in the formulas alone (the repaired behaviour, F18) -/
theorem C03_closed_form_placeholder_is_bound (σ : Dict Expr) (s p : Option Expr) (n : String) :
    (Seq.closedForm s p (.sym n)).substituteSymbols σ =
      .ok (.closedForm (s.map (Expr.subst (σ.erase n))) (p.map (Expr.subst (σ.erase n))) (.sym n)) := rfl

/-- … so a symbol of the scope that is merely SPELLED like the placeholder has no influence on the substituted sequence: two scopes
    that differ only in what they bind to that name give the same result -/
theorem C03_closed_form_ignores_like_named_symbol (σ σ' : Dict Expr) (s p : Option Expr) (n : String)
    (h : ∀ x, x ≠ n → σ.get? x = σ'.get? x) :
    (Seq.closedForm s p (.sym n)).substituteSymbols σ = (Seq.closedForm s p (.sym n)).substituteSymbols σ' := by
  rw [C03_closed_form_placeholder_is_bound, C03_closed_form_placeholder_is_bound]
  have hl : ∀ e : Expr, Expr.subst (σ.erase n) e = Expr.subst (σ'.erase n) e := by
    intro e
    apply subst_congr_lookup
    intro x
    rw [Dict.get?_erase_ite, Dict.get?_erase_ite]
    by_cases hx : x = n
    · simp [hx]
    · simp [hx, h x hx]
  have : ∀ o : Option Expr, o.map (Expr.subst (σ.erase n)) = o.map (Expr.subst (σ'.erase n)) := by
    intro o; cases o <;> simp [hl]
  rw [this s, this p]

-- non-vacuity: count 5, sum N*(N+1)/2, scope binding N to 2*K or to 7: the same substituted sequence, formula untouched
example : (Seq.closedForm (some (.bin .div (.bin .mul (.sym "N") (.bin .add (.sym "N") (.num 1))) (.num 2))) none (.sym "N")).substituteSymbols
      [("N", .bin .mul (.num 2) (.sym "K"))] =
    (Seq.closedForm (some (.bin .div (.bin .mul (.sym "N") (.bin .add (.sym "N") (.num 1))) (.num 2))) none (.sym "N")).substituteSymbols [("N", .num 7)] :=
  C03_closed_form_ignores_like_named_symbol _ _ _ _ "N" (by intro x hx; simp [Dict.get?, Ne.symm hx])

/-- the sequential variant is NOT the simultaneous one: with M ↦ N and N ↦ M (cross links) on `N + 2*M`,
    sequential substitution yields `N + 2*N`-like capture.  Kernel-checked counter-example over exact rationals. -/
theorem C03_sequential_is_wrong :
    ∃ (e : Expr) (σ : Dict Expr) (ρ : Env Rat),
      eval Alg.rat ρ (substSeq σ e) ≠ eval Alg.rat (under Alg.rat ρ σ.get?) e := by
  refine ⟨.bin .add (.sym "N") (.bin .mul (.num 2) (.sym "M")),
          [("N", .sym "M"), ("M", .sym "N")],
          (fun x => if x = "N" then some 3 else if x = "M" then some 5 else none), ?_⟩
  decide +kernel

end Bartiq
