/-
  C18 — Rendering is total and complete on every routine bartiq accepts.
  Model: `latexEntries` / `formatterOf` (BartiqModel/Latex.lean).  Proved: the entry list contains an entry for every input
  parameter, every port (input, output AND through) and every resource of the top-level routine, and — unless disabled — one
  entry for every resource of every descendant (with multiplicity: two same-named subroutines get two entries); the name
  formatters never hand the empty string to `sympy.symbols` for a non-empty name.  PARTIAL: `sympy.latex` and the expression
  parser never raising on bartiq's expressions is a contract exercised by harness/props/c18.py only.
-/
import BartiqModel.Latex
namespace Bartiq

theorem C18_complete_input_params (r : Routine) (s : Bool) (p : String) (h : p ∈ r.inputParams) :
    ⟨.inputParams, p⟩ ∈ latexEntries r s := by
  unfold latexEntries
  simp only [List.mem_append, List.mem_map]
  exact Or.inl (Or.inl (Or.inl (Or.inl (Or.inl (Or.inl (Or.inl (Or.inl ⟨p, h, rfl⟩)))))))

/-- every port has an entry in the section of its direction — through ports included -/
theorem C18_complete_ports (r : Routine) (s : Bool) (p : Port) (h : p ∈ r.ports) :
    ⟨portSection p.dir, p.name⟩ ∈ latexEntries r s := by
  unfold latexEntries
  simp only [List.mem_append, List.mem_map, List.mem_filter]
  cases hd : p.dir with
  | input => exact Or.inl (Or.inl (Or.inl (Or.inl (Or.inl (Or.inl (Or.inr ⟨p, ⟨h, by simp [hd]⟩, by simp [portSection]⟩))))))
  | output => exact Or.inl (Or.inl (Or.inl (Or.inl (Or.inl (Or.inr ⟨p, ⟨h, by simp [hd]⟩, by simp [portSection]⟩)))))
  | through => exact Or.inl (Or.inl (Or.inl (Or.inl (Or.inr ⟨p, ⟨h, by simp [hd]⟩, by simp [portSection]⟩))))

theorem C18_complete_root_resources (r : Routine) (s : Bool) (x : Resource) (h : x ∈ r.resources) :
    ⟨.resources, x.name⟩ ∈ latexEntries r s := by
  unfold latexEntries
  simp only [List.mem_append, List.mem_map]
  exact Or.inl (Or.inr ⟨x, h, rfl⟩)

/-- unless disabled, every resource of every descendant has an entry -/
theorem C18_complete_subroutine_resources (r d : Routine) (x : Resource) (hd : d ∈ descendants r) (hx : x ∈ d.resources) :
    ⟨.resources, d.name ++ "." ++ x.name⟩ ∈ latexEntries r true := by
  unfold latexEntries
  simp only [List.mem_append, if_true, List.mem_flatMap, List.mem_map]
  exact Or.inr ⟨d, hd, x, hx, rfl⟩

/-- with multiplicity: the number of resource entries is the number of root resources plus the total number of resources of
    all descendants (nothing is merged or dropped when two subroutines share a name) -/
theorem C18_resource_entry_count (r : Routine) :
    ((latexEntries r true).filter (fun (e : Entry) => e.sec = Section.resources)).length =
      r.resources.length + ((descendants r).map (·.resources.length)).sum := by
  unfold latexEntries
  simp only [List.filter_append, List.length_append, if_true]
  have h0 : ∀ (l : List String), ((l.map (fun p => (⟨.inputParams, p⟩ : Entry))).filter (fun (e : Entry) => e.sec = Section.resources)).length = 0 := by
    intro l; simp [List.filter_map, Function.comp_def]
  have hres : ((r.resources.map (fun x => (⟨.resources, x.name⟩ : Entry))).filter (fun (e : Entry) => e.sec = Section.resources)).length = r.resources.length := by
    simp [List.filter_map, Function.comp_def]
  have hsub : (((descendants r).flatMap (fun d => d.resources.map fun x => (⟨.resources, d.name ++ "." ++ x.name⟩ : Entry))).filter (fun (e : Entry) => e.sec = Section.resources)).length =
      ((descendants r).map (·.resources.length)).sum := by
    induction descendants r with
    | nil => rfl
    | cons d ds ih =>
      simp only [List.flatMap_cons, List.filter_append, List.length_append, List.map_cons, List.sum_cons, ih]
      simp [List.filter_map, Function.comp_def]
  rw [hres, hsub]
  cases r.rep <;> simp [List.filter_map, Function.comp_def]

/-- a walk reaches every child and, through it, every deeper descendant -/
theorem C18_children_are_descendants (r c : Routine) (h : c ∈ r.children) : c ∈ descendants r := by
  obtain ⟨_, _, _, _, _, _, _, _, _, _, ch, _⟩ := r
  simp only [descendants]
  simp only at h
  induction ch with
  | nil => cases h
  | cons x xs ih =>
    simp only [walkList, List.mem_append]
    simp only [List.mem_cons] at h
    rcases h with rfl | h
    · left
      obtain ⟨_, _, _, _, _, _, _, _, _, _, ch', _⟩ := c
      simp [walk]
    · right; exact ih h

theorem splitFirst_join (c : Char) (p : List Char) (h : c ∈ p) :
    p = (splitFirst c p).1 ++ c :: (splitFirst c p).2 := by
  induction p with
  | nil => cases h
  | cons x xs ih =>
    simp only [splitFirst]
    by_cases hx : x = c
    · simp [hx]
    · simp only [hx, if_false]
      simp only [List.mem_cons] at h
      rcases h with h | h
      · exact absurd h.symm hx
      · simp only [List.cons_append, List.cons.injEq, true_and]; exact ih h

/-- **totality of the name formatting**: for a non-empty parameter name no formatter ever calls `sympy.symbols("")`
    (the failure `ValueError: no symbols given`) -/
theorem C18_format_total (p : List Char) (hp : p ≠ []) : ∀ a ∈ symbolsArgs p, a ≠ [] := by
  unfold symbolsArgs
  cases hf : formatterOf p with
  | text => intro a ha; cases ha
  | math => intro a ha; simp only [List.mem_singleton] at ha; subst ha; exact hp
  | mathSubscript =>
    unfold formatterOf at hf
    split at hf
    · split at hf
      · simp only at hf
        split at hf
        · cases hf
        · rename_i hne
          simp only [Bool.or_eq_true, List.isEmpty_iff, not_or] at hne
          intro a ha
          simp only [List.mem_cons, List.mem_singleton, List.not_mem_nil, or_false] at ha
          rcases ha with rfl | rfl
          · exact hne.2
          · exact hne.1
      · cases hf
    · cases hf

-- the names that used to crash are now rendered as text
example : formatterOf "_x".toList = .text ∧ formatterOf "x_".toList = .text ∧ formatterOf "_".toList = .text ∧
    formatterOf "x_y".toList = .mathSubscript ∧ formatterOf "a_b_c".toList = .text ∧ formatterOf "N".toList = .math := by decide

end Bartiq
