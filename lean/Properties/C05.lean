/-
  C05 — Evaluation is simultaneous substitution, composable and order-free.
  Model: `evaluate` / `evaluateInternal` (BartiqModel/Pipeline.lean), tied to `compilation/_evaluate.py` by the
  correspondence of harness/props/c05.py.  PARTIAL: the final rounding of folded numbers to 15 significant
  digits (IEEE / mpmath) is not modelled; `C05_numeric_exact` is about exact values.  `functions_map` is modelled as the
  bottom-up rewriting `Expr.defineFn` (BartiqModel/Functions.lean) with implementations given as parameter list + body.
-/
import BartiqProofs.EvaluateLemmas
import BartiqProofs.FunctionLemmas
namespace Bartiq
open Expr

/-- the result does not depend on the order in which assignments are listed -/
theorem C05_order_free (C : Comparator) (c : CRoutine) (σ σ' : Dict Expr)
    (hp : σ.Perm σ') (hn : (σ.map (·.1)).Nodup) : evaluate C c σ = evaluate C c σ' := by
  unfold evaluate
  exact evaluateInternal_congr C (SameAssignment.of_perm hp hn) id c c.name

/-- everywhere in the hierarchy (ports and resources of every node) each assigned input is replaced, all at once -/
theorem C05_everywhere (C : Comparator) (c c' : CRoutine) (σ : Dict Expr) (h : evaluate C c σ = .ok c') :
    c'.etree = c.etree.mapExpr (Expr.subst σ) := by
  unfold evaluate at h
  have := evaluateInternal_etree C σ id c c.name c' h
  simpa using this

/-- an empty assignment changes no port size and no resource anywhere -/
theorem C05_empty (C : Comparator) (c c' : CRoutine) (h : evaluate C c [] = .ok c') : c'.etree = c.etree := by
  rw [C05_everywhere C c c' [] h]
  exact ETree.mapExpr_id _ _ subst_nil

/-- unassigned inputs are untouched: an expression none of whose symbols is assigned is left as it is -/
theorem C05_unassigned_untouched (σ : Dict Expr) (e : Expr) (h : ∀ x ∈ fv e, σ.get? x = none) : Expr.subst σ e = e :=
  substF_of_disjoint e σ.get? h

/-- the remaining input parameters of every node are exactly those not assigned -/
theorem C05_remaining_inputs (C : Comparator) (c c' : CRoutine) (σ : Dict Expr) (h : evaluate C c σ = .ok c') :
    c'.itree = c.itree.map (fun ips => dedupSorted (ips.filter fun p => !σ.contains p)) := by
  unfold evaluate at h
  exact evaluateInternal_itree C σ id c c.name c' h

/-- evaluating in two steps, the first with closed (numeric) values, equals evaluating once with the union:
    stated on every port size and resource of every node -/
theorem C05_staged (C : Comparator) (c c₁ c₂ c₁₂ : CRoutine) (σ₁ σ₂ : Dict Expr)
    (hnum : ∀ kv ∈ σ₁, fv kv.2 = [])
    (h1 : evaluate C c σ₁ = .ok c₁) (h2 : evaluate C c₁ σ₂ = .ok c₂) (h12 : evaluate C c (σ₁ ++ σ₂) = .ok c₁₂) :
    c₂.etree = c₁₂.etree := by
  rw [C05_everywhere C c₁ c₂ σ₂ h2, C05_everywhere C c c₁ σ₁ h1, C05_everywhere C c c₁₂ _ h12, ETree.mapExpr_comp]
  exact ETree.mapExpr_congr _ _ _ (fun e => subst_staged σ₁ σ₂ e hnum)

/-- with the inputs assigned, the value of the evaluated expression is the value of the original expression at the
    assigned values (exact, for every interpretation of the operators and functions) -/
theorem C05_numeric_exact {V : Type} (A : Alg V) (σ : Dict Expr) (ρ : Env V) (e : Expr) (h : NoCapture σ.get? e) :
    eval A ρ (Expr.subst σ e) = eval A (under A ρ σ.get?) e := eval_subst A σ ρ e h

/-- user-supplied implementations are applied in EVERY expression of the hierarchy, after the substitution: every port size
    and resource of every node is `defineFns fns (subst σ e)` -/
theorem C05_functions_everywhere (C : Comparator) (c c' : CRoutine) (σ : Dict Expr) (fns : List FnImpl)
    (h : evaluateWith C c σ fns = .ok c') : c'.etree = c.etree.mapExpr (fun e => defineFns fns (Expr.subst σ e)) := by
  unfold evaluateWith at h
  exact evaluateInternal_etree C σ (defineFns fns) c c.name c' h

/-- … and to every call of the named function inside such an expression — nested in itself, inside other calls, inside
    sums: no call of the name is left (the body does not call the name again; calls with another number of arguments are
    what the real wrapper leaves unevaluated, excluded by `arityOK`) -/
theorem C05_functions_reach_every_call (I : FnImpl) (hb : I.name ∉ heads I.body) (e : Expr) (ha : arityOK I e = true) :
    I.name ∉ heads (defineFn I e) := defineFn_no_calls I hb e ha

/-- … and what is put in place of the calls is the implementation's value: in every interpretation `A` of the remaining
    operators and functions, the rewritten expression has exactly the value (or undefinedness) of the original expression
    read with the names interpreted by the implementations (`Alg.withFns`); implementations are closed formulas in their
    parameters (`FnImpl.Plain`) -/
theorem C05_functions_are_interpretation {V : Type} (A : Alg V) (fns : List FnImpl) (hp : ∀ I ∈ fns, I.Plain)
    (ρ : Env V) (e : Expr) : eval A ρ (defineFns fns e) = eval (A.withFns fns) ρ e := eval_defineFns fns hp A e ρ

-- non-vacuity: g(x) = 2x+3 is a plain implementation, g(g(-3)) has the right arities, and the rewriting yields -3 (the
-- input on which the unrepaired code returned g(-3), finding F15)
def gImpl : FnImpl := ⟨"g", ["x"], .bin .add (.bin .mul (.num 2) (.sym "x")) (.num 3)⟩
example : gImpl.Plain := ⟨by simp [gImpl, binders], by simp [gImpl, fv], by simp [gImpl, fv], by simp [gImpl]⟩
example : "g" ∉ heads gImpl.body := by simp [gImpl, heads]
example : arityOK gImpl (.app "g" [.app "g" [.num (-3)]]) = true := by decide
example : eval Alg.rat (fun _ => none) (defineFn gImpl (.app "g" [.app "g" [.num (-3)]])) = some (-3) := by decide +kernel

-- non-vacuity: a concrete assignment with two keys, one value mentioning the other key, and its permutation
example : ([("N", Expr.bin .add (.sym "M") (.num 1)), ("M", .num 3)] : Dict Expr).Perm [("M", .num 3), ("N", Expr.bin .add (.sym "M") (.num 1))] :=
  List.Perm.swap _ _ _
example : ((([("N", Expr.num 1), ("M", .num 3)] : Dict Expr)).map (·.1)).Nodup := by decide

end Bartiq
