/-
  C13 — Routines survive QREF export and import.
  Model: `Routine.toQ` / `QRoutine.fromQ` (BartiqModel/Qref.lean), parametrised by the expression codec (printer, parser) whose
  round trip is C11/C12.  Proved: importing an exported routine succeeds and yields the same routine with every expression
  replaced by its re-read form — same structure, names, types, directions, connections, parameter links, local-variable
  names, kind of sequence, presence/absence of optional sequence fields (constraints are not part of the document).
  PARTIAL: the textual encoding of endpoints and link targets, pydantic's validation and the export of COMPILED results are
  covered by the oracle of harness/props/c13.py (with one listed finding: port-variable input names).
-/
import BartiqModel.Qref
namespace Bartiq

/-- the codec reads back what it printed -/
def Codec.RoundTrips (c : Codec) (f : Expr → Expr) : Prop := ∀ e, c.ps (c.pr e) = some (f e)

theorem mapM_roundtrip {α β γ : Type} (enc : α → β) (dec : β → Option γ) (g : α → γ) (h : ∀ a, dec (enc a) = some (g a)) :
    ∀ (l : List α), (l.map enc).mapM dec = some (l.map g)
  | [] => rfl
  | a :: as => by
    simp only [List.map_cons, List.mapM_cons, h a, mapM_roundtrip enc dec g h as]
    rfl

theorem seq_roundtrip (c : Codec) (f : Expr → Expr) (hc : c.RoundTrips f) (s : Seq) : (s.toQ c).fromQ c = some (s.mapExpr f) := by
  cases s with
  | constant m => simp [Seq.toQ, QSeq.fromQ, Seq.mapExpr, hc m]
  | arithmetic i d => simp [Seq.toQ, QSeq.fromQ, Seq.mapExpr, hc i, hc d]
  | geometric r => simp [Seq.toQ, QSeq.fromQ, Seq.mapExpr, hc r]
  | closedForm s p n =>
    cases s <;> cases p <;> simp [Seq.toQ, QSeq.fromQ, Seq.mapExpr, optParse, hc n, hc _]
  | custom t i => simp [Seq.toQ, QSeq.fromQ, Seq.mapExpr, hc t, hc i]

mutual
/-- **export then import** gives back the routine itself, with each expression re-read (structure preserved exactly) -/
theorem C13_roundtrip_structure (c : Codec) (f : Expr → Expr) (hc : c.RoundTrips f) :
    ∀ (r : Routine), (r.toQ c).fromQ c = some (r.reread f)
  | ⟨n, ty, ips, lvs, lks, ps, rs, cs, rep, cons, ch, ord⟩ => by
    have hl := mapM_roundtrip (fun kv : String × Expr => (kv.1, c.pr kv.2)) (fun kv : String × String => (c.ps kv.2).map fun e => (kv.1, e))
      (fun kv => (kv.1, f kv.2)) (by intro kv; simp [hc kv.2]) lvs
    have hp := mapM_roundtrip (fun p : Port => (⟨p.name, p.dir, c.pr p.size⟩ : QPort)) (fun p : QPort => (c.ps p.size).map fun e => (⟨p.name, p.dir, e⟩ : Port))
      (fun p => { p with size := f p.size }) (by intro p; simp [hc p.size]) ps
    have hr := mapM_roundtrip (fun r : Resource => (⟨r.name, r.ty, c.pr r.value⟩ : QResource)) (fun r : QResource => (c.ps r.value).map fun e => (⟨r.name, r.ty, e⟩ : Resource))
      (fun r => { r with value := f r.value }) (by intro r; simp [hc r.value]) rs
    have hch := C13_roundtrip_children c f hc ch
    simp only [Routine.toQ, QRoutine.fromQ, hl, hp, hr, hch]
    cases rep with
    | none => simp [Routine.reread]
    | some rp => simp [Routine.reread, hc rp.count, seq_roundtrip c f hc rp.seq]
theorem C13_roundtrip_children (c : Codec) (f : Expr → Expr) (hc : c.RoundTrips f) :
    ∀ (rs : List Routine), QRoutine.fromQList c (Routine.toQList c rs) = some (Routine.rereadList f rs)
  | [] => rfl
  | r :: rs => by
    simp [Routine.toQList, QRoutine.fromQList, Routine.rereadList, C13_roundtrip_structure c f hc r, C13_roundtrip_children c f hc rs]
end

/-- re-reading changes no name, type, direction, connection, link or nesting -/
theorem C13_reread_preserves_skeleton (f : Expr → Expr) (r : Routine) :
    (r.reread f).name = r.name ∧ (r.reread f).type = r.type ∧ (r.reread f).inputParams = r.inputParams ∧
    (r.reread f).linked = r.linked ∧ (r.reread f).conns = r.conns ∧
    (r.reread f).ports.map (fun p => (p.name, p.dir)) = r.ports.map (fun p => (p.name, p.dir)) ∧
    (r.reread f).resources.map (fun x => (x.name, x.ty)) = r.resources.map (fun x => (x.name, x.ty)) ∧
    (r.reread f).localVars.map (·.1) = r.localVars.map (·.1) ∧
    (r.reread f).children.length = r.children.length := by
  obtain ⟨n, ty, ips, lvs, lks, ps, rs, cs, rep, cons, ch, ord⟩ := r
  simp only [Routine.reread, List.map_map, Function.comp_def, true_and]
  have : ∀ (l : List Routine), (Routine.rereadList f l).length = l.length := by
    intro l; induction l with
    | nil => rfl
    | cons a as ih => simp [Routine.rereadList, ih]
  exact this ch

/-- the kind of sequence and the presence of its optional fields survive (an absent `prod` stays absent) -/
theorem C13_sequence_kind_preserved (f : Expr → Expr) (s : Seq) : (s.mapExpr f).kind = s.kind := by
  cases s <;> rfl

theorem C13_absent_field_stays_absent (c : Codec) (s p : Option Expr) (n : Expr) :
    (Seq.closedForm s p n).toQ c = .closedForm (s.map c.pr) (p.map c.pr) (c.pr n) := rfl

/-- if the codec is exact (re-reading is the identity, as C12 shows for the model printer/parser on surface trees) the round
    trip is the identity up to the dropped constraints -/
theorem C13_roundtrip_exact (c : Codec) (hc : c.RoundTrips id) (r : Routine) : (r.toQ c).fromQ c = some (r.reread id) :=
  C13_roundtrip_structure c id hc r

end Bartiq
