/-
  C13 — Routines survive QREF export and import.
  Model: `Routine.toQ` / `QRoutine.fromQ` (BartiqModel/Qref.lean), parametrised by the expression codec (printer, parser) whose
  round trip is C11/C12.  Proved: importing an exported routine succeeds and yields the same routine with every expression
  replaced by its re-read form — same structure, names, types, directions, connections, parameter links, local-variable
  names, kind of sequence, presence/absence of optional sequence fields (constraints are not part of the document).
  The textual encodings of endpoints (`child.port`) and link targets (`path.param`, split at the last dot) are part of the
  model and of the theorem (names dot-free, as QREF's name pattern demands; link sources distinct, as `from_qref` merges them).
  PARTIAL: pydantic's validation and the export of COMPILED results are covered by the oracle of harness/props/c13.py (with
  one listed finding: port-variable input names).
-/
import BartiqModel.Qref
import BartiqProofs.QrefLemmas
namespace Bartiq

/-- the codec reads back what it printed -/
def Codec.RoundTrips (c : Codec) (f : Expr → Expr) : Prop := ∀ e, c.ps (c.pr e) = some (f e)

theorem mapM_roundtrip {α β γ : Type} (enc : α → β) (dec : β → Option γ) (g : α → γ) (h : ∀ a, dec (enc a) = some (g a)) :
    ∀ (l : List α), (l.map enc).mapM dec = some (l.map g)
  | [] => rfl
  | a :: as => by
    simp only [List.map_cons, List.mapM_cons, h a, mapM_roundtrip enc dec g h as]
    rfl

theorem seq_roundtrip (c : Codec) (f : Expr → Expr) (hc : c.RoundTrips f) (s : Seq) : (s.toQ c).fromQ c = some (s.mapExpr f) := by
  cases s with
  | constant m => simp [Seq.toQ, QSeq.fromQ, Seq.mapExpr, hc m]
  | arithmetic i d => simp [Seq.toQ, QSeq.fromQ, Seq.mapExpr, hc i, hc d]
  | geometric r => simp [Seq.toQ, QSeq.fromQ, Seq.mapExpr, hc r]
  | closedForm s p n =>
    cases s <;> cases p <;> simp [Seq.toQ, QSeq.fromQ, Seq.mapExpr, optParse, hc n, hc _]
  | custom t i => simp [Seq.toQ, QSeq.fromQ, Seq.mapExpr, hc t, hc i]

theorem mapM_roundtrip_mem {α β γ : Type} (enc : α → β) (dec : β → Option γ) (g : α → γ) :
    ∀ (l : List α), (∀ a ∈ l, dec (enc a) = some (g a)) → (l.map enc).mapM dec = some (l.map g)
  | [], _ => rfl
  | a :: as, h => by
    simp only [List.map_cons, List.mapM_cons, h a (by simp), mapM_roundtrip_mem enc dec g as (fun x hx => h x (by simp [hx]))]
    rfl

/-- an endpoint whose names are dot-free -/
def Endpoint.OK (e : Endpoint) : Prop := Dotless e.port ∧ ∀ r, e.routine = some r → Dotless r

mutual
/-- what QREF's schema guarantees about names at every level: port and child names in connections and the parameter names
    of link targets are dot-free (a target's PATH may contain dots), and no two links of one routine share a source -/
def Routine.NamesOK : Routine → Prop
  | ⟨_, _, _, _, lks, _, _, cs, _, _, ch, _⟩ =>
    (lks.map (·.1)).Nodup ∧ (∀ lk ∈ lks, ∀ t ∈ lk.2, Dotless t.2) ∧ (∀ cn ∈ cs, cn.1.OK ∧ cn.2.OK) ∧ Routine.NamesOKList ch
def Routine.NamesOKList : List Routine → Prop
  | [] => True
  | r :: rs => r.NamesOK ∧ Routine.NamesOKList rs
end

theorem links_roundtrip (lks : List (String × List (String × String))) (h : ∀ lk ∈ lks, ∀ t ∈ lk.2, Dotless t.2) :
    (lks.map fun lk => (lk.1, lk.2.map targetToStr)).mapM (fun lk => (lk.2.mapM targetOfStr).map fun ts => (lk.1, ts)) = some lks := by
  have := mapM_roundtrip_mem (fun lk : String × List (String × String) => (lk.1, lk.2.map targetToStr))
    (fun lk : String × List String => (lk.2.mapM targetOfStr).map fun ts => (lk.1, ts)) id lks (by
      intro lk hlk
      have h2 := mapM_roundtrip_mem targetToStr targetOfStr id lk.2 (fun t ht => target_roundtrip t (h lk hlk t ht))
      simp only [h2, List.map_id_fun, id_eq, Option.map_some])
  simpa using this

theorem conns_roundtrip (cs : List (Endpoint × Endpoint)) (h : ∀ cn ∈ cs, cn.1.OK ∧ cn.2.OK) :
    (cs.map fun cn => (cn.1.toStr, cn.2.toStr)).mapM (fun cn => do some ((← Endpoint.ofStr cn.1), (← Endpoint.ofStr cn.2))) = some cs := by
  have := mapM_roundtrip_mem (fun cn : Endpoint × Endpoint => (cn.1.toStr, cn.2.toStr))
    (fun cn : String × String => do some ((← Endpoint.ofStr cn.1), (← Endpoint.ofStr cn.2))) id cs (by
      intro cn hcn
      obtain ⟨h1, h2⟩ := h cn hcn
      simp [endpoint_roundtrip cn.1 h1.1 h1.2, endpoint_roundtrip cn.2 h2.1 h2.2])
  simpa using this

mutual
/-- **export then import** gives back the routine itself, with each expression re-read (structure preserved exactly,
    endpoints and link targets through their string encodings) -/
theorem C13_roundtrip_structure (c : Codec) (f : Expr → Expr) (hc : c.RoundTrips f) :
    ∀ (r : Routine), r.NamesOK → (r.toQ c).fromQ c = some (r.reread f)
  | ⟨n, ty, ips, lvs, lks, ps, rs, cs, rep, cons, ch, ord⟩, hok => by
    simp only [Routine.NamesOK] at hok
    obtain ⟨hnd, hlk, hcn, hkids⟩ := hok
    have hlks := links_roundtrip lks hlk
    have hcs := conns_roundtrip cs hcn
    have hl := mapM_roundtrip (fun kv : String × Expr => (kv.1, c.pr kv.2)) (fun kv : String × String => (c.ps kv.2).map fun e => (kv.1, e))
      (fun kv => (kv.1, f kv.2)) (by intro kv; simp [hc kv.2]) lvs
    have hp := mapM_roundtrip (fun p : Port => (⟨p.name, p.dir, c.pr p.size⟩ : QPort)) (fun p : QPort => (c.ps p.size).map fun e => (⟨p.name, p.dir, e⟩ : Port))
      (fun p => { p with size := f p.size }) (by intro p; simp [hc p.size]) ps
    have hr := mapM_roundtrip (fun r : Resource => (⟨r.name, r.ty, c.pr r.value⟩ : QResource)) (fun r : QResource => (c.ps r.value).map fun e => (⟨r.name, r.ty, e⟩ : Resource))
      (fun r => { r with value := f r.value }) (by intro r; simp [hc r.value]) rs
    have hch := C13_roundtrip_children c f hc ch hkids
    have hm := mergeLinks_of_nodup lks hnd
    simp only [Routine.toQ, QRoutine.fromQ, hl, hp, hr, hch, hlks, hcs]
    cases rep with
    | none => simp [Routine.reread, hm]
    | some rp => simp [Routine.reread, hc rp.count, seq_roundtrip c f hc rp.seq, hm]
theorem C13_roundtrip_children (c : Codec) (f : Expr → Expr) (hc : c.RoundTrips f) :
    ∀ (rs : List Routine), Routine.NamesOKList rs → QRoutine.fromQList c (Routine.toQList c rs) = some (Routine.rereadList f rs)
  | [], _ => rfl
  | r :: rs, h => by
    simp only [Routine.NamesOKList] at h
    simp [Routine.toQList, QRoutine.fromQList, Routine.rereadList, C13_roundtrip_structure c f hc r h.1, C13_roundtrip_children c f hc rs h.2]
end

/-- the string encodings on their own: an endpoint and a link target are read back as written; the target's path may itself
    contain dots (deep links), because the import splits at the LAST dot -/
theorem C13_endpoint_encoding_roundtrip (e : Endpoint) (h : e.OK) : Endpoint.ofStr e.toStr = some e :=
  endpoint_roundtrip e h.1 h.2
theorem C13_link_target_encoding_roundtrip (path param : String) (h : Dotless param) :
    targetOfStr (targetToStr (path, param)) = some (path, param) := target_roundtrip (path, param) h

-- non-vacuity: a deep link target whose path has two dots, and a connection endpoint
example : targetOfStr (targetToStr ("a.b.c", "n")) = some ("a.b.c", "n") := by decide
example : Endpoint.ofStr (Endpoint.toStr ⟨some "child", "out_0"⟩) = some ⟨some "child", "out_0"⟩ := by decide
example : (⟨some "child", "out_0"⟩ : Endpoint).OK := ⟨by simp [Dotless], by intro r h; cases h; simp [Dotless]⟩

/-- re-reading changes no name, type, direction, connection, link or nesting -/
theorem C13_reread_preserves_skeleton (f : Expr → Expr) (r : Routine) :
    (r.reread f).name = r.name ∧ (r.reread f).type = r.type ∧ (r.reread f).inputParams = r.inputParams ∧
    (r.reread f).linked = r.linked ∧ (r.reread f).conns = r.conns ∧
    (r.reread f).ports.map (fun p => (p.name, p.dir)) = r.ports.map (fun p => (p.name, p.dir)) ∧
    (r.reread f).resources.map (fun x => (x.name, x.ty)) = r.resources.map (fun x => (x.name, x.ty)) ∧
    (r.reread f).localVars.map (·.1) = r.localVars.map (·.1) ∧
    (r.reread f).children.length = r.children.length := by
  obtain ⟨n, ty, ips, lvs, lks, ps, rs, cs, rep, cons, ch, ord⟩ := r
  simp only [Routine.reread, List.map_map, Function.comp_def, true_and]
  have : ∀ (l : List Routine), (Routine.rereadList f l).length = l.length := by
    intro l; induction l with
    | nil => rfl
    | cons a as ih => simp [Routine.rereadList, ih]
  exact this ch

/-- the kind of sequence and the presence of its optional fields survive (an absent `prod` stays absent) -/
theorem C13_sequence_kind_preserved (f : Expr → Expr) (s : Seq) : (s.mapExpr f).kind = s.kind := by
  cases s <;> rfl

theorem C13_absent_field_stays_absent (c : Codec) (s p : Option Expr) (n : Expr) :
    (Seq.closedForm s p n).toQ c = .closedForm (s.map c.pr) (p.map c.pr) (c.pr n) := rfl

/-- if the codec is exact (re-reading is the identity, as C12 shows for the model printer/parser on surface trees) the round
    trip is the identity up to the dropped constraints -/
theorem C13_roundtrip_exact (c : Codec) (hc : c.RoundTrips id) (r : Routine) (hok : r.NamesOK) :
    (r.toQ c).fromQ c = some (r.reread id) :=
  C13_roundtrip_structure c id hc r hok

end Bartiq
