/-
  C20 — Minimisation respects its bounds and reports a consistent optimum.
  Model: `gradDescent` (BartiqModel/Analysis.lean), generic in the arithmetic.  The theorems hold for ANY cost function,
  ANY arithmetic (`add`/`sub`/`mul`/`div`/`abs` arbitrary — so rounding is irrelevant) as long as the comparisons are
  those of a linear order.  PARTIAL: IEEE NaN is not a linear order; NaN behaviour is covered by the bit-exact
  correspondence of the `Float` instance only.
-/
import BartiqModel.Analysis
import Mathlib.Order.Defs.LinearOrder
import Mathlib.Order.Basic
import Mathlib.Order.Nat
namespace Bartiq

variable {R : Type} [LinearOrder R]

/-- the comparisons of the arithmetic are those of the order -/
structure OrdArith (A : Arith R) : Prop where
  le : ∀ a b, A.le a b = decide (a ≤ b)
  lt : ∀ a b, A.lt a b = decide (a < b)
  eq : ∀ a b, A.eq a b = decide (a = b)

def InBounds (p : GDParams R) (x : R) : Prop :=
  match p.bounds with
  | some (lo, hi) => lo ≤ x ∧ x ≤ hi
  | none => True

/-- loop invariant: every recorded point is within the bounds, the current point is recorded, the oldest is x0 -/
structure GDInv (p : GDParams R) (s : GDState R) : Prop where
  inb : ∀ x ∈ s.hist, InBounds p x
  cur : s.cur ∈ s.hist
  first : s.hist.getLast? = some p.x0

theorem clamp_in_bounds (A : Arith R) (hA : OrdArith A) (lo hi x : R) (h : lo ≤ hi) :
    lo ≤ A.pmax (A.pmin x hi) lo ∧ A.pmax (A.pmin x hi) lo ≤ hi := by
  unfold Arith.pmax Arith.pmin
  simp only [hA.lt, decide_eq_true_eq]
  by_cases h1 : hi < x
  · simp only [h1, if_true]
    by_cases h2 : hi < lo
    · exact absurd h (not_le.mpr h2)
    · simp only [h2, if_false]; exact ⟨h, le_refl _⟩
  · simp only [h1, if_false]
    by_cases h2 : x < lo
    · simp only [h2, if_true]; exact ⟨le_refl _, h⟩
    · simp only [h2, if_false]; exact ⟨not_lt.mp h2, not_lt.mp h1⟩

theorem gdStep_inv (A : Arith R) (hA : OrdArith A) (f : R → R) (p : GDParams R)
    (hb : ∀ lo hi, p.bounds = some (lo, hi) → lo ≤ hi) (s : GDState R) (h : GDInv p s) :
    GDInv p (gdStep A f p s).1 := by
  unfold gdStep
  cases hbd : p.bounds with
  | none =>
    simp only
    split
    · exact ⟨h.inb, h.cur, h.first⟩
    · refine ⟨?_, by simp, ?_⟩
      · intro x hx
        simp only [List.mem_cons] at hx
        rcases hx with rfl | hx
        · simp [InBounds, hbd]
        · exact h.inb x hx
      · have := h.first
        cases hh : s.hist with
        | nil => simp [hh] at this
        | cons a t => rw [hh] at this; simpa [List.getLast?_cons_cons] using this
  | some b =>
    obtain ⟨lo, hi⟩ := b
    simp only
    have hle := hb lo hi hbd
    have hc := clamp_in_bounds A hA lo hi (A.add s.cur (A.sub (A.mul p.momentum s.vel) (A.mul p.learningRate
      (A.div (A.sub (f (A.add s.cur p.epsilon)) (f (A.sub s.cur p.epsilon))) (A.mul A.two p.epsilon))))) hle
    have hlast : ∀ (y : R), (y :: s.hist).getLast? = some p.x0 := by
      intro y
      have := h.first
      cases hh : s.hist with
      | nil => simp [hh] at this
      | cons a t => rw [hh] at this; simpa [List.getLast?_cons_cons] using this
    have hmem : ∀ (y : R), InBounds p y → ∀ x ∈ y :: s.hist, InBounds p x := by
      intro y hy x hx
      simp only [List.mem_cons] at hx
      rcases hx with rfl | hx
      · exact hy
      · exact h.inb x hx
    have hyb : InBounds p (A.pmax (A.pmin (A.add s.cur (A.sub (A.mul p.momentum s.vel) (A.mul p.learningRate
      (A.div (A.sub (f (A.add s.cur p.epsilon)) (f (A.sub s.cur p.epsilon))) (A.mul A.two p.epsilon))))) hi) lo) := by
      simp only [InBounds, hbd]; exact hc
    split
    · exact ⟨hmem _ hyb, by simp, hlast _⟩
    · split
      · exact ⟨h.inb, h.cur, h.first⟩
      · exact ⟨hmem _ hyb, by simp, hlast _⟩

theorem gdLoop_inv (A : Arith R) (hA : OrdArith A) (f : R → R) (p : GDParams R)
    (hb : ∀ lo hi, p.bounds = some (lo, hi) → lo ≤ hi) :
    ∀ (n : Nat) (s s' : GDState R), GDInv p s → gdLoop A f p n s = some s' → GDInv p s'
  | 0, _, _, _, h => by simp [gdLoop] at h
  | n + 1, s, s', hi, h => by
    simp only [gdLoop] at h
    have hstep := gdStep_inv A hA f p hb s hi
    split at h
    · simp only [Option.some.injEq] at h; subst h; exact hstep
    · exact gdLoop_inv A hA f p hb n _ s' hstep h

/-- the start is checked before any iteration: an out-of-bounds starting point is an error, never a value -/
theorem C20_bad_start_is_error (A : Arith R) (hA : OrdArith A) (f : R → R) (p : GDParams R) (lo hi : R)
    (hb : p.bounds = some (lo, hi)) (hout : ¬ (lo ≤ p.x0 ∧ p.x0 ≤ hi)) : gradDescent A f p = .valueError := by
  unfold gradDescent
  have : gdStartOk A p = false := by
    unfold gdStartOk
    rw [hb]
    simp only [hA.le, Bool.and_eq_false_iff, decide_eq_false_iff_not]
    by_cases h1 : lo ≤ p.x0
    · right; intro h2; exact hout ⟨h1, h2⟩
    · left; exact h1
  simp [this]

omit [LinearOrder R] in
/-- failure to converge within `max_iter` iterations is an error, never a value -/
theorem C20_no_convergence_is_error (A : Arith R) (f : R → R) (p : GDParams R)
    (h : gdLoop A f p p.maxIter { cur := p.x0, vel := A.zero, hist := [p.x0] } = none) :
    ∀ r, gradDescent A f p ≠ .ok r := by
  intro r hr
  unfold gradDescent at hr
  rw [h] at hr
  by_cases hc : (!gdStartOk A p) = true
  · rw [if_pos hc] at hr; cases hr
  · rw [if_neg hc] at hr; cases hr

/-- **main theorem**: a returned result lies within the bounds, so does every point of the history, the history starts
    at the supplied starting point, the optimum is a point of the history, and the reported cost is the cost there -/
theorem C20_result_consistent (A : Arith R) (hA : OrdArith A) (f : R → R) (p : GDParams R) (r : GDResult R)
    (h : gradDescent A f p = .ok r) :
    InBounds p r.optimal ∧ (∀ x ∈ r.history, InBounds p x) ∧ r.history.head? = some p.x0 ∧
      r.optimal ∈ r.history ∧ r.minimumCost = f r.optimal := by
  unfold gradDescent at h
  by_cases hc : (!gdStartOk A p) = true
  · rw [if_pos hc] at h; cases h
  · rw [if_neg hc] at h
    have hx0 : InBounds p p.x0 ∧ ∀ lo hi, p.bounds = some (lo, hi) → lo ≤ hi := by
      cases hbd : p.bounds with
      | none => simp [InBounds, hbd]
      | some b =>
        obtain ⟨lo, hi⟩ := b
        unfold gdStartOk at hc; rw [hbd] at hc
        simp only [hA.le, Bool.not_eq_true', Bool.and_eq_false_iff, decide_eq_false_iff_not, not_or, not_not] at hc
        simp only [InBounds, hbd, Option.some.injEq, Prod.mk.injEq]
        refine ⟨hc, ?_⟩
        rintro lo' hi' ⟨rfl, rfl⟩; exact le_trans hc.1 hc.2
    have hinit : GDInv p { cur := p.x0, vel := A.zero, hist := [p.x0] } :=
      ⟨by intro x hx; simp only [List.mem_singleton] at hx; subst hx; exact hx0.1, by simp, by simp⟩
    cases hs : gdLoop A f p p.maxIter { cur := p.x0, vel := A.zero, hist := [p.x0] } with
    | none => rw [hs] at h; cases h
    | some s =>
      rw [hs] at h
      have hinv := gdLoop_inv A hA f p hx0.2 _ _ _ hinit hs
      simp only [GDOutcome.ok.injEq] at h
      subst h
      refine ⟨hinv.inb _ hinv.cur, ?_, ?_, ?_, rfl⟩
      · intro x hx; exact hinv.inb x (by simpa using hx)
      · have := hinv.first
        rw [List.head?_reverse]; exact this
      · simpa using hinv.cur

-- non-vacuity: the order on ℕ with its decidable comparisons is an `OrdArith`
example : OrdArith (R := Nat)
    { add := fun a b => a + b, sub := fun a b => a - b, mul := fun a b => a * b, div := fun a b => a / b,
      le := fun a b => decide (a ≤ b), lt := fun a b => decide (a < b), eq := fun a b => decide (a = b),
      abs := id, two := 2, zero := 0 } :=
  ⟨fun _ _ => rfl, fun _ _ => rfl, fun _ _ => rfl⟩

end Bartiq
