/-
  C04 — Compiled routines are closed over the top-level inputs.
  Proved here: the closure step that `_compile` applies to every resource, port size and constraint side (a substituted
  expression only mentions symbols of the scope's values, provided every symbol of the source expression is declared in the
  scope); internal names (local variables, port variables, `child.resource` references) are KEYS of the scope and hence never
  survive; a total numeric assignment leaves no symbol.  WHOLE HIERARCHY (C04_hierarchy_closed_partial): well-scopedness is
  stated semantically — the bottom-up reading of the (preprocessed) routine is defined everywhere as soon as exactly the names of
  G are given, i.e. it never looks up a name nobody declared — and the refinement theorem of C01, instantiated with the one-point
  interpretation (BartiqProofs/Scoping.lean), turns it into: every port size and every resource of every node of the compiled
  hierarchy mentions only names of G.  PARTIAL: `plainB` as in C01 (no closed-form/custom sequences, no user-written sum_over);
  repetition fields and retained constraints are inspected by the oracle of harness/props/c04.py only.
-/
import BartiqProofs.FvLemmas
import BartiqProofs.CompileSpec
import BartiqProofs.SortLemmas
import BartiqProofs.Scoping
namespace Bartiq
open Expr

/-- closure step (resources, port sizes, constraint sides, local-variable definitions alike) -/
theorem C04_substitution_closes (d : Dict Expr) (e : Expr) (G : List String)
    (hd : ∀ kv ∈ d, ∀ x ∈ fv kv.2, x ∈ G) (he : ∀ x ∈ fv e, d.get? x ≠ none ∨ x ∈ G) :
    ∀ x ∈ fv (Expr.subst d e), x ∈ G := fv_subst_closed d e G hd he

/-- no internal name survives: a key of the scope (local variable, port variable `#p`, `child.resource`) occurs in the
    substituted expression only if some VALUE of the scope mentions it -/
theorem C04_no_internal_names (d : Dict Expr) (e : Expr) (k : String) (hk : d.get? k ≠ none)
    (hvals : ∀ kv ∈ d, k ∉ fv kv.2) : k ∉ fv (Expr.subst d e) := by
  intro hx
  rcases fv_substF e d.get? k hx with ⟨_, h2⟩ | ⟨y, t, _, hσ, hxt⟩
  · exact hk h2
  · exact hvals (y, t) (Dict.get?_some_mem d y t hσ) hxt

/-- every resource of a compiled (non-repeated) node is the source resource substituted in the node's final scope, hence
    closed over whatever that scope's values are closed over -/
theorem C04_node_resources_closed (C : Comparator) (r : Routine) (inputs : Dict Expr) (path : String) (c : CRoutine)
    (h : compile C inputs path r = .ok c) (hrep : r.rep = none) (G : List String) :
    ∃ scope : Dict Expr, c.resources = evaluateResources r.resources scope ∧
      ((∀ kv ∈ scope, ∀ x ∈ fv kv.2, x ∈ G) → (∀ res ∈ r.resources, ∀ x ∈ fv res.value, scope.get? x ≠ none ∨ x ∈ G) →
        ∀ res ∈ c.resources, ∀ x ∈ fv res.value, x ∈ G) := by
  obtain ⟨⟨lv, nc, upd, pm2, ccs, res, rep', hlv0, hnc, hupd, hch, hrp, hc⟩⟩ := compile_trace h
  rw [hrep] at hrp
  simp only [repStep, pure, Except.pure, Except.ok.injEq, Prod.mk.injEq] at hrp
  obtain ⟨hres, _⟩ := hrp
  subst hres hc
  refine ⟨Dict.merge pm2.self (childrenVariables ccs), by simp [finishNode], ?_⟩
  intro hd he res hres x hx
  simp only [finishNode, evaluateResources, List.mem_map] at hres
  obtain ⟨r0, hr0, rfl⟩ := hres
  exact fv_subst_closed _ r0.value G hd (he r0 hr0) x hx

/-- assigning closed values (numbers) to every symbol of an expression leaves no symbol: it is a number-valued expression -/
theorem C04_total_numeric (d : Dict Expr) (e : Expr) (hnum : ∀ kv ∈ d, fv kv.2 = []) (hall : ∀ x ∈ fv e, d.get? x ≠ none) :
    fv (Expr.subst d e) = [] := by
  have := fv_subst_closed d e [] (by intro kv hkv x hx; rw [hnum kv hkv] at hx; exact hx) (fun x hx => Or.inl (hall x hx))
  cases hfv : fv (Expr.subst d e) with
  | nil => rfl
  | cons a as => exact absurd (this a (by rw [hfv]; simp)) (by simp)

/-- each node lists among its input parameters every symbol its ports use -/
theorem C04_node_lists_port_symbols (C : Comparator) (r : Routine) (inputs : Dict Expr) (path : String) (c : CRoutine)
    (h : compile C inputs path r = .ok c) : ∀ p ∈ c.ports, ∀ x ∈ fv p.size, x ∈ c.inputParams := by
  obtain ⟨⟨lv, nc, upd, pm2, ccs, res, rep', hlv0, hnc, hupd, hch, hrp, hc⟩⟩ := compile_trace h
  subst hc
  intro p hp x hx
  simp only [finishNode, newInputParams, dedupSorted] at hp ⊢
  rw [List.mem_eraseDups]
  apply (sortBy_perm _).mem_iff.mpr
  apply List.mem_append_right
  exact List.mem_flatMap.mpr ⟨p, hp, hx⟩

/-- **the whole compiled hierarchy is closed over the top-level inputs**: if the bottom-up reading of the routine is defined
    everywhere when exactly the names of `G` are given (well-scopedness: no name is used that nobody declares), then every port
    size and every resource of every node of the compiled hierarchy mentions only names of `G` — no port variable, local
    variable or `child.resource` reference survives anywhere -/
theorem C04_hierarchy_closed_partial (C : Comparator) (r : Routine) (c : CRoutine) (path : String) (G : List String)
    (h : compile C [] path r = .ok c) (hp : plainB r = true)
    (hws : ∃ nv, denoteV unitAlg (envOf G) [] r = some nv ∧ nv.allDefined = true) : c.closedOver G := by
  obtain ⟨nv, hnv, hall⟩ := hws
  have href := compile_refines_denoteV unitAlg (envOf G) C r [] path c h hp
  simp only [Dict.mapVal, List.map_nil] at href
  rw [href] at hnv
  cases hnv
  exact closed_of_allDefined G c hall

/-- … and the same below any node, for whatever its parent hands down: the values given to the node's inputs count as given -/
theorem C04_subtree_closed_partial (C : Comparator) (r : Routine) (σ : Dict Expr) (c : CRoutine) (path : String) (G : List String)
    (h : compile C σ path r = .ok c) (hp : plainB r = true)
    (hws : ∃ nv, denoteV unitAlg (envOf G) (σ.mapVal (eval unitAlg (envOf G))) r = some nv ∧ nv.allDefined = true) :
    c.closedOver G := by
  obtain ⟨nv, hnv, hall⟩ := hws
  rw [compile_refines_denoteV unitAlg (envOf G) C r σ path c h hp] at hnv
  cases hnv
  exact closed_of_allDefined G c hall

-- non-vacuity: root(N) with local v = N + 1, child a(n := v) with resource T = 2·n, root resource T = a.T + v
def wsExample : Routine :=
  ⟨"root", none, ["N"], [("v", .bin .add (.sym "N") (.num 1))], [("v", [("a", "n")])], [], [⟨"T", .additive, .bin .add (.sym "a.T") (.sym "v")⟩], [],
    none, [], [⟨"a", none, ["n"], [], [], [], [⟨"T", .additive, .bin .mul (.num 2) (.sym "n")⟩], [], none, [], [], []⟩], ["a"]⟩
example : (denoteV unitAlg (envOf ["N"]) [] wsExample).map NVal.allDefined = some true := by decide
-- … and the hypothesis fails when a name nobody declares is used: the same routine read with nothing given
example : (denoteV unitAlg (envOf []) [] wsExample).map NVal.allDefined = some false := by decide

end Bartiq
