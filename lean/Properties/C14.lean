/-
  C14 — Operations are pure and reproducible.   (level: other — see DESIGN.md)
  What is logic is proved here: memoisation of a pure function (the `lru_cache` on `_value_of`) is transparent for every
  reachable cache state and every call history.  Everything in the model is a pure function, so repeatability is by
  construction; object mutation, hash randomisation and process-global state are runtime phenomena that no Lean model can
  exhibit — they are explored by harness/props/c14.py.
-/
import BartiqModel.Pipeline
namespace Bartiq

variable {κ β : Type} [DecidableEq κ]

/-- a memo table: most recent first -/
abbrev Memo (κ β : Type) := List (κ × β)

/-- a cached call: look the key up, compute and store on a miss -/
def cachedCall (f : κ → β) (m : Memo κ β) (k : κ) : β × Memo κ β :=
  match m.find? (fun e => e.1 = k) with
  | some e => (e.2, m)
  | none => (f k, (k, f k) :: m)

/-- every stored value is the value of the function -/
def MemoInv (f : κ → β) (m : Memo κ β) : Prop := ∀ e ∈ m, e.2 = f e.1

/-- one cached call returns what the function returns and keeps the table sound -/
theorem C14_cache_transparent (f : κ → β) (m : Memo κ β) (k : κ) (h : MemoInv f m) :
    (cachedCall f m k).1 = f k ∧ MemoInv f (cachedCall f m k).2 := by
  unfold cachedCall
  cases hf : m.find? (fun e => e.1 = k) with
  | some e =>
    have hm := List.mem_of_find?_eq_some hf
    have hk : e.1 = k := by simpa using List.find?_some hf
    exact ⟨by simp only; rw [h e hm, hk], h⟩
  | none =>
    refine ⟨rfl, ?_⟩
    intro e he
    simp only [List.mem_cons] at he
    rcases he with rfl | he
    · rfl
    · exact h e he

/-- run a whole history of calls through the cache -/
def runHistory (f : κ → β) : Memo κ β → List κ → List β × Memo κ β
  | m, [] => ([], m)
  | m, k :: ks =>
    let (v, m') := cachedCall f m k
    let (vs, m'') := runHistory f m' ks
    (v :: vs, m'')

/-- **history freedom**: whatever was computed earlier in the process (any sound cache state, any sequence of calls),
    each call returns exactly what the un-cached function returns -/
theorem C14_history_free (f : κ → β) : ∀ (ks : List κ) (m : Memo κ β), MemoInv f m →
    (runHistory f m ks).1 = ks.map f ∧ MemoInv f (runHistory f m ks).2
  | [], m, h => ⟨rfl, h⟩
  | k :: ks, m, h => by
    have h1 := C14_cache_transparent f m k h
    have h2 := C14_history_free f ks (cachedCall f m k).2 h1.2
    simp only [runHistory, List.map_cons]
    exact ⟨by rw [h1.1, h2.1], h2.2⟩

omit [DecidableEq κ] in
/-- a cold process starts from a sound cache -/
theorem C14_cold_cache_sound (f : κ → β) : MemoInv f ([] : Memo κ β) := by intro e he; cases he

-- (repeatability of the model itself is by construction: every model function is a pure Lean function)

end Bartiq
