/-
  C11 — The expression language means standard arithmetic.
  Model: lexer + recursive-descent parser + `interp` (BartiqModel/Parser.lean); the operator and built-in tables are
  `Generated.*`, regenerated from `ast_parser._BINARY_OP_MAP`, `_UNARY_OP_MAP`, `SPECIAL_FUNCS`, `SPECIAL_PARAMS` on every run.
  External, modelled: Python's `ast.parse` and the five regex preprocessing stages (the Lean lexer/parser stands for them and is
  compared with the real parser on every run, incl. every operator pair/triple).
-/
import BartiqProofs.ParserComplete
import Generated.Tables
namespace Bartiq

/-- **the parser computes the standard reading** (usual precedence, left-associative `+ - * / // %`, right-associative power
    binding tighter than a unary sign on its left and admitting a signed exponent, parentheses, calls) of EVERY token string of
    the grammar — unbounded length and nesting -/
theorem C11_parser_is_standard_reading {ts : List Tok} {t : SExpr} (h : Reads ts t) : parseToks ts = some t :=
  parseToks_complete h

/-- the recursion depth the parser needs is at most 6 × (number of tokens) + 4 — `parseToks` runs with 6 × tokens + 10 -/
theorem C11_fuel_bound {ts : List Tok} {t : SExpr} (h : Reads ts t) :
    ∃ f0, f0 ≤ 6 * ts.length + 4 ∧ ∀ f, f0 ≤ f → pExpr f ts = some (t, []) := parser_is_standard_reading h

/-- the standard reading is unique -/
theorem C11_reading_unique {ts : List Tok} {t t' : SExpr} (h : Reads ts t) (h' : Reads ts t') : t = t' := reading_unique h h'

def genTables : Tables :=
  { binOps := Generated.binOpTable, unaryOps := Generated.unaryOpTable,
    builtins := Generated.builtinNames, specialParams := Generated.specialParams }

/-- the operator table read from the source this run gives every operator its standard meaning; `^` and `**` are both power -/
theorem C11_op_table :
    lookupOp genTables "+" = some .add ∧ lookupOp genTables "-" = some .sub ∧ lookupOp genTables "*" = some .mul ∧
    lookupOp genTables "/" = some .div ∧ lookupOp genTables "//" = some .fdiv ∧ lookupOp genTables "%" = some .mod ∧
    lookupOp genTables "**" = some .pow ∧ lookupOp genTables "^" = some .pow ∧
    Generated.unaryOpTable = [("+", "pos"), ("-", "neg")] := by decide

/-- `//` is the floor of the quotient and `%` the remainder with the sign of the divisor, also for negative operands
    (exact rational interpretation) -/
theorem C11_floor_mod_std (a b : Rat) (hb : b ≠ 0) :
    RatAlg.bin .fdiv a b = some ((a / b).floor : Rat) ∧ RatAlg.bin .mod a b = some (a - b * ((a / b).floor : Rat)) := by
  simp [RatAlg.bin, hb]

/-- built-in function names are case-insensitive: whether a name is a built-in depends only on its lower-cased form -/
theorem C11_builtin_case_insensitive (T : Tables) (f g : String) (h : f.toLower = g.toLower) : isBuiltin T f = isBuiltin T g := by
  simp [isBuiltin, h]

/-- unknown function names stay uninterpreted, as written, with their arguments preserved (in order) -/
theorem C11_unknown_uninterpreted (T : Tables) (f : String) (args : List SExpr) (h : isBuiltin T f = false) :
    interp T (.call f args) = (interpList T args).map (Expr.app f) := by
  simp only [interp, h]
  cases interpList T args <;> simp

/-- identifiers — port (`#p`, `a.#p`), namespaced (`a.b.x`) and reserved-word (`lambda`, `in`, `in_0`, `lambda_x`) — are single
    tokens: any run of name characters is taken whole -/
theorem C11_identifier_taken_whole (cs rest : List Char) (h : ∀ c ∈ cs, Lex.isNameChar c = true)
    (hr : rest.head?.all (fun c => !Lex.isNameChar c) = true) : Lex.takeWhile Lex.isNameChar (cs ++ rest) = (cs, rest) := by
  induction cs with
  | nil =>
    cases rest with
    | nil => rfl
    | cons r rs =>
      simp only [List.head?_cons, Option.all_some, Bool.not_eq_true'] at hr
      simp [Lex.takeWhile, hr]
  | cons c cs ih =>
    have hc := h c (by simp)
    simp only [List.cons_append, Lex.takeWhile, hc, if_true]
    rw [ih (fun x hx => h x (by simp [hx]))]

-- the reserved words and port/namespace shapes named by the property, as kernel-checked instances of the lexer
example : Lex.lex "lambda" = some [Tok.name "lambda"] := by decide
example : Lex.lex "in" = some [Tok.name "in"] := by decide
example : Lex.lex "a.#p" = some [Tok.name "a.#p"] := by decide
example : Lex.lex "in+in" = some [Tok.name "in", Tok.plus, Tok.name "in"] := by decide
example : Lex.lex "lambda_x*#in_0" = some [Tok.name "lambda_x", Tok.star, Tok.name "#in_0"] := by decide

-- non-vacuity of the reading: `-a ** -b` is read as -(a ** (-b))
example : Reads [Tok.minus, Tok.name "a", Tok.pow, Tok.minus, Tok.name "b"] (.neg (.bin "**" (.name "a") (.neg (.name "b")))) := by
  have h1 : G .factor [Tok.minus, Tok.name "b"] (.neg (.name "b")) := .fNeg (.fPow (.pAtom .aName))
  have h2 : G .power ([Tok.name "a"] ++ Tok.pow :: [Tok.minus, Tok.name "b"]) (.bin "**" (.name "a") (.neg (.name "b"))) := .pPow .aName h1
  have h3 : G .factor (Tok.minus :: ([Tok.name "a"] ++ Tok.pow :: [Tok.minus, Tok.name "b"])) _ := .fNeg (.fPow h2)
  have h4 : G .term ((Tok.minus :: ([Tok.name "a"] ++ Tok.pow :: [Tok.minus, Tok.name "b"])) ++ []) _ := .term h3 .ttNil
  have h5 : G .expr (((Tok.minus :: ([Tok.name "a"] ++ Tok.pow :: [Tok.minus, Tok.name "b"])) ++ []) ++ []) _ := .expr h4 .etNil
  simpa [Reads] using h5

end Bartiq
