/-
  C15 — Resource aggregation is a linear, loss-free rewrite.
  Model: BartiqModel/Aggregate.lean (`_topological_sort`, `_expand_resource`, `_add_aggregated_resources_to_subroutine`),
  corresponded with the real `add_aggregated_resources` on every weighted graph on 3|4 names (incl. every cyclic one).
  Proved: a cyclic dictionary is rejected with an error and no result; resources the dictionary does not mention are not
  touched by a step; a decomposed resource is removed (and never re-created) or kept with type `other`; each step adds, to every
  target, exactly multiplier × ORIGINAL value of the decomposed resource — linearity, for every commutative-semiring
  interpretation; the expanded dictionary satisfies the PATH-SUM recurrence W(r,b) = w(r,b) + Σ_t w(r,t)·W(t,b) with only base
  resources as targets (C15_expansion_is_path_sum, unconditional: Kahn's algorithm as modelled is proved to return a valid order).
  A dictionary is rejected EXACTLY when it is cyclic (C15_cyclic_dictionary_rejected, C15_acyclic_dictionary_accepted: the model of
  graphlib's sorter fails exactly on the graphs with a cycle).
-/
import BartiqModel.Aggregate
import BartiqProofs.AggLemmas
import BartiqProofs.GraphLemmas
import Mathlib.Algebra.Ring.Defs
import Mathlib.Tactic.Ring
namespace Bartiq

/-- a cyclic dictionary is rejected with an error rather than looping or returning a result -/
theorem C15_cycle_rejected (d : AggDict) (remove : Bool) (c : CRoutine) (h : aggOrder d = none) :
    ∃ m, addAggregatedResources d remove c = .error (.value m) := by
  unfold addAggregatedResources expandAggregation
  rw [h]
  exact ⟨_, rfl⟩

/-- **every cyclic dictionary is rejected**: if some decomposed resource is, through any chain of nested entries, decomposed
    into itself, the call ends with an error and no result (completeness of the cycle detection: from the correctness of the model
    of graphlib's static_order — along every registration the position in a returned order strictly increases) -/
theorem C15_cyclic_dictionary_rejected (d : AggDict) (remove : Bool) (c : CRoutine) (r : String) (h : DecomposesInto d r r) :
    ∃ m, addAggregatedResources d remove c = .error (.value m) :=
  C15_cycle_rejected d remove c (aggOrder_none_of_cycle d r h)

/-- **… and ONLY a cyclic dictionary is rejected**: for a dictionary with distinct keys in which no decomposed resource is
    decomposed into itself, a result is returned (the sorter never gets stuck on an acyclic graph: GraphLemmas.staticOrder_none_iff) -/
theorem C15_acyclic_dictionary_accepted (d : AggDict) (hk : d.keys.Nodup) (remove : Bool) (c : CRoutine)
    (hac : ¬ ∃ r, DecomposesInto d r r) : ∃ c', addAggregatedResources d remove c = .ok c' := by
  cases ho : aggOrder d with
  | none => exact absurd ((aggOrder_none_iff d hk).mp ho) hac
  | some order =>
    unfold addAggregatedResources expandAggregation
    rw [ho]
    exact ⟨_, rfl⟩

/-- the same in the form used above: an order was found -/
theorem C15_acyclic_accepted (d : AggDict) (remove : Bool) (c : CRoutine) (order : List String) (h : aggOrder d = some order) :
    ∃ c', addAggregatedResources d remove c = .ok c' := by
  unfold addAggregatedResources expandAggregation
  rw [h]
  exact ⟨_, rfl⟩

/-- a resource the (expanded) dictionary does not decompose causes no change at all -/
theorem C15_unmentioned_step (exp : AggDict) (remove : Bool) (agg : List Resource) (r : Resource) (h : exp.get? r.name = none) :
    aggregateStep exp remove agg r = agg := by
  simp [aggregateStep, h]

/-- names after applying a mapping: only target names are added -/
theorem applyMapping_names (r : Resource) : ∀ (m : Dict Expr) (agg : List Resource) (x : Resource), x ∈ applyMapping agg r m →
    (∃ y ∈ agg, y.name = x.name) ∨ x.name ∈ m.keys := by
  intro m
  induction m with
  | nil => intro agg x hx; exact Or.inl ⟨x, hx, rfl⟩
  | cons sm rest ih =>
    intro agg x hx
    simp only [applyMapping, List.foldl_cons] at hx
    have hx' := ih _ x hx
    rcases hx' with ⟨y, hy, hyn⟩ | hk
    · cases hf : Resource.find? agg sm.1 with
      | none =>
        rw [hf] at hy
        simp only [List.mem_append, List.mem_singleton] at hy
        rcases hy with hy | rfl
        · exact Or.inl ⟨y, hy, hyn⟩
        · exact Or.inr (by simp [Dict.keys, ← hyn])
      | some cur =>
        rw [hf] at hy
        -- `Resource.set` replaces an element of the same name or appends it
        have hcur : cur.name = sm.1 := by
          have := List.find?_some hf
          simpa using this
        have hset : ∀ (l : List Resource) (z : Resource), y ∈ Resource.set l z → (∃ w ∈ l, w.name = y.name) ∨ y.name = z.name := by
          intro l z
          induction l with
          | nil => intro h; simp only [Resource.set, List.mem_singleton] at h; exact Or.inr (by rw [h])
          | cons a as iha =>
            intro h
            simp only [Resource.set] at h
            split at h
            · rename_i hn
              simp only [List.mem_cons] at h
              rcases h with rfl | h
              · exact Or.inr rfl
              · exact Or.inl ⟨y, by simp [h], rfl⟩
            · simp only [List.mem_cons] at h
              rcases h with rfl | h
              · exact Or.inl ⟨y, by simp, rfl⟩
              · rcases iha h with ⟨w, hw, hwn⟩ | h
                · exact Or.inl ⟨w, by simp [hw], hwn⟩
                · exact Or.inr h
        rcases hset agg _ hy with ⟨w, hw, hwn⟩ | h
        · exact Or.inl ⟨w, hw, by rw [hwn, hyn]⟩
        · exact Or.inr (by simp [Dict.keys, ← hyn, h, hcur])
    · exact Or.inr (by simp only [Dict.keys, List.map_cons, List.mem_cons]; right; exact hk)

/-- in an expanded dictionary the targets are base resources (never decomposed themselves) -/
def TargetsAreBase (exp : AggDict) : Prop := ∀ k m, exp.get? k = some m → ∀ t ∈ m.keys, exp.get? t = none

/-- once a decomposed resource `n` is absent, no later step re-creates it -/
theorem step_preserves_absent (exp : AggDict) (hb : TargetsAreBase exp) (remove : Bool) (n : String) (hn : exp.get? n ≠ none)
    (agg : List Resource) (r : Resource) (h : ∀ x ∈ agg, x.name ≠ n) : ∀ x ∈ aggregateStep exp remove agg r, x.name ≠ n := by
  unfold aggregateStep
  cases hm : exp.get? r.name with
  | none => simpa using h
  | some m =>
    simp only
    have hnames : ∀ x ∈ applyMapping agg r m, x.name ≠ n := by
      intro x hx
      rcases applyMapping_names r m agg x hx with ⟨y, hy, hyn⟩ | hk
      · rw [← hyn]; exact h y hy
      · intro e; rw [e] at hk; exact hn (hb r.name m hm n hk)
    split
    · intro x hx; exact hnames x (List.mem_filter.mp hx).1
    · intro x hx
      simp only [List.mem_map] at hx
      obtain ⟨y, hy, rfl⟩ := hx
      split <;> exact hnames y hy

/-- **removed**: with `remove_decomposed`, the step for a decomposed resource leaves no resource of that name -/
theorem C15_decomposed_removed_by_its_step (exp : AggDict) (agg : List Resource) (r : Resource) (m : Dict Expr)
    (hm : exp.get? r.name = some m) : ∀ x ∈ aggregateStep exp true agg r, x.name ≠ r.name := by
  intro x hx
  simp only [aggregateStep, hm, if_true] at hx
  have := (List.mem_filter.mp hx).2
  simpa using this

/-- … and it stays removed through all later steps of the node -/
theorem C15_stays_removed (exp : AggDict) (hb : TargetsAreBase exp) (n : String) (hn : exp.get? n ≠ none) :
    ∀ (rest : List Resource) (agg : List Resource), (∀ x ∈ agg, x.name ≠ n) →
      ∀ x ∈ rest.foldl (aggregateStep exp true) agg, x.name ≠ n
  | [], agg, h => h
  | r :: rest, agg, h => by
    simp only [List.foldl_cons]
    exact C15_stays_removed exp hb n hn rest _ (step_preserves_absent exp hb true n hn agg r h)

/-- **kept as `other`**: without `remove_decomposed`, the step gives every resource of the decomposed name the type `other` -/
theorem C15_decomposed_kept_as_other (exp : AggDict) (agg : List Resource) (r : Resource) (m : Dict Expr)
    (hm : exp.get? r.name = some m) : ∀ x ∈ aggregateStep exp false agg r, x.name = r.name → x.ty = .other := by
  intro x hx hxn
  simp only [aggregateStep, hm, Bool.false_eq_true, if_false, List.mem_map] at hx
  obtain ⟨y, _, rfl⟩ := hx
  by_cases hy : y.name = r.name
  · simp [hy]
  · simp only [hy, if_false] at hxn

/-! ### linearity of one contribution, for every commutative-semiring interpretation -/

variable {R : Type} [CommSemiring R]

/-- value of the resource named `b` in a resource list (0 if absent) -/
def valOf (ev : Expr → R) (rs : List Resource) (b : String) : R :=
  match Resource.find? rs b with
  | some x => ev x.value
  | none => 0

theorem find?_cons' (a : Resource) (as : List Resource) (b : String) :
    Resource.find? (a :: as) b = if a.name = b then some a else Resource.find? as b := by
  simp only [Resource.find?, List.find?_cons]
  by_cases h : a.name = b <;> simp [h]

theorem find?_set_same (l : List Resource) (z : Resource) : Resource.find? (Resource.set l z) z.name = some z := by
  induction l with
  | nil => simp [Resource.set, find?_cons']
  | cons a as ih =>
    simp only [Resource.set]
    by_cases h : a.name = z.name
    · simp [h, find?_cons']
    · simp only [h, if_false, find?_cons']; exact ih

theorem find?_set_other (l : List Resource) (z : Resource) (b : String) (h : z.name ≠ b) :
    Resource.find? (Resource.set l z) b = Resource.find? l b := by
  induction l with
  | nil => simp [Resource.set, find?_cons', h, Resource.find?]
  | cons a as ih =>
    simp only [Resource.set]
    by_cases ha : a.name = z.name
    · have hab : a.name ≠ b := by rw [ha]; exact h
      simp [ha, find?_cons', h, hab]
    · simp only [ha, if_false, find?_cons']
      by_cases hab : a.name = b
      · simp [hab]
      · simp only [hab, if_false]; exact ih

theorem find?_append_new (l : List Resource) (z : Resource) (b : String) (hz : Resource.find? l z.name = none) :
    Resource.find? (l ++ [z]) b = if z.name = b then (match Resource.find? l b with | some x => some x | none => some z) else Resource.find? l b := by
  simp only [Resource.find?, List.find?_append]
  by_cases h : z.name = b
  · subst h
    simp only [Resource.find?] at hz
    simp [hz]
  · cases hl : List.find? (fun r => decide (r.name = b)) l with
    | some x => simp [h]
    | none => simp [h]

/-- **linearity**: applying the mapping of a decomposed resource `r` adds to each base resource `b` exactly
    Σ over the entries (b, multiplier) of  multiplier × (original value of r)  — nothing else changes -/
theorem C15_linear_contribution (ev : Expr → R) (hev : RingEval ev) (r : Resource) :
    ∀ (m : Dict Expr) (agg : List Resource) (b : String),
      valOf ev (applyMapping agg r m) b = valOf ev agg b + ((m.filter (fun sm => sm.1 = b)).map (fun sm => ev sm.2 * ev r.value)).sum
  | [], agg, b => by simp [applyMapping]
  | (k, v) :: rest, agg, b => by
    simp only [applyMapping, List.foldl_cons]
    have ih := C15_linear_contribution ev hev r rest
    cases hf : Resource.find? agg k with
    | none =>
      have := ih (agg ++ [⟨k, r.ty, .bin .mul v r.value⟩]) b
      simp only [applyMapping] at this
      rw [this]
      unfold valOf
      rw [find?_append_new agg _ b (by simpa using hf)]
      by_cases hb : k = b
      · subst hb
        simp only [if_true, hf, List.filter_cons, decide_true, List.map_cons, List.sum_cons, hev.mul]
        ring
      · simp only [hb, if_false, List.filter_cons, decide_false]
        simp
    | some cur =>
      have hcur : cur.name = k := by
        have := List.find?_some hf
        simpa using this
      subst hcur
      have := ih (Resource.set agg { cur with value := .bin .add cur.value (.bin .mul v r.value) }) b
      simp only [applyMapping] at this
      rw [this]
      unfold valOf
      by_cases hb : cur.name = b
      · subst hb
        have hs := find?_set_same agg { cur with value := .bin .add cur.value (.bin .mul v r.value) }
        simp only at hs
        rw [hs, hf]
        simp only [List.filter_cons, decide_true, if_true, List.map_cons, List.sum_cons, hev.add, hev.mul]
        ring
      · have hs := find?_set_other agg { cur with value := .bin .add cur.value (.bin .mul v r.value) } b hb
        rw [hs]
        simp only [List.filter_cons, hb, decide_false, Bool.false_eq_true, if_false]

/-! ### nested dictionaries are fully expanded: the path-sum recurrence -/

/-- the same, for ANY order that passes the executable check `topoOK` (each decomposed resource once, after the ones it is
    decomposed into) — the form in which the driver re-checks the hypothesis on every dictionary of every run -/
theorem C15_expansion_along_valid_order (ev : Expr → R) (hev : RingEval ev) (d : AggDict)
    (hD : ∀ r, ((d.get? r).getD []).keys.Nodup) (order : List String)
    (ho : aggOrder d = some order) (ht : topoOK d [] order = true) :
    ∃ E, expandAggregation d = .ok E ∧ ∀ r ∈ order, Expanded ev d E r := by
  refine ⟨_, expandAggregation_eq d order ho, ?_⟩
  have := expFold_spec ev hev d hD order [] [] ht (by intro r hr; cases hr) (by intro r m h; cases h) (by intro r hr; cases hr)
  simpa using this

/-- **expansion = sum over all decomposition paths**, stated as the recurrence that defines that sum: whenever the dictionary
    is accepted (not cyclic), in the expanded dictionary every decomposed resource `r` maps only to base resources, each once,
    and gives base resource `b` the weight
        W(r,b) = w(r,b) + Σ_{t decomposed target of r} w(r,t) · W(t,b)
    — for every interpretation of the multipliers in a commutative semiring.  The order comes from the model of
    `_topological_sort` (Kahn's algorithm, proved correct in BartiqProofs/GraphLemmas.lean: `staticOrder_spec`). -/
theorem C15_expansion_is_path_sum (ev : Expr → R) (hev : RingEval ev) (d : AggDict)
    (hD : ∀ r, ((d.get? r).getD []).keys.Nodup) (order : List String) (ho : aggOrder d = some order) :
    ∃ E, expandAggregation d = .ok E ∧ ∀ r ∈ order, Expanded ev d E r :=
  C15_expansion_along_valid_order ev hev d hD order ho (aggOrder_topoOK d order ho)

/-- the entry order inside each decomposition is irrelevant for the weights: they are determined by the recurrence alone, which
    only looks values up by name (`dval`) -/
theorem C15_weights_determined (ev : Expr → R) (d E E' : AggDict) (r b : String)
    (h : ∀ t, ((E.get? t).getD []) = ((E'.get? t).getD [])) : viaDecomposed ev d E r b = viaDecomposed ev d E' r b := by
  unfold viaDecomposed
  congr 1
  apply List.map_congr_left
  intro t _
  rw [h t]

-- non-vacuity: A → {B: 2, X: 3}, B → {X: 5}; the order [B, A] is accepted by the check, [A, B] is not
example : topoOK [("A", [("B", .num 2), ("X", .num 3)]), ("B", [("X", .num 5)])] [] ["B", "A"] = true ∧
    topoOK [("A", [("B", .num 2), ("X", .num 3)]), ("B", [("X", .num 5)])] [] ["A", "B"] = false := by decide

end Bartiq
