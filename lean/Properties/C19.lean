/-
  C19 — Big-O analysis returns the dominant power.
  Model: `leadingTerms` (BartiqModel/Analysis.lean) = `_get_leading_terms` on the exponent vectors that
  `sympy.Poly(expr, x).terms()` returns.  External contract (checked on every sample by harness/props/c19.py): for one
  generator, `terms()` lists the exponents of the non-zero terms in strictly decreasing order.
-/
import BartiqModel.Analysis
namespace Bartiq

theorem leadingTerms_step_univariate (d e : Nat) (h : e ≤ d) :
    (if leAllOthers [e] [[d]] then [[d]] else [[d]] ++ [[e]]) = [[d]] := by
  simp [leAllOthers, termLe, h]

theorem foldl_keeps_degree (d : Nat) : ∀ (rest : List Nat), (∀ e ∈ rest, e ≤ d) →
    (rest.map fun e => [e]).foldl (fun kept t => if leAllOthers t kept then kept else kept ++ [t]) [[d]] = [[d]]
  | [], _ => rfl
  | e :: es, h => by
    simp only [List.map_cons, List.foldl_cons]
    rw [leadingTerms_step_univariate d e (h e (by simp))]
    exact foldl_keeps_degree d es (fun x hx => h x (by simp [hx]))

/-- for a univariate polynomial whose exponents are listed in (weakly) decreasing order only the first — the degree —
    is kept: lower-order terms never appear, the leading power is never dropped -/
theorem C19_univariate (d : Nat) (rest : List Nat) (h : ∀ e ∈ rest, e ≤ d) :
    leadingTerms (([d] :: rest.map fun e => [e])) = [[d]] := by
  unfold leadingTerms
  simp only [List.foldl_cons]
  have h0 : (if leAllOthers [d] [] then ([] : List (List Nat)) else [] ++ [[d]]) = [[d]] := by
    simp [leAllOthers]
  rw [h0]
  exact foldl_keeps_degree d rest h

/-- a constant (only the exponent 0) gives the single term of degree 0, i.e. O(1) -/
theorem C19_constant : leadingTerms [[0]] = [[0]] := by decide

/-- the filter relies on the order of `terms()`: on an increasing list lower powers survive -/
theorem C19_needs_order : leadingTerms [[1], [3]] = [[1], [3]] := by decide

-- non-vacuity: degree 4 polynomial with terms x^4, x^2, x^0
example : leadingTerms [[4], [2], [0]] = [[4]] := by decide

/-- the filter only ever appends -/
theorem leadingFold_mono (ts : List (List Nat)) (kept : List (List Nat)) (t : List Nat) (h : t ∈ kept) :
    t ∈ ts.foldl (fun kept t => if leAllOthers t kept then kept else kept ++ [t]) kept := by
  induction ts generalizing kept with
  | nil => simpa
  | cons a as ih =>
    simp only [List.foldl_cons]
    apply ih
    split
    · exact h
    · exact List.mem_append_left _ h

theorem leadingFold_max (d : Nat) (ts : List Nat) (kept : List (List Nat))
    (hk : ∀ k ∈ kept, ∃ e, k = [e] ∧ e ≤ d) (hts : ∀ e ∈ ts, e ≤ d) (hd : d ∈ ts ∨ [d] ∈ kept) :
    [d] ∈ (ts.map fun e => [e]).foldl (fun kept t => if leAllOthers t kept then kept else kept ++ [t]) kept := by
  induction ts generalizing kept with
  | nil =>
    rcases hd with hd | hd
    · simp at hd
    · simpa using hd
  | cons a as ih =>
    simp only [List.map_cons, List.foldl_cons]
    by_cases hin : [d] ∈ kept
    · exact leadingFold_mono _ _ _ (by split; exact hin; exact List.mem_append_left _ hin)
    · rcases hd with hd | hd
      · rcases List.mem_cons.mp hd with rfl | hd
        · -- the maximum is being processed and is not yet kept: it cannot be ≤ all kept
          have : leAllOthers [d] kept = false := by
            unfold leAllOthers
            cases kept with
            | nil => simp
            | cons k ks =>
              simp only [List.isEmpty_cons, Bool.not_false, Bool.true_and]
              apply Bool.eq_false_iff.mpr
              intro hall
              have hall' := List.all_eq_true.mp hall
              obtain ⟨e, rfl, he⟩ := hk k (by simp)
              have := hall' [e] (by simp)
              simp [termLe] at this
              have : e = d := Nat.le_antisymm he this
              subst this
              exact hin (by simp)
          rw [this]
          exact leadingFold_mono _ _ _ (by simp)
        · refine ih _ ?_ (fun e he => hts e (by simp [he])) ?_
          · intro k hk'
            split at hk'
            · exact hk k hk'
            · rcases List.mem_append.mp hk' with h | h
              · exact hk k h
              · simp at h; exact ⟨a, h, hts a (by simp)⟩
          · exact Or.inl hd
      · exact absurd hd hin


/-- whatever the ORDER in which `terms()` lists them: the largest exponent present is among the terms BigO reports —
    the leading power is never dropped (no contract about the order needed) -/
theorem C19_leading_power_never_dropped (d : Nat) (ts : List Nat) (hd : d ∈ ts) (hmax : ∀ e ∈ ts, e ≤ d) :
    [d] ∈ leadingTerms (ts.map fun e => [e]) := by
  unfold leadingTerms
  exact leadingFold_max d ts [] (by simp) hmax (Or.inl hd)

/-- `Poly.terms()` of a univariate polynomial lists each exponent of a non-zero term once, in decreasing order: the
    result is exactly the first of them, the degree -/
theorem C19_strictly_decreasing (d : Nat) (rest : List Nat) (h : List.Pairwise (· > ·) (d :: rest)) :
    leadingTerms ((d :: rest).map fun e => [e]) = [[d]] := by
  simpa using C19_univariate d rest (fun e he => Nat.le_of_lt (List.rel_of_pairwise_cons h he))

/-- the result is never empty for a non-empty term list (a polynomial always has at least the term of its degree;
    the zero polynomial has the single term of exponent 0): BigO never returns an empty sum -/
theorem C19_result_nonempty (t : List Nat) (ts : List (List Nat)) : leadingTerms (t :: ts) ≠ [] := by
  unfold leadingTerms
  simp only [List.foldl_cons]
  have h0 : (if leAllOthers t [] then ([] : List (List Nat)) else [] ++ [t]) = [t] := by simp [leAllOthers]
  rw [h0]
  intro h
  have := leadingFold_mono ts [t] t (by simp)
  rw [h] at this
  simp at this

example : [5] ∈ leadingTerms ([[1], [5], [3]]) := C19_leading_power_never_dropped 5 [1, 5, 3] (by simp) (by simp)

end Bartiq
