/-
  C19 — Big-O analysis returns the dominant power.
  Model: `leadingTerms` (BartiqModel/Analysis.lean) = `_get_leading_terms` on the exponent vectors that
  `sympy.Poly(expr, x).terms()` returns.  External contract (checked on every sample by harness/props/c19.py): for one
  generator, `terms()` lists the exponents of the non-zero terms in strictly decreasing order.
-/
import BartiqModel.Analysis
namespace Bartiq

theorem leadingTerms_step_univariate (d e : Nat) (h : e ≤ d) :
    (if leAllOthers [e] [[d]] then [[d]] else [[d]] ++ [[e]]) = [[d]] := by
  simp [leAllOthers, termLe, h]

theorem foldl_keeps_degree (d : Nat) : ∀ (rest : List Nat), (∀ e ∈ rest, e ≤ d) →
    (rest.map fun e => [e]).foldl (fun kept t => if leAllOthers t kept then kept else kept ++ [t]) [[d]] = [[d]]
  | [], _ => rfl
  | e :: es, h => by
    simp only [List.map_cons, List.foldl_cons]
    rw [leadingTerms_step_univariate d e (h e (by simp))]
    exact foldl_keeps_degree d es (fun x hx => h x (by simp [hx]))

/-- for a univariate polynomial whose exponents are listed in (weakly) decreasing order only the first — the degree —
    is kept: lower-order terms never appear, the leading power is never dropped -/
theorem C19_univariate (d : Nat) (rest : List Nat) (h : ∀ e ∈ rest, e ≤ d) :
    leadingTerms (([d] :: rest.map fun e => [e])) = [[d]] := by
  unfold leadingTerms
  simp only [List.foldl_cons]
  have h0 : (if leAllOthers [d] [] then ([] : List (List Nat)) else [] ++ [[d]]) = [[d]] := by
    simp [leAllOthers]
  rw [h0]
  exact foldl_keeps_degree d rest h

/-- a constant (only the exponent 0) gives the single term of degree 0, i.e. O(1) -/
theorem C19_constant : leadingTerms [[0]] = [[0]] := by decide

/-- the filter relies on the order of `terms()`: on an increasing list lower powers survive -/
theorem C19_needs_order : leadingTerms [[1], [3]] = [[1], [3]] := by decide

-- non-vacuity: degree 4 polynomial with terms x^4, x^2, x^0
example : leadingTerms [[4], [2], [0]] = [[4]] := by decide

end Bartiq
