/-
  Driver — line protocol: one request per line on stdin, one response per line on stdout.
  (`partial` only in the I/O loop; no theorem mentions anything in this file.)
-/
import BartiqModel
import Generated.Stages
import Generated.Tables
open Bartiq Sexp

def errSexp (e : Err) : Sexp := l [a "err", a e.kind, a (e.msg.replace " " "_" |>.replace "(" "[" |>.replace ")" "]")]

def pointOfSexp : Sexp → Option (String × Rat)
  | .list [.atom n, .atom p, .atom q] => do
      let p ← p.toInt?; let q ← q.toNat?
      if q = 0 then none else some (n, mkRat p q)
  | _ => none

def optRatSexp : Option Rat → Sexp
  | none => a "_"
  | some q => l [a "q", a (toString q.num), a (toString q.den)]

partial def nvalSexp (nv : NVal Rat) : Sexp :=
  l [a "node", a nv.name, l (nv.ports.map fun p => l [a p.1, optRatSexp p.2.2]),
     l (nv.resources.map fun r => l [a r.1, a r.2.1.name, optRatSexp r.2.2]), l (nv.children.map nvalSexp)]

def aggEntryOfSexp : Sexp → Option (String × Dict Expr)
  | .list (.atom k :: ts) => do some (k, ← ts.mapM localOfSexp)
  | _ => none

/-- codec of the `toq` command: expressions travel as their own wire form -/
def sexpCodec : Codec :=
  { pr := fun e => Sexp.toString e.toSexp,
    ps := fun s => match Sexp.parseMany s with | some [x] => Expr.ofSexp x | _ => none }

def qseqStr : QSeq → String
  | .constant m => s!"(constant {m})"
  | .arithmetic i d => s!"(arithmetic {i} {d})"
  | .geometric r => s!"(geometric {r})"
  | .closedForm s p n => s!"(closed_form {s.getD "_"} {p.getD "_"} {n})"
  | .custom t i => s!"(custom {t} {i})"

partial def qroutineStr (q : QRoutine) : String :=
  let sp (xs : List String) : String := " ".intercalate xs
  s!"(q {q.name} {q.type.getD "_"} ({sp q.inputParams}) ({sp (q.localVars.map fun kv => s!"({kv.1} {kv.2})")}) " ++
  s!"({sp (q.linked.map fun lk => s!"({lk.1} {sp lk.2})")}) " ++
  s!"({sp (q.ports.map fun p => s!"({p.name} {p.dir.name} {p.size})")}) " ++
  s!"({sp (q.resources.map fun r => s!"({r.name} {r.ty.name} {r.value})")}) " ++
  s!"({sp (q.conns.map fun c => s!"({c.1} {c.2})")}) " ++
  (match q.rep with | none => "_" | some rp => s!"(rep {rp.count} {qseqStr rp.seq})") ++
  s!" ({sp (q.children.map qroutineStr)}))"

def genTables : Tables :=
  { binOps := Generated.binOpTable, unaryOps := Generated.unaryOpTable,
    builtins := Generated.builtinNames, specialParams := Generated.specialParams }

def hexVal (c : Char) : Option Nat :=
  if '0' ≤ c && c ≤ '9' then some (c.toNat - '0'.toNat)
  else if 'a' ≤ c && c ≤ 'f' then some (c.toNat - 'a'.toNat + 10) else none

def floatOfHex (s : String) : Option Float :=
  if s.length ≠ 16 then none else
  (s.toList.foldlM (fun (acc : Nat) c => (hexVal c).map (acc * 16 + ·)) 0).map (fun n => Float.ofBits n.toUInt64)

def hexOfFloat (x : Float) : String :=
  let n := x.toBits.toNat
  let digs := (List.range 16).map fun i => (n / 16 ^ (15 - i)) % 16
  String.ofList (digs.map fun d => if d < 10 then Char.ofNat (d + 48) else Char.ofNat (d + 87))

def costByName : String → Option (Float → Float)
  | "quad" => some fun x => (x - 1.5) * (x - 1.5) + 2.0
  | "shifted" => some fun x => (x + 3.0) * (x + 3.0)
  | "linear" => some fun x => 2.0 * x + 1.0
  | "flat" => some fun _ => 3.0
  | _ => none

/-- `graddesc <cost> <x0> <lo|_> <hi|_> <lr> <maxIter> <tol> <momentum> <eps>`  (floats as 16 hex digits of their bits) -/
def respondGradDesc (ws : List String) : String :=
  match ws with
  | [nm, x0, lo, hi, lr, mi, tol, mom, eps] =>
    match costByName nm, floatOfHex x0, floatOfHex lr, mi.toNat?, floatOfHex tol, floatOfHex mom, floatOfHex eps with
    | some f, some x0, some lr, some mi, some tol, some mom, some eps =>
      let bounds : Option (Option (Float × Float)) :=
        if lo == "_" then some none else match floatOfHex lo, floatOfHex hi with
          | some l, some h => some (some (l, h))
          | _, _ => none
      match bounds with
      | none => "(bad-request graddesc-bounds)"
      | some b =>
        match gradDescent Arith.float f { x0 := x0, bounds := b, learningRate := lr, maxIter := mi, tolerance := tol, momentum := mom, epsilon := eps } with
        | .ok r => "(ok (" ++ " ".intercalate (r.history.map hexOfFloat) ++ ") " ++ hexOfFloat r.optimal ++ " " ++ hexOfFloat r.minimumCost ++ ")"
        | .valueError => "(ValueError)"
        | .runtimeError => "(RuntimeError)"
    | _, _, _, _, _, _, _ => "(bad-request graddesc-args)"
  | _ => "(bad-request graddesc-arity)"

def respond (line : String) : String :=
  if line.startsWith "graddesc " then respondGradDesc ((line.drop 9).toString.splitOn " ") else
  if line.startsWith "parse " then
    match parseExpr genTables (line.drop 6).toString with
    | some e => Sexp.toString (l [a "ok", e.toSexp])
    | none => "(err parse)"
  else
  match Sexp.parseMany line with
  | none => "(bad-request unparsable)"
  | some [] => "(bad-request empty)"
  | some (.atom "compile" :: .atom skip :: r :: _) =>
    match Routine.ofSexp r with
    | none => "(bad-request routine)"
    | some r =>
      match compileRoutineWith Generated.defaultStages Cmp.poly (skip == "1") r with
      | .ok c => Sexp.toString (l [a "ok", c.toSexp])
      | .error e => Sexp.toString (errSexp e)
  | some (.atom "denote" :: .atom skip :: r :: pt :: _) =>
    -- value-level reading of the preprocessed routine at an exact rational point: (denote <skip> <routine> ((name p q) ...))
    match Routine.ofSexp r, listOfSexp pointOfSexp pt with
    | some r, some pt =>
      let top : Env Rat := fun x => (pt.find? (·.1 = x)).map (·.2)
      (match (do
          let _ ← (if skip == "1" then pure () else verify r)
          let r ← preprocessWith Generated.defaultStages r
          sortTree r : Except Err Routine) with
       | .ok r' =>
         (match denoteV Alg.rat top [] r' with
          | some nv => Sexp.toString (l [a "ok", nvalSexp nv])
          | none => "(err denote)")
       | .error e => Sexp.toString (errSexp e))
    | _, _ => "(bad-request denote)"
  | some (.atom "wellscoped" :: .atom skip :: r :: .list gs :: _) =>
    -- hypothesis of C04_hierarchy_closed_partial on the preprocessed routine: is the reading defined everywhere when exactly the
    -- names `gs` are given?   (wellscoped <skip> <routine> (G ...))
    match Routine.ofSexp r, gs.mapM atomStr with
    | some r, some G =>
      (match (do
          let _ ← (if skip == "1" then pure () else verify r)
          let r ← preprocessWith Generated.defaultStages r
          sortTree r : Except Err Routine) with
       | .ok r' =>
         (match denoteV unitAlg (envOf G) [] r' with
          | some nv => Sexp.toString (l [a "ok", a (if nv.allDefined then "defined" else "undefined"), a (if plainB r' then "plain" else "binders")])
          | none => "(ok no-reading _)")
       | .error e => Sexp.toString (errSexp e))
    | _, _ => "(bad-request wellscoped)"
  | some (.atom "sound" :: .atom skip :: r :: _) =>
    -- hypothesis of C17_compile_raises_only_own_errors on the tree preprocessing and child ordering produce
    match Routine.ofSexp r with
    | some r =>
      (match (do
          let _ ← (if skip == "1" then pure () else verify r)
          let r ← preprocessWith Generated.defaultStages r
          sortTree r : Except Err Routine) with
       | .ok r' => Sexp.toString (l [a "ok", a (if r'.sound then "sound" else "unsound")])
       | .error e => Sexp.toString (errSexp e))
    | none => "(bad-request sound)"
  | some (.atom "aggregate" :: .atom remove :: c :: d :: _) =>
    -- (aggregate <0|1> <croutine> ((res (target expr) ...) ...))
    match CRoutine.ofSexp c, listOfSexp aggEntryOfSexp d with
    | some c, some d =>
      (match addAggregatedResources d (remove == "1") c with
       | .ok c' =>
         -- also report whether the order `_topological_sort`'s model produced is a valid expansion order (hypothesis of
         -- C15_expansion_is_path_sum_partial)
         let topo := match aggOrder d with | some order => if topoOK d [] order then "topo-ok" else "topo-bad" | none => "topo-none"
         Sexp.toString (l [a "ok", c'.toSexp, a topo])
       | .error e => Sexp.toString (errSexp e))
    | _, _ => "(bad-request aggregate)"
  | some (.atom "latex" :: .atom showNonRoot :: r :: _) =>
    -- entries of the rendering, as (section key) pairs, and the formatter chosen for every input parameter
    match Routine.ofSexpWith false r with
    | some r =>
      let es := latexEntries r (showNonRoot == "1")
      Sexp.toString (l [a "ok", l (es.map fun e => l [a (e.sec.name.replace " " "_"), a e.key]),
        l (r.inputParams.map fun p => l [a p, a (match formatterOf (((p.splitOn ".").getLast?).getD p).toList with
          | .math => "math" | .mathSubscript => "mathSubscript" | .text => "text")])])
    | none => "(bad-request latex)"
  | some (.atom "evaluate" :: c :: asg :: rest) =>
    -- optional fourth item: the functions_map as a list of (name (param …) body), in dictionary order
    let fnOf : Sexp → Option FnImpl := fun
      | .list [.atom n, .list ps, b] => do
        let ps ← ps.mapM (fun | .atom p => some p | _ => none)
        some ⟨n, ps, ← Expr.ofSexp b⟩
      | _ => none
    let fns : Option (List FnImpl) := match rest with
      | [] => some []
      | f :: _ => listOfSexp fnOf f
    match CRoutine.ofSexp c, listOfSexp localOfSexp asg, fns with
    | some c, some asg, some fns =>
      match evaluateWith Cmp.poly c asg fns with
      | .ok c => Sexp.toString (l [a "ok", c.toSexp])
      | .error e => Sexp.toString (errSexp e)
    | _, _, _ => "(bad-request evaluate)"
  | some (.atom "toq" :: r :: _) =>
    -- QREF export of an uncompiled routine in the model, and whether the model re-imports its own export
    match Routine.ofSexp r with
    | some r =>
      let q := r.toQ sexpCodec
      let back := match q.fromQ sexpCodec with | some _ => "reimported" | none => "reimport-failed"
      s!"(ok {qroutineStr q} {back})"
    | none => "(bad-request toq)"
  | some (.atom "endpoint" :: .atom s :: _) =>
    -- `_endpoint_from_qref` and back
    match Endpoint.ofStr s with
    | some e => s!"(ok {e.routine.getD "_"} {e.port} {e.toStr})"
    | none => "(error TypeError)"
  | some (.atom "target" :: .atom s :: _) =>
    -- `target.rsplit(".", 1)` and back
    match targetOfStr s with
    | some t => s!"(ok {if t.1.isEmpty then "_" else t.1} {if t.2.isEmpty then "_" else t.2} {targetToStr t})"
    | none => "(error IndexError)"
  | some (.atom "leading" :: ts) =>
    -- (leading (e11 e12 ...) (e21 ...) ...): `_get_leading_terms` on exponent vectors
    match ts.mapM (fun (t : Sexp) => match t with
        | .list xs => xs.mapM (fun (x : Sexp) => match x with | .atom s => s.toNat? | _ => none)
        | _ => none) with
    | some terms => Sexp.toString (l [a "ok", l ((leadingTerms terms).map fun (t : List Nat) => l (t.map fun (n : Nat) => a (toString n)))])
    | none => "(bad-request leading)"
  | some (.atom "highwater" :: anc :: inR :: outR :: cs) =>
    -- (highwater <anc> <in> <out> (<inflow> <outflow> <hw>) ...): rationals written p/q
    let rat : Sexp → Option Rat := fun x => match x with
      | .atom s => (match s.splitOn "/" with
          | [p, q] => do let p ← p.toInt?; let q ← q.toNat?; if q = 0 then none else some (mkRat p q)
          | [p] => p.toInt?.map fun p => (p : Rat)
          | _ => none)
      | _ => none
    match rat anc, rat inR, rat outR, cs.mapM (fun (c : Sexp) => match c with
        | .list [i, o, h] => do some (⟨← rat i, ← rat o, ← rat h⟩ : ChildFlow Rat)
        | _ => none) with
    | some anc, some inR, some outR, some cs =>
      let v : Rat := highwaterImpl anc inR outR cs
      Sexp.toString (l [a "ok", a (toString v.num), a (toString v.den)])
    | _, _, _, _ => "(bad-request highwater)"
  | some (.atom "echo" :: e :: _) =>
    match Expr.ofSexp e with
    | some e => Sexp.toString e.toSexp
    | none => "(bad-request expr)"
  | some (.atom cmd :: _) => s!"(bad-request unknown-command {cmd})"
  | some _ => "(bad-request shape)"

partial def loop (h : IO.FS.Stream) (out : IO.FS.Stream) : IO Unit := do
  let line ← h.getLine
  if line.isEmpty then return ()
  let line := line.trimAscii.toString
  if !line.isEmpty then
    out.putStrLn (respond line)
    out.flush
  loop h out

def main : IO Unit := do loop (← IO.getStdin) (← IO.getStdout)
