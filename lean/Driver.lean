def main : IO Unit := IO.println "ok"
