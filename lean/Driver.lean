/-
  Driver — line protocol: one request per line on stdin, one response per line on stdout.
  (`partial` only in the I/O loop; no theorem mentions anything in this file.)
-/
import BartiqModel
import Generated.Stages
import Generated.Tables
open Bartiq Sexp

def errSexp (e : Err) : Sexp := l [a "err", a e.kind, a (e.msg.replace " " "_" |>.replace "(" "[" |>.replace ")" "]")]

def genTables : Tables :=
  { binOps := Generated.binOpTable, unaryOps := Generated.unaryOpTable,
    builtins := Generated.builtinNames, specialParams := Generated.specialParams }

def respond (line : String) : String :=
  if line.startsWith "parse " then
    match parseExpr genTables (line.drop 6).toString with
    | some e => Sexp.toString (l [a "ok", e.toSexp])
    | none => "(err parse)"
  else
  match Sexp.parseMany line with
  | none => "(bad-request unparsable)"
  | some [] => "(bad-request empty)"
  | some (.atom "compile" :: .atom skip :: r :: _) =>
    match Routine.ofSexp r with
    | none => "(bad-request routine)"
    | some r =>
      match compileRoutineWith Generated.defaultStages Cmp.poly (skip == "1") r with
      | .ok c => Sexp.toString (l [a "ok", c.toSexp])
      | .error e => Sexp.toString (errSexp e)
  | some (.atom "evaluate" :: c :: asg :: _) =>
    match CRoutine.ofSexp c, listOfSexp localOfSexp asg with
    | some c, some asg =>
      match evaluate Cmp.poly c asg with
      | .ok c => Sexp.toString (l [a "ok", c.toSexp])
      | .error e => Sexp.toString (errSexp e)
    | _, _ => "(bad-request evaluate)"
  | some (.atom "echo" :: e :: _) =>
    match Expr.ofSexp e with
    | some e => Sexp.toString e.toSexp
    | none => "(bad-request expr)"
  | some (.atom cmd :: _) => s!"(bad-request unknown-command {cmd})"
  | some _ => "(bad-request shape)"

partial def loop (h : IO.FS.Stream) (out : IO.FS.Stream) : IO Unit := do
  let line ← h.getLine
  if line.isEmpty then return ()
  let line := line.trimAscii.toString
  if !line.isEmpty then
    out.putStrLn (respond line)
    out.flush
  loop h out

def main : IO Unit := do loop (← IO.getStdin) (← IO.getStdout)
