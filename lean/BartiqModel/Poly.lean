/-
  BartiqModel.Poly — a small multivariate polynomial normaliser over `Rat`, used as the executable
  instance of the abstract comparator (`SympyBackend.compare` = expand the difference and look at it).
  Non-polynomial sub-terms are opaque atoms keyed by their wire form.
-/
import BartiqModel.Sexp
namespace Bartiq
namespace Poly

/-- a monomial: sorted list of (atom, positive exponent) -/
abbrev Mono := List (String × Nat)
/-- a polynomial: list of (monomial, non-zero coefficient), monomials pairwise distinct -/
abbrev P := List (Mono × Rat)

def monoMulVar : Mono → String → Nat → Mono
  | [], x, k => [(x, k)]
  | (y, j) :: t, x, k =>
    if x = y then (y, j + k) :: t
    else if x < y then (x, k) :: (y, j) :: t
    else (y, j) :: monoMulVar t x k

def monoMul (a b : Mono) : Mono := b.foldl (fun acc xk => monoMulVar acc xk.1 xk.2) a

def addTerm : P → Mono → Rat → P
  | [], m, c => if c = 0 then [] else [(m, c)]
  | (m', c') :: t, m, c =>
    if m' = m then (if c' + c = 0 then t else (m', c' + c) :: t)
    else (m', c') :: addTerm t m c

def add (a b : P) : P := b.foldl (fun acc mc => addTerm acc mc.1 mc.2) a
def scale (c : Rat) (a : P) : P := if c = 0 then [] else a.map (fun mc => (mc.1, mc.2 * c))
def mul (a b : P) : P :=
  a.foldl (fun acc ma => b.foldl (fun acc mb => addTerm acc (monoMul ma.1 mb.1) (ma.2 * mb.2)) acc) []
def const (c : Rat) : P := if c = 0 then [] else [([], c)]
def var (x : String) : P := [([(x, 1)], 1)]
def pow (a : P) : Nat → P
  | 0 => const 1
  | n + 1 => mul (pow a n) a

def isConst? : P → Option Rat
  | [] => some 0
  | [([], c)] => some c
  | _ => none

/-- exact value of a closed expression built from literals, arithmetic and exact built-ins
    (what sympy's automatic evaluation / `_value_of` folds) -/
def closedValue? (e : Expr) : Option Rat :=
  if (Expr.fv e).isEmpty then Expr.eval Alg.rat (fun _ => none) e else none

/-! canonical text of a polynomial (monomials in lexicographic order of their text): the key of a function call whose
    arguments are polynomials — `ceiling(L*3/2)` and `ceiling(3*L/2)` are the same atom, as they are the same sympy object -/
def monoKey (m : Mono) : String := "*".intercalate (m.map fun xk => xk.1 ++ "^" ++ toString xk.2)

def insertKey (x : String × Rat) : List (String × Rat) → List (String × Rat)
  | [] => [x]
  | y :: t => if x.1 < y.1 then x :: y :: t else y :: insertKey x t

def key (p : P) : String :=
  let terms := (p.map fun mc => (monoKey mc.1, mc.2)).foldr insertKey []
  "+".intercalate (terms.map fun t => toString t.2.num ++ "/" ++ toString t.2.den ++ "·" ++ t.1)

mutual
/-- normalise; anything that is not + − × literal-power is an opaque atom; closed sub-expressions
    with an exact value are folded first; the arguments of a function call are normalised inside the atom's key -/
def ofExprCore : Expr → P
  | .num q => const q
  | .sym s => var s
  | .neg a => scale (-1) (fold a)
  | .bin .add a b => add (fold a) (fold b)
  | .bin .sub a b => add (fold a) (scale (-1) (fold b))
  | .bin .mul a b => mul (fold a) (fold b)
  | .bin .div a (.num q) => if q = 0 then var (toString (Expr.toSexp (.bin .div a (.num q)))) else scale q⁻¹ (fold a)
  | .bin .pow a (.num q) =>
      if q.den = 1 ∧ q.num ≥ 0 ∧ q.num ≤ 8 then pow (fold a) q.num.toNat
      else var (toString (Expr.toSexp (.bin .pow a (.num q))))
  | .app f args => var ("(app " ++ f ++ " " ++ " ".intercalate (foldKeys args) ++ ")")
  | e => var (toString (Expr.toSexp e))
def fold : Expr → P
  | e => match closedValue? e with
    | some q => const q
    | none => ofExprCore e
def foldKeys : List Expr → List String
  | [] => []
  | a :: as => ("[" ++ key (fold a) ++ "]") :: foldKeys as
end

def ofExpr (e : Expr) : P := match closedValue? e with
  | some q => const q
  | none => ofExprCore e

end Poly

inductive Cmp | equal | unequal | ambiguous
deriving DecidableEq, Repr, Inhabited

/-- Executable comparator mirroring `SympyBackend.compare`: difference expands to 0 → equal; to a
    non-zero *integer* constant → unequal; anything else → ambiguous. -/
def Cmp.poly (a b : Expr) : Cmp :=
  match Poly.isConst? (Poly.ofExpr (.bin .sub a b)) with
  | some c => if c = 0 then .equal else if c.den = 1 then .unequal else .ambiguous
  | none => .ambiguous

end Bartiq
