/-
  BartiqModel.Functions — `functions_map` of `evaluate` (`SympyBackend._define_function`): after the substitution of the
  assigned inputs, every call of a named user function is replaced by the result of the user's implementation on the
  (already rewritten) arguments — sympy's `expr.replace(is_call_of_f, lambda m: impl(*m.args), simultaneous=False)`, a
  bottom-up traversal.  The implementation is modelled as a parameter list and a body (what a Python `lambda x, y: …` over
  sympy objects computes on symbolic arguments); a call with another number of arguments is left as it is (the real wrapper
  catches the `TypeError` and returns the unevaluated call).  Several functions are applied one after another, in the order
  of the dictionary (`for func_name, func in functions_map.items()`).
-/
import BartiqModel.Pipeline
namespace Bartiq

structure FnImpl where
  name : String
  params : List String
  body : Expr
deriving Repr, Inhabited

namespace Expr

mutual
def defineFn (I : FnImpl) : Expr → Expr
  | num q => num q
  | sym s => sym s
  | neg a => neg (defineFn I a)
  | bin op a b => bin op (defineFn I a) (defineFn I b)
  | app g args =>
    let args' := defineFnList I args
    if g = I.name ∧ args'.length = I.params.length then subst (I.params.zip args') I.body else app g args'
  | big k body i lo hi => big k (defineFn I body) i (defineFn I lo) (defineFn I hi)
def defineFnList (I : FnImpl) : List Expr → List Expr
  | [] => []
  | a :: as => defineFn I a :: defineFnList I as
end

/-- `for func_name, func in functions_map.items(): expr = _define_function(expr, func_name, func)` -/
def defineFns (Is : List FnImpl) (e : Expr) : Expr := Is.foldl (fun acc I => defineFn I acc) e

end Expr

/-- `evaluate(compiled, assignments, functions_map=…)` -/
def evaluateWith (C : Comparator) (c : CRoutine) (assignments : Dict Expr) (fns : List FnImpl) : Except Err CRoutine :=
  evaluateInternal C assignments (Expr.defineFns fns) c.name c

end Bartiq
