/-
  BartiqModel.Basic — dictionaries with Python `dict` semantics and the expression language.
  Core Lean only (no Mathlib): everything here is executable and is what the driver runs.
-/
namespace Bartiq

/-- A Python `dict[str, α]`: association list in insertion order, keys unique by construction
    when built through `set`/`merge`. -/
abbrev Dict (α : Type) := List (String × α)

namespace Dict
variable {α β : Type}

def get? : Dict α → String → Option α
  | [], _ => none
  | (k', v) :: t, k => if k' = k then some v else get? t k

def contains (d : Dict α) (k : String) : Bool := (d.get? k).isSome

/-- `d[k] = v`: update in place if present, else append. -/
def set : Dict α → String → α → Dict α
  | [], k, v => [(k, v)]
  | (k', v') :: t, k, v => if k' = k then (k', v) :: t else (k', v') :: set t k v

/-- `{**a, **b}` -/
def merge (a b : Dict α) : Dict α := b.foldl (fun acc kv => acc.set kv.1 kv.2) a

def erase (d : Dict α) (k : String) : Dict α := d.filter (fun kv => kv.1 ≠ k)

def keys (d : Dict α) : List String := d.map (·.1)
def values (d : Dict α) : List α := d.map (·.2)

def mapVal (f : α → β) (d : Dict α) : Dict β := d.map (fun kv => (kv.1, f kv.2))

/-- build from a list of pairs, later entries overwrite earlier ones (dict comprehension) -/
def ofList (l : List (String × α)) : Dict α := merge [] l

end Dict

inductive BinOp | add | sub | mul | div | pow | fdiv | mod
deriving DecidableEq, Repr, Inhabited

inductive BigKind | sum | prod
deriving DecidableEq, Repr, Inhabited

/-- Expressions.  `sym` covers plain (`N`), namespaced (`a.b.N`), port (`#in_0`, `a.#out_0`) and
    reserved-word (`lambda`, `in`) identifiers: each is one symbol.  `app` is any function call,
    built-in (lower-cased name) or uninterpreted.  `big` is `sum_over` / `prod_over`. -/
inductive Expr where
  | num (q : Rat)
  | sym (s : String)
  | neg (a : Expr)
  | bin (op : BinOp) (a b : Expr)
  | app (f : String) (args : List Expr)
  | big (k : BigKind) (body : Expr) (i : String) (lo hi : Expr)
deriving Repr, Inhabited

namespace Expr

/-- custom induction principle (the derived one is refused for nested inductives) -/
theorem ind {P : Expr → Prop}
    (hnum : ∀ q, P (num q)) (hsym : ∀ s, P (sym s)) (hneg : ∀ a, P a → P (neg a))
    (hbin : ∀ op a b, P a → P b → P (bin op a b))
    (happ : ∀ f args, (∀ a ∈ args, P a) → P (app f args))
    (hbig : ∀ k body i lo hi, P body → P lo → P hi → P (big k body i lo hi)) : ∀ e, P e
  | num q => hnum q
  | sym s => hsym s
  | neg a => hneg a (ind hnum hsym hneg hbin happ hbig a)
  | bin op a b => hbin op a b (ind hnum hsym hneg hbin happ hbig a) (ind hnum hsym hneg hbin happ hbig b)
  | app f args => happ f args (fun a _ => ind hnum hsym hneg hbin happ hbig a)
  | big k body i lo hi => hbig k body i lo hi (ind hnum hsym hneg hbin happ hbig body)
      (ind hnum hsym hneg hbin happ hbig lo) (ind hnum hsym hneg hbin happ hbig hi)

mutual
def beq : Expr → Expr → Bool
  | num a, num b => a == b
  | sym a, sym b => a == b
  | neg a, neg b => beq a b
  | bin o a b, bin o' a' b' => o == o' && beq a a' && beq b b'
  | app f as, app g bs => f == g && beqList as bs
  | big k b i l h, big k' b' i' l' h' => k == k' && i == i' && beq b b' && beq l l' && beq h h'
  | _, _ => false
def beqList : List Expr → List Expr → Bool
  | [], [] => true
  | a :: as, b :: bs => beq a b && beqList as bs
  | _, _ => false
end
instance : BEq Expr := ⟨beq⟩

/-- A substitution is a partial map from names to expressions. -/
abbrev Subst := String → Option Expr

def Subst.erase (σ : Subst) (i : String) : Subst := fun x => if x = i then none else σ x

mutual
/-- **Simultaneous** substitution; the bound iterator of `big` is not replaced in the body. -/
def substF (σ : Subst) : Expr → Expr
  | num q => num q
  | sym s => match σ s with | some t => t | none => sym s
  | neg a => neg (substF σ a)
  | bin op a b => bin op (substF σ a) (substF σ b)
  | app f args => app f (substFList σ args)
  | big k body i lo hi => big k (substF (σ.erase i) body) i (substF σ lo) (substF σ hi)
def substFList (σ : Subst) : List Expr → List Expr
  | [] => []
  | a :: as => substF σ a :: substFList σ as
end

def subst (σ : Dict Expr) (e : Expr) : Expr := substF σ.get? e

/-- The sequential variant (`expr.subs(list)` without `simultaneous=True`): kept only for the
    counter-example theorems. -/
def substSeq (σ : List (String × Expr)) (e : Expr) : Expr :=
  σ.foldl (fun acc kv => subst [(kv.1, kv.2)] acc) e

mutual
def fv : Expr → List String
  | num _ => []
  | sym s => [s]
  | neg a => fv a
  | bin _ a b => fv a ++ fv b
  | app _ args => fvList args
  | big _ body i lo hi => (fv body).filter (· ≠ i) ++ fv lo ++ fv hi
def fvList : List Expr → List String
  | [] => []
  | a :: as => fv a ++ fvList as
end

mutual
/-- all iterator names bound somewhere inside the expression -/
def binders : Expr → List String
  | num _ => []
  | sym _ => []
  | neg a => binders a
  | bin _ a b => binders a ++ binders b
  | app _ args => bindersList args
  | big _ body i lo hi => i :: binders body ++ binders lo ++ binders hi
def bindersList : List Expr → List String
  | [] => []
  | a :: as => binders a ++ bindersList as
end

mutual
/-- names of called functions -/
def heads : Expr → List String
  | num _ => []
  | sym _ => []
  | neg a => heads a
  | bin _ a b => heads a ++ heads b
  | app f args => f :: headsList args
  | big _ body _ lo hi => heads body ++ heads lo ++ heads hi
def headsList : List Expr → List String
  | [] => []
  | a :: as => heads a ++ headsList as
end

mutual
def size : Expr → Nat
  | num _ => 1
  | sym _ => 1
  | neg a => size a + 1
  | bin _ a b => size a + size b + 1
  | app _ args => sizeList args + 1
  | big _ body _ lo hi => size body + size lo + size hi + 1
def sizeList : List Expr → Nat
  | [] => 0
  | a :: as => size a + sizeList as
end

end Expr

/-- An arbitrary interpretation of the expression language.  Everything is partial: division by
    zero, `0 ^ (-1)`, an unknown function at a given arity … are `none`. -/
structure Alg (V : Type) where
  lit : Rat → Option V
  neg : V → Option V
  bin : BinOp → V → V → Option V
  fn  : String → List V → Option V
  big : BigKind → V → V → (Int → Option V) → Option V

abbrev Env (V : Type) := String → Option V

def Env.update {V} (ρ : Env V) (i : String) (v : Option V) : Env V := fun x => if x = i then v else ρ x

namespace Expr
variable {V : Type}

mutual
def eval (A : Alg V) (ρ : Env V) : Expr → Option V
  | num q => A.lit q
  | sym s => ρ s
  | neg a => (eval A ρ a).bind A.neg
  | bin op a b => (eval A ρ a).bind fun x => (eval A ρ b).bind fun y => A.bin op x y
  | app f args => (evalList A ρ args).bind (A.fn f)
  | big k body i lo hi =>
      (eval A ρ lo).bind fun l => (eval A ρ hi).bind fun h =>
        A.big k l h (fun j => eval A (ρ.update i (A.lit (j : Rat))) body)
def evalList (A : Alg V) (ρ : Env V) : List Expr → Option (List V)
  | [] => some []
  | a :: as => (eval A ρ a).bind fun x => (evalList A ρ as).bind fun xs => some (x :: xs)
end

/-- the environment "ρ after σ": what a name means once σ's values are read in ρ -/
def under (A : Alg V) (ρ : Env V) (σ : Subst) : Env V :=
  fun s => match σ s with | some t => eval A ρ t | none => ρ s

end Expr

/-! ### the executable exact-rational interpretation -/
namespace RatAlg

def powInt (a : Rat) (n : Int) : Option Rat :=
  if n ≥ 0 then some (a ^ n.toNat)
  else if a = 0 then none else some ((a ^ (-n).toNat)⁻¹)

def bin : BinOp → Rat → Rat → Option Rat
  | .add, a, b => some (a + b)
  | .sub, a, b => some (a - b)
  | .mul, a, b => some (a * b)
  | .div, a, b => if b = 0 then none else some (a / b)
  | .pow, a, b => if b.den = 1 then powInt a b.num else (if a = 1 then some 1 else none)
  | .fdiv, a, b => if b = 0 then none else some ((a / b).floor : Rat)
  | .mod, a, b => if b = 0 then none else some (a - b * ((a / b).floor : Rat))

def listMax : List Rat → Option Rat
  | [] => none
  | a :: as => some (as.foldl max a)
def listMin : List Rat → Option Rat
  | [] => none
  | a :: as => some (as.foldl min a)

/-- built-ins with exact rational semantics; every other function is undefined here (the harness
    supplies pseudo-random surrogates on its side and never asks the model to evaluate them) -/
def fn (f : String) (args : List Rat) : Option Rat :=
  match f.toLower, args with
  | "max", as => listMax as
  | "min", as => listMin as
  | "floor", [a] => some (a.floor : Rat)
  | "ceiling", [a] => some (a.ceil : Rat)
  | "ceil", [a] => some (a.ceil : Rat)
  | "abs", [a] => some (if a < 0 then -a else a)
  | "mod", [a, b] => bin .mod a b
  | "frac", [a] => some (a - (a.floor : Rat))
  | "sum", as => some (as.foldl (· + ·) 0)
  | "prod", as => some (as.foldl (· * ·) 1)
  | _, _ => none

def bigFold (k : BigKind) (f : Int → Option Rat) (lo : Int) : Nat → Option Rat
  | 0 => some (match k with | .sum => 0 | .prod => 1)
  | n + 1 => (bigFold k f lo n).bind fun acc => (f (lo + n)).bind fun v =>
      some (match k with | .sum => acc + v | .prod => acc * v)

def big (k : BigKind) (lo hi : Rat) (f : Int → Option Rat) : Option Rat :=
  if lo.den = 1 ∧ hi.den = 1 then bigFold k f lo.num (hi.num + 1 - lo.num).toNat else none

end RatAlg

def Alg.rat : Alg Rat where
  lit := some
  neg := fun a => some (-a)
  bin := RatAlg.bin
  fn := RatAlg.fn
  big := RatAlg.big

end Bartiq
