/-
  BartiqModel.Latex — the sectioning logic of `integrations/latex.py`: which entries the rendering of a document has, in which
  section, and which name formatter each parameter name goes through.  `sympy.latex`, `sympy.symbols` and the expression
  parser are external: an entry is identified by its section and key.
-/
import BartiqModel.Routine
namespace Bartiq

inductive Section
  | inputParams | linkedParams | inputPorts | outputPorts | throughPorts | localVars | repetition | resources
deriving DecidableEq, Repr

def Section.name : Section → String
  | .inputParams => "Input parameters" | .linkedParams => "Linked parameters" | .inputPorts => "Input ports"
  | .outputPorts => "Output ports" | .throughPorts => "Through ports" | .localVars => "Local variables"
  | .repetition => "Repetition" | .resources => "Resources"

structure Entry where
  sec : Section
  key : String
deriving DecidableEq, Repr

mutual
/-- `_walk(routine)`: all descendants in post-order, then the routine itself -/
def walk : Routine → List Routine
  | r@⟨_, _, _, _, _, _, _, _, _, _, ch, _⟩ => walkList ch ++ [r]
def walkList : List Routine → List Routine
  | [] => []
  | c :: cs => walk c ++ walkList cs
end

/-- proper descendants in the order `_format_resources` processes them -/
def descendants : Routine → List Routine
  | ⟨_, _, _, _, _, _, _, _, _, _, ch, _⟩ => walkList ch

def portSection : Dir → Section
  | .input => .inputPorts | .output => .outputPorts | .through => .throughPorts

/-- the entries of `routine_to_latex(routine, show_non_root_resources)` (the header line is not an entry) -/
def latexEntries (r : Routine) (showNonRoot : Bool) : List Entry :=
  r.inputParams.map (⟨.inputParams, ·⟩) ++
  r.linked.map (fun kv => ⟨.linkedParams, kv.1⟩) ++
  (r.ports.filter (·.dir = .input)).map (fun p => ⟨.inputPorts, p.name⟩) ++
  (r.ports.filter (·.dir = .output)).map (fun p => ⟨.outputPorts, p.name⟩) ++
  (r.ports.filter (·.dir = .through)).map (fun p => ⟨.throughPorts, p.name⟩) ++
  r.localVars.map (fun kv => ⟨.localVars, kv.1⟩) ++
  (match r.rep with | some _ => [⟨.repetition, "Count"⟩, ⟨.repetition, "Sequence type"⟩] | none => []) ++
  r.resources.map (fun x => ⟨.resources, x.name⟩) ++
  (if showNonRoot then (descendants r).flatMap (fun d => d.resources.map fun x => ⟨.resources, d.name ++ "." ++ x.name⟩) else [])

/-! ### which formatter a (non-dotted) parameter name goes through -/

inductive Fmt | math | mathSubscript | text
deriving DecidableEq, Repr

def countChar (c : Char) (s : List Char) : Nat := (s.filter (· = c)).length

/-- `param.split("_", 1)` -/
def splitFirst (c : Char) : List Char → List Char × List Char
  | [] => ([], [])
  | x :: xs => if x = c then ([], xs) else let (a, b) := splitFirst c xs; (x :: a, b)

/-- `_format_local_param` / `_format_param_math` / `_format_param_math_with_subscript` (after the fix: a leading or trailing
    underscore falls back to text) -/
def formatterOf (p : List Char) : Fmt :=
  if countChar '_' p ≤ 1 then
    if p.contains '_' then
      let (sym, sub) := splitFirst '_' p
      if sym.isEmpty || sub.isEmpty then .text else .mathSubscript
    else .math
  else .text

/-- the strings handed to `sympy.symbols` by the chosen formatter (it raises on the empty string) -/
def symbolsArgs (p : List Char) : List (List Char) :=
  match formatterOf p with
  | .math => [p]
  | .mathSubscript => let (sym, sub) := splitFirst '_' p; [sub, sym]
  | .text => []

end Bartiq
