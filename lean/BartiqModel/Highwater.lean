/-
  Highwater — the running-flow loop of `calculate_highwater` (src/bartiq/compilation/derived_resources.py) at the level of
  VALUES: the routine's total input and output sizes, and for every child in execution order its total inflow, total outflow and
  own highwater.  Generic in the arithmetic, so that the theorems (Properties/C16.lean) hold for every ordered additive group
  and the driver runs it on exact rationals next to the implementation.
-/
namespace Bartiq

structure ChildFlow (K : Type) where
  inflow : K
  outflow : K
  hw : K

/-- the watermarks the loop records from some child on, starting with active flow `active`; the last one is the routine's
    total output size -/
def watermarks {K : Type} [Add K] [Sub K] (outR : K) : List (ChildFlow K) → K → List K
  | [], _ => [outR]
  | c :: cs, active => (active - c.inflow + c.hw) :: watermarks outR cs (active - c.inflow + c.outflow)

/-- maximum of a non-empty list of watermarks -/
def maxOf {K : Type} [Max K] (x : K) (xs : List K) : K := xs.foldl max x

/-- local ancillae + the maximum of (total input size, the per-child watermarks, total output size) -/
def highwaterNum {K : Type} [Add K] [Sub K] [Max K] (anc inR outR : K) (cs : List (ChildFlow K)) : K :=
  anc + maxOf inR (watermarks outR cs inR)

/-- what the code literally does: watermarks equal to 0 are dropped before taking the maximum, and when none is left the
    result is the local ancillae alone -/
def highwaterImpl {K : Type} [Add K] [Sub K] [Max K] [Zero K] [DecidableEq K] (anc inR outR : K) (cs : List (ChildFlow K)) : K :=
  match (inR :: watermarks outR cs inR).filter (fun w => w ≠ 0) with
  | [] => anc
  | w :: ws => anc + maxOf w ws

end Bartiq
