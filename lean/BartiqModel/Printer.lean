/-
  BartiqModel.Printer — model of the parenthesisation policy of `BartiqPrinter` (sympy's StrPrinter with bartiq's `_print_Pow`):
  a surface tree is written with the minimal parentheses of the standard grammar, except around the base and the exponent of a
  power, where the policy is given by a table (regenerated from the real printer on every run: `Generated.parenTable`).
-/
import BartiqModel.Parser
namespace Bartiq
open Tok

/-- precedence level: 1 sum, 2 product, 3 signed, 4 power, 5 atom -/
def SExpr.level : SExpr → Nat
  | .bin op _ _ => if op = "+" ∨ op = "-" then 1 else if op = "**" then 4 else 2
  | .neg _ => 3
  | .pos _ => 3
  | _ => 5

/-- the class of a child as the printer table sees it -/
def SExpr.cls : SExpr → String
  | .num _ => "atom"
  | .name _ => "atom"
  | .call _ _ => "call"
  | .neg (.num _) => "negnum"
  | .neg _ => "neg"
  | .pos _ => "neg"
  | .bin op (.num _) (.num _) => if op = "/" then "rational" else if op = "+" ∨ op = "-" then "add" else if op = "**" then "pow" else "mul"
  | .bin op _ _ => if op = "+" ∨ op = "-" then "add" else if op = "**" then "pow" else "mul"

abbrev ParenTable := List (String × String × Bool)

def ParenTable.paren (tbl : ParenTable) (pos : String) (cls : String) : Bool :=
  match tbl.find? (fun e => e.1 = pos ∧ e.2.1 = cls) with
  | some e => e.2.2
  | none => true          -- unknown shape: parenthesise (always safe)

def wrap (b : Bool) (ts : List Tok) : List Tok := if b then lp :: ts ++ [rp] else ts

def opTok : String → Option Tok
  | "+" => some plus | "-" => some minus | "*" => some star | "/" => some slash
  | "//" => some dslash | "%" => some percent | "**" => some pow | _ => none

mutual
/-- the printed token string of a surface tree -/
def printWith (tbl : ParenTable) : SExpr → List Tok
  | .num q => [num q]
  | .name s => [name s]
  | .neg a => minus :: wrap (decide (a.level < 3)) (printWith tbl a)
  | .pos a => plus :: wrap (decide (a.level < 3)) (printWith tbl a)
  | .bin op a b =>
    if op = "+" ∨ op = "-" then
      printWith tbl a ++ (opTok op).toList ++ wrap (decide (b.level < 2)) (printWith tbl b)
    else if op = "**" then
      wrap (tbl.paren "powBase" a.cls || decide (a.level < 5)) (printWith tbl a) ++ pow ::
        wrap (tbl.paren "powExp" b.cls || decide (b.level < 3)) (printWith tbl b)
    else
      wrap (decide (a.level < 2)) (printWith tbl a) ++ (opTok op).toList ++ wrap (decide (b.level < 3)) (printWith tbl b)
  | .call f args => name f :: lp :: printArgs tbl args
def printArgs (tbl : ParenTable) : List SExpr → List Tok
  | [] => [rp]
  | a :: rest => printWith tbl a ++ printArgsTail tbl rest
def printArgsTail (tbl : ParenTable) : List SExpr → List Tok
  | [] => [rp]
  | b :: rest => comma :: (printWith tbl b ++ printArgsTail tbl rest)
end

/-- the table never leaves a needed parenthesis out (where it does, `printWith` adds it: the `||` above); what adequacy
    additionally says is that the REAL printer's decisions, as recorded in the table, are themselves sufficient -/
def ParenTable.Adequate (tbl : ParenTable) : Prop :=
  (∀ c ∈ ["negnum", "rational", "add", "mul", "pow", "neg"], tbl.paren "powBase" c = true) ∧
  (∀ c ∈ ["rational", "add", "mul"], tbl.paren "powExp" c = true)

end Bartiq
