/-
  BartiqModel.Preprocess — the four default preprocessing stages of `compilation/preprocessing.py`,
  one `def` per Python function, same step order.
-/
import BartiqModel.Routine
namespace Bartiq

mutual
/-- `transform.postorder_transform` -/
def postorder (f : Routine → Routine) : Routine → Routine
  | ⟨n, ty, ips, lvs, lks, ps, rs, cs, rep, cons, ch, _⟩ =>
    let ch' := postorderList f ch
    f ⟨n, ty, ips, lvs, lks, ps, rs, cs, rep, cons, ch', ch'.map (·.name)⟩
def postorderList (f : Routine → Routine) : List Routine → List Routine
  | [] => []
  | c :: cs => postorder f c :: postorderList f cs
end

mutual
def postorderM (f : Routine → Except Err Routine) : Routine → Except Err Routine
  | ⟨n, ty, ips, lvs, lks, ps, rs, cs, rep, cons, ch, _⟩ => do
    let ch' ← postorderListM f ch
    f ⟨n, ty, ips, lvs, lks, ps, rs, cs, rep, cons, ch', ch'.map (·.name)⟩
def postorderListM (f : Routine → Except Err Routine) : List Routine → Except Err (List Routine)
  | [] => pure []
  | c :: cs => do
    let c' ← postorderM f c
    let cs' ← postorderListM f cs
    pure (c' :: cs')
end

/-! ### propagate_child_resources -/

/-- names (in order of first appearance over the children) of resources of type `ty`, each with the
    children that have it with that type -/
def childResMap (children : List Routine) (ty : ResTy) : Dict (List String) :=
  children.foldl (fun acc c =>
    c.resources.foldl (fun acc r =>
      if r.ty = ty then acc.set r.name ((acc.get? r.name).getD [] ++ [c.name]) else acc) acc) []

def sumOf : List Expr → Expr
  | [] => .num 0
  | e :: es => es.foldl (Expr.bin .add) e
def prodOf : List Expr → Expr
  | [] => .num 1
  | e :: es => es.foldl (Expr.bin .mul) e

def propagateChildResourcesStep (r : Routine) : Routine :=
  let adds := childResMap r.children .additive
  let muls := childResMap r.children .multiplicative
  let additive : List Resource := (adds.filter (fun kv => !Resource.has r.resources kv.1)).map fun kv =>
    ⟨kv.1, .additive, sumOf (kv.2.map fun c => .sym (c ++ "." ++ kv.1))⟩
  let multiplicative : List Resource := (muls.filter (fun kv => !Resource.has r.resources kv.1)).map fun kv =>
    ⟨kv.1, .multiplicative, prodOf (kv.2.map fun c => .sym (c ++ "." ++ kv.1))⟩
  let extra := multiplicative.foldl Resource.set additive
  { r with resources := extra.foldl Resource.set r.resources }

def propagateChildResources : Routine → Routine := postorder propagateChildResourcesStep

/-! ### propagate_linked_params (top-down) -/

def splitFirstDot (s : String) : String × Option String :=
  match s.splitOn "." with
  | [] => (s, none)
  | [x] => (x, none)
  | x :: rest => (x, some (".".intercalate rest))

def updateChild (children : List Routine) (name : String) (f : Routine → Routine) : Option (List Routine) :=
  if children.any (·.name = name) then some (children.map fun c => if c.name = name then f c else c) else none

/-- one source's targets: returns updated children and the rewritten direct links -/
def propagateTargets (children : List Routine) (targets : List (String × String)) :
    Except Err (List Routine × List (String × String)) :=
  targets.foldlM (fun (st : List Routine × List (String × String)) tgt =>
    match splitFirstDot tgt.1 with
    | (childPath, some further) =>
      let newParam := further ++ "." ++ tgt.2
      match updateChild st.1 childPath (fun c =>
          { c with inputParams := c.inputParams ++ [newParam],
                   linked := Dict.merge [(newParam, [(further, tgt.2)])] c.linked }) with
      | some ch => pure (ch, st.2 ++ [(childPath, newParam)])
      | none => throw (.internal "KeyError")
    | (_, none) => pure (st.1, st.2 ++ [tgt])) (children, [])

def propagateLinksHere (r : Routine) : Except Err Routine := do
  let (children, linked) ← r.linked.foldlM (fun (st : List Routine × Dict (List (String × String))) kv => do
    let (ch, links) ← propagateTargets st.1 kv.2
    pure (ch, st.2.set kv.1 links)) (r.children, [])
  pure { r with linked := linked, children := children }

/-- fuelled by depth: the children handed to the recursive call are rebuilt by `propagateLinksHere` -/
def propagateLinkedParamsFuel : Nat → Routine → Except Err Routine
  | 0, r => pure r
  | fuel + 1, r => do
    let r' ← propagateLinksHere r
    let ch ← r'.children.mapM (propagateLinkedParamsFuel fuel)
    pure { r' with children := ch }

mutual
def depth : Routine → Nat
  | ⟨_, _, _, _, _, _, _, _, _, _, ch, _⟩ => depthList ch + 1
def depthList : List Routine → Nat
  | [] => 0
  | c :: cs => max (depth c) (depthList cs)
end

def propagateLinkedParams (r : Routine) : Except Err Routine := propagateLinkedParamsFuel (depth r) r

/-! ### promote_unlinked_inputs -/

def promoteUnlinkedInputsStep (r : Routine) : Routine :=
  let allTargets : List (String × String) := r.linked.flatMap (·.2)
  let additional : Dict (List (String × String)) :=
    r.children.flatMap fun c => (c.inputParams.filter fun i => !allTargets.contains (c.name, i)).map fun i =>
      (c.name ++ "." ++ i, [(c.name, i)])
  let additional := Dict.ofList additional
  { r with inputParams := r.inputParams ++ additional.keys, linked := Dict.merge r.linked additional }

def promoteUnlinkedInputs : Routine → Routine := postorder promoteUnlinkedInputsStep

/-! ### introduce_port_variables -/

def Expr.isSingleParam : Expr → Bool | .sym _ => true | _ => false

/-- `is_constant_int`: the (sympy-canonicalised) expression prints as an integer literal -/
def Expr.constInt? (e : Expr) : Option Int :=
  if (Expr.fv e).isEmpty && (Expr.heads e).isEmpty then
    match Expr.eval Alg.rat (fun _ => none) e with
    | some q => if q.den = 1 then some q.num else none
    | none => none
  else none

def insertSorted {α} (lt : α → α → Bool) (x : α) : List α → List α
  | [] => [x]
  | y :: ys => if lt x y then x :: y :: ys else y :: insertSorted lt x ys
def sortBy {α} (lt : α → α → Bool) (l : List α) : List α := l.foldr (insertSorted lt) []

def portKeyLt (p q : Port) : Bool :=
  let kp := !p.size.isSingleParam
  let kq := !q.size.isSingleParam
  (kp == false && kq == true) || (kp == kq && p.name < q.name)

structure IPVState where
  newPorts : List Port := []
  addLocals : Dict Expr := []
  newInputs : List String := []
  addCons : List Constraint := []

def setPort (ps : List Port) (p : Port) : List Port :=
  if ps.any (·.name = p.name) then ps.map (fun q => if q.name = p.name then p else q) else ps ++ [p]

/-- the body of the loop over the (sorted) non-output ports -/
def ipvStep (r : Routine) (st : IPVState) (port : Port) : Except Err IPVState := do
  let vname := "#" ++ port.name
  let v := Expr.sym vname
  let st ← (match port.size with
    | .sym s =>
      if s ≠ vname then
        (match st.addLocals.get? s with
         | none => pure { st with addLocals := st.addLocals.set s v }
         | some w => pure { st with addCons := st.addCons ++ [⟨v, w, .inconclusive⟩] })
      else pure st
    | size =>
      match size.constInt? with
      | some _ => pure { st with addCons := st.addCons ++ [⟨v, size, .inconclusive⟩] }
      | none =>
        let missing := (Expr.fv size).filter fun s =>
          !r.inputParams.contains s && !r.localVars.contains s && !st.addLocals.contains s
        if !missing.isEmpty then
          throw (Err.preprocessing s!"Size of the port {port.name} depends on undefined symbols")
        else
          let newSize := Expr.subst st.addLocals size
          pure { st with addCons := st.addCons ++ [⟨v, newSize, .inconclusive⟩] } : Except Err IPVState)
  pure { st with newPorts := setPort st.newPorts { port with size := v }, newInputs := st.newInputs ++ [vname] }

def introducePortVariablesStep (r : Routine) : Except Err Routine := do
  let nonOut := sortBy portKeyLt (Port.portsOf r.ports [.input, .through])
  let st ← nonOut.foldlM (ipvStep r) ({} : IPVState)
  pure { r with
    ports := (Port.portsOf r.ports [.output]).foldl setPort st.newPorts,
    inputParams := r.inputParams ++ st.newInputs,
    localVars := Dict.merge r.localVars st.addLocals,
    constraints := r.constraints ++ st.addCons }

def introducePortVariables (r : Routine) : Except Err Routine := do
  let ch ← postorderListM introducePortVariablesStep r.children
  pure { r with children := ch }

end Bartiq
