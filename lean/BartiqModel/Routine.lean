/-
  BartiqModel.Routine — the data model of `_routine.py` / `repetitions.py` (dict-valued fields are
  insertion-ordered lists) and its wire codec.
-/
import BartiqModel.Sexp
namespace Bartiq

inductive Dir | input | output | through
deriving DecidableEq, Repr, Inhabited

inductive ResTy | additive | multiplicative | qubits | other
deriving DecidableEq, Repr, Inhabited

structure Port where
  name : String
  dir : Dir
  size : Expr
deriving Repr, Inhabited

structure Resource where
  name : String
  ty : ResTy
  value : Expr
deriving Repr, Inhabited

/-- `routine = none` is the routine being compiled itself. -/
structure Endpoint where
  routine : Option String
  port : String
deriving DecidableEq, Repr, Inhabited

inductive Seq where
  | constant (multiplier : Expr)
  | arithmetic (initial difference : Expr)
  | geometric (ratio : Expr)
  | closedForm (sum prod : Option Expr) (numTerms : Expr)
  | custom (term : Expr) (iterator : Expr)
deriving Repr, Inhabited

structure Repetition where
  count : Expr
  seq : Seq
deriving Repr, Inhabited

/-- apply a function to every expression field of a sequence / repetition -/
def Seq.mapExpr (f : Expr → Expr) : Seq → Seq
  | .constant m => .constant (f m)
  | .arithmetic i d => .arithmetic (f i) (f d)
  | .geometric r => .geometric (f r)
  | .closedForm s p n => .closedForm (s.map f) (p.map f) (f n)
  | .custom t i => .custom (f t) (f i)

def Repetition.mapExpr (f : Expr → Expr) (r : Repetition) : Repetition := ⟨f r.count, r.seq.mapExpr f⟩

inductive Status | inconclusive | satisfied | violated
deriving DecidableEq, Repr, Inhabited

structure Constraint where
  lhs : Expr
  rhs : Expr
  status : Status := .inconclusive
deriving Repr, Inhabited

/-- `bartiq.Routine` (uncompiled). `linked : source ↦ [(child path, param)]`. -/
structure Routine where
  name : String
  type : Option String
  inputParams : List String
  localVars : Dict Expr
  linked : Dict (List (String × String))
  ports : List Port
  resources : List Resource
  conns : List (Endpoint × Endpoint)
  rep : Option Repetition
  constraints : List Constraint
  children : List Routine
  childrenOrder : List String
deriving Repr, Inhabited

/-- `bartiq.CompiledRoutine` -/
structure CRoutine where
  name : String
  type : Option String
  inputParams : List String
  ports : List Port
  resources : List Resource
  conns : List (Endpoint × Endpoint)
  rep : Option Repetition
  constraints : List Constraint
  children : List CRoutine
  childrenOrder : List String
deriving Repr, Inhabited

/-- Exceptions, by the class the Python code raises. `internal` = anything that is not one of
    bartiq's own errors (KeyError, AssertionError, IndexError, TypeError, CycleError …). -/
inductive Err where
  | compilation (msg : String)
  | preprocessing (msg : String)
  | value (msg : String)
  | internal (pyExc : String)
deriving Repr, Inhabited, DecidableEq

def Err.kind : Err → String
  | .compilation _ => "compilation"
  | .preprocessing _ => "preprocessing"
  | .value _ => "value"
  | .internal _ => "internal"

def Err.msg : Err → String
  | .compilation m => m | .preprocessing m => m | .value m => m | .internal m => m

namespace Port
def portsOf (ps : List Port) (dirs : List Dir) : List Port := ps.filter (fun p => dirs.contains p.dir)
def find? (ps : List Port) (n : String) : Option Port := ps.find? (fun p => p.name = n)
end Port

namespace Resource
def find? (rs : List Resource) (n : String) : Option Resource := rs.find? (fun r => r.name = n)
def has (rs : List Resource) (n : String) : Bool := (find? rs n).isSome
/-- `{**rs, name: r}` -/
def set : List Resource → Resource → List Resource
  | [], r => [r]
  | r' :: t, r => if r'.name = r.name then r :: t else r' :: set t r
end Resource

/-! ### wire codec -/
open Sexp

def Dir.name : Dir → String | .input => "input" | .output => "output" | .through => "through"
def Dir.ofName : String → Option Dir
  | "input" => some .input | "output" => some .output | "through" => some .through | _ => none
def ResTy.name : ResTy → String
  | .additive => "additive" | .multiplicative => "multiplicative" | .qubits => "qubits" | .other => "other"
def ResTy.ofName : String → Option ResTy
  | "additive" => some .additive | "multiplicative" => some .multiplicative
  | "qubits" => some .qubits | "other" => some .other | _ => none
def Status.name : Status → String
  | .inconclusive => "inconclusive" | .satisfied => "satisfied" | .violated => "violated"

def optAtom : Option String → Sexp | none => a "_" | some s => a s
def atomOpt : Sexp → Option (Option String)
  | .atom "_" => some none | .atom s => some (some s) | _ => none

def Endpoint.toSexp (e : Endpoint) : Sexp := l [optAtom e.routine, a e.port]
def Endpoint.ofSexp : Sexp → Option Endpoint
  | .list [r, .atom p] => (atomOpt r).map (⟨·, p⟩)
  | _ => none

def optExprToSexp : Option Expr → Sexp | none => a "_" | some e => e.toSexp
def optExprOfSexp : Sexp → Option (Option Expr)
  | .atom "_" => some none
  | x => (Expr.ofSexp x).map some

def Seq.toSexp : Seq → Sexp
  | .constant m => l [a "constant", m.toSexp]
  | .arithmetic i d => l [a "arithmetic", i.toSexp, d.toSexp]
  | .geometric r => l [a "geometric", r.toSexp]
  | .closedForm s p n => l [a "closed_form", optExprToSexp s, optExprToSexp p, n.toSexp]
  | .custom t i => l [a "custom", t.toSexp, i.toSexp]
def Seq.ofSexp : Sexp → Option Seq
  | .list [.atom "constant", m] => (Expr.ofSexp m).map .constant
  | .list [.atom "arithmetic", i, d] => do some (.arithmetic (← Expr.ofSexp i) (← Expr.ofSexp d))
  | .list [.atom "geometric", r] => (Expr.ofSexp r).map .geometric
  | .list [.atom "closed_form", s, p, n] => do
      some (.closedForm (← optExprOfSexp s) (← optExprOfSexp p) (← Expr.ofSexp n))
  | .list [.atom "custom", t, i] => do some (.custom (← Expr.ofSexp t) (← Expr.ofSexp i))
  | _ => none
def Seq.kind : Seq → String
  | .constant _ => "constant" | .arithmetic _ _ => "arithmetic" | .geometric _ => "geometric"
  | .closedForm _ _ _ => "closed_form" | .custom _ _ => "custom"

def Repetition.toSexp (r : Repetition) : Sexp := l [a "rep", r.count.toSexp, r.seq.toSexp]
def Repetition.ofSexp : Sexp → Option Repetition
  | .list [.atom "rep", c, s] => do some ⟨← Expr.ofSexp c, ← Seq.ofSexp s⟩
  | _ => none
def optRepToSexp : Option Repetition → Sexp | none => a "_" | some r => r.toSexp
def optRepOfSexp : Sexp → Option (Option Repetition)
  | .atom "_" => some none
  | x => (Repetition.ofSexp x).map some

def Port.toSexp (p : Port) : Sexp := l [a p.name, a p.dir.name, p.size.toSexp]
/-- a port written with size `_` is QREF's `size: null`; `from_qref` reads it as the symbol `#name` -/
def Port.ofSexp : Sexp → Option Port
  | .list [.atom n, .atom d, .atom "_"] => do some ⟨n, ← Dir.ofName d, .sym ("#" ++ n)⟩
  | .list [.atom n, .atom d, s] => do some ⟨n, ← Dir.ofName d, ← Expr.ofSexp s⟩
  | _ => none
def Resource.toSexp (r : Resource) : Sexp := l [a r.name, a r.ty.name, r.value.toSexp]
def Resource.ofSexp : Sexp → Option Resource
  | .list [.atom n, .atom t, v] => do some ⟨n, ← ResTy.ofName t, ← Expr.ofSexp v⟩
  | _ => none
def Constraint.toSexp (c : Constraint) : Sexp := l [c.lhs.toSexp, c.rhs.toSexp, a c.status.name]

def listOfSexp {α} (f : Sexp → Option α) : Sexp → Option (List α)
  | .list xs => xs.mapM f
  | _ => none
def atomStr : Sexp → Option String | .atom s => some s | _ => none

def connOfSexp : Sexp → Option (Endpoint × Endpoint)
  | .list [s, t] => do some (← Endpoint.ofSexp s, ← Endpoint.ofSexp t)
  | _ => none
def localOfSexp : Sexp → Option (String × Expr)
  | .list [.atom v, e] => do some (v, ← Expr.ofSexp e)
  | _ => none
def targetOfSexp : Sexp → Option (String × String)
  | .list [.atom p, .atom q] => some (p, q)
  | _ => none
def linkOfSexp : Sexp → Option (String × List (String × String))
  | .list (.atom src :: ts) => do some (src, ← ts.mapM targetOfSexp)
  | _ => none

/-- `Routine.from_qref`: links listed with the same source are merged (targets concatenated, position of the first) -/
def mergeLinks (l : List (String × List (String × String))) : Dict (List (String × String)) :=
  l.foldl (fun acc kv => acc.set kv.1 (((acc.get? kv.1).getD []) ++ kv.2)) []

mutual
/-- `merge = true`: the routine as `Routine.from_qref` builds it (links with the same source merged);
    `merge = false`: the document as written (what `routine_to_latex` renders) -/
def Routine.ofSexpWith (merge : Bool) : Sexp → Option Routine
  | .list [.atom "routine", .atom name, ty, ips, lvs, lks, ps, rs, cs, rep, .list ch] => do
      let children ← Routine.ofSexpListWith merge ch
      let links ← listOfSexp linkOfSexp lks
      some { name := name, type := ← atomOpt ty, inputParams := ← listOfSexp atomStr ips,
             localVars := ← listOfSexp localOfSexp lvs, linked := if merge then mergeLinks links else links,
             ports := ← listOfSexp Port.ofSexp ps, resources := ← listOfSexp Resource.ofSexp rs,
             conns := ← listOfSexp connOfSexp cs, rep := ← optRepOfSexp rep, constraints := [],
             children := children, childrenOrder := children.map (·.name) }
  | _ => none
def Routine.ofSexpListWith (merge : Bool) : List Sexp → Option (List Routine)
  | [] => some []
  | x :: xs => do let r ← Routine.ofSexpWith merge x; let rs ← Routine.ofSexpListWith merge xs; some (r :: rs)
end

def Routine.ofSexp : Sexp → Option Routine := Routine.ofSexpWith true

mutual
def CRoutine.toSexp : CRoutine → Sexp
  | ⟨name, ty, ips, ps, rs, cs, rep, cons, ch, _⟩ =>
    l [a "croutine", a name, optAtom ty, l (ips.map a), l (ps.map Port.toSexp), l (rs.map Resource.toSexp),
       l (cs.map fun c => l [c.1.toSexp, c.2.toSexp]), optRepToSexp rep, l (cons.map Constraint.toSexp),
       l (CRoutine.toSexpList ch)]
def CRoutine.toSexpList : List CRoutine → List Sexp
  | [] => []
  | c :: cs => CRoutine.toSexp c :: CRoutine.toSexpList cs
end

def statusOfName : String → Option Status
  | "inconclusive" => some .inconclusive | "satisfied" => some .satisfied | "violated" => some .violated | _ => none
def Constraint.ofSexp : Sexp → Option Constraint
  | .list [x, y, .atom s] => do some ⟨← Expr.ofSexp x, ← Expr.ofSexp y, ← statusOfName s⟩
  | _ => none

mutual
def CRoutine.ofSexp : Sexp → Option CRoutine
  | .list [.atom "croutine", .atom name, ty, ips, ps, rs, cs, rep, cons, .list ch] => do
      let children ← CRoutine.ofSexpList ch
      some { name := name, type := ← atomOpt ty, inputParams := ← listOfSexp atomStr ips,
             ports := ← listOfSexp Port.ofSexp ps, resources := ← listOfSexp Resource.ofSexp rs,
             conns := ← listOfSexp connOfSexp cs, rep := ← optRepOfSexp rep,
             constraints := ← listOfSexp Constraint.ofSexp cons,
             children := children, childrenOrder := children.map (·.name) }
  | _ => none
def CRoutine.ofSexpList : List Sexp → Option (List CRoutine)
  | [] => some []
  | x :: xs => do let r ← CRoutine.ofSexp x; let rs ← CRoutine.ofSexpList xs; some (r :: rs)
end

end Bartiq
