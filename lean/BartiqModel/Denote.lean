/-
  BartiqModel.Denote — the value-level reference evaluator: the same walk over the hierarchy as `_compile`
  (same child order, same accumulation of the parameter tree), but every expression is EVALUATED in the scope
  instead of being rewritten by substitution.  No substitution occurs anywhere in this file.
-/
import BartiqModel.Compile
namespace Bartiq
open Expr

variable {V : Type}

/-- a dictionary of (possibly undefined) values -/
abbrev VDict (V : Type) := Dict (Option V)

/-- what a name means in a scope: the value the dictionary gives it, else its top-level value -/
def scopeOf (top : Env V) (d : VDict V) : Env V := fun x => match d.get? x with | some v => v | none => top x

/-- evaluate an expression in the scope (this is the value-level counterpart of `subst`) -/
def instV (A : Alg V) (top : Env V) (d : VDict V) (e : Expr) : Option V := eval A (scopeOf top d) e

/-- values of a node -/
structure NVal (V : Type) where
  name : String
  ports : List (String × Dir × Option V)
  resources : List (String × ResTy × Option V)
  children : List (NVal V)

def localsV (A : Alg V) (top : Env V) (locals : Dict Expr) (givenV : VDict V) : Option (VDict V) :=
  (localOrder locals).map fun order => (order.foldl (localsStep (instV A top) locals) (([] : VDict V), givenV)).1

def linksV (top : Env V) (selfV : VDict V) (linked : Dict (List (String × String))) : PUpdateG (Option V) :=
  linked.flatMap fun kv => kv.2.map fun t => (some t.1, t.2, scopeOf top selfV kv.1)

def pmInitV (top : Env V) (lvV givenV : VDict V) (lks : Dict (List (String × String))) (ch : List Routine) : PTreeG (Option V) :=
  ({ self := Dict.merge lvV givenV, kids := ch.map fun c => (c.name, ([] : VDict V)) } : PTreeG (Option V)).mergeUpd
    (linksV top (Dict.merge lvV givenV) lks)

def portValsV (A : Alg V) (top : Env V) (d : VDict V) (ps : List Port) : List (String × Dir × Option V) :=
  ps.map fun p => (p.name, p.dir, instV A top d p.size)

def sizesOfV (pv : List (String × Dir × Option V)) : VDict V := pv.map fun p => (p.1, p.2.2)

def childrenVariablesV (cs : List (NVal V)) : VDict V :=
  Dict.ofList (cs.flatMap fun c => c.resources.map fun r => (c.name ++ "." ++ r.1, r.2.2))

def sigsV (cs : List (NVal V)) : List (String × List (String × ResTy)) :=
  cs.map fun c => (c.name, c.resources.map fun r => (r.1, r.2.1))

def exceptToOption {ε α} : Except ε α → Option α
  | .ok a => some a
  | .error _ => none

/-- the resources whose values a node reports: its own, or — for a repetition wrapper — the closed forms over the single
    child's resources (`_process_repeated_resources`) -/
def repResourcesV (rep : Option Repetition) (rs : List Resource) (sigs : List (String × List (String × ResTy))) :
    Option (List Resource) :=
  match rep with
  | none => some rs
  | some rp => exceptToOption (processRepeatedResources rp rs sigs)

mutual
/-- value of a node given the values handed to its inputs (`givenV`) and the top-level point (`top`) -/
def denoteV (A : Alg V) (top : Env V) (givenV : VDict V) : Routine → Option (NVal V)
  | ⟨name, _, _, lvs, lks, ps, rs, cs, rep, _, ch, _⟩ =>
    (localsV A top lvs givenV).bind fun lvV =>
    let pm := pmInitV top lvV givenV lks ch
    let portsIn := portValsV A top pm.self (Port.portsOf ps [.input, .through])
    (exceptToOption (paramTreeFromSizes (connectionsFrom cs none) (sizesOfV portsIn))).bind fun upd =>
    (denoteChildrenV A top cs (pm.mergeUpd upd) ch).bind fun (pm2, cvs) =>
    let selfV := Dict.merge pm2.self (childrenVariablesV cvs)
    (repResourcesV rep rs (sigsV cvs)).bind fun resources =>
    some { name := name,
           ports := portsIn ++ portValsV A top selfV (Port.portsOf ps [.output]),
           resources := resources.map fun (r : Resource) => (r.name, r.ty, instV A top selfV r.value),
           children := cvs }
def denoteChildrenV (A : Alg V) (top : Env V) (conns : List (Endpoint × Endpoint)) :
    PTreeG (Option V) → List Routine → Option (PTreeG (Option V) × List (NVal V))
  | pm, [] => some (pm, [])
  | pm, c :: cs =>
    (denoteV A top ((pm.kids.get? c.name).getD []) c).bind fun cv =>
    (exceptToOption (paramTreeFromSizes (connectionsFrom conns (some c.name)) (sizesOfV cv.ports))).bind fun upd =>
    (denoteChildrenV A top conns (pm.mergeUpd upd) cs).bind fun (pm', cvs) =>
    some (pm', cv :: cvs)
end

mutual
/-- the values of a compiled tree at a point -/
def evalTree (A : Alg V) (ρ : Env V) : CRoutine → NVal V
  | ⟨n, _, _, ps, rs, _, _, _, ch, _⟩ =>
    { name := n, ports := ps.map fun p => (p.name, p.dir, eval A ρ p.size),
      resources := rs.map fun r => (r.name, r.ty, eval A ρ r.value), children := evalTreeList A ρ ch }
def evalTreeList (A : Alg V) (ρ : Env V) : List CRoutine → List (NVal V)
  | [] => []
  | c :: cs => evalTree A ρ c :: evalTreeList A ρ cs
end

/-! ### executable side conditions of the theorems (so that the driver can evaluate them on every generated routine) -/

open Expr in
/-- sequences whose closed forms are written without an iterator (constant, arithmetic, geometric) and whose parameters
    contain none: the repetition wrappers covered by the refinement theorem -/
def plainSeqB : Seq → Bool
  | .constant m => (binders m).isEmpty
  | .arithmetic i d => (binders i).isEmpty && (binders d).isEmpty
  | .geometric r => (binders r).isEmpty
  | _ => false

def plainRepB : Option Repetition → Bool
  | none => true
  | some rp => (binders rp.count).isEmpty && plainSeqB rp.seq

mutual
def plainB : Routine → Bool
  | ⟨_, _, _, lvs, _, ps, rs, _, rep, _, ch, _⟩ =>
    lvs.all (fun kv => (binders kv.2).isEmpty) && ps.all (fun p => (binders p.size).isEmpty) &&
    rs.all (fun r => (binders r.value).isEmpty) && plainRepB rep && plainListB ch
def plainListB : List Routine → Bool
  | [] => true
  | c :: cs => plainB c && plainListB cs
end

/-- the one-point interpretation: every operation is total; `sum_over`/`prod_over` read their body once -/
def unitAlg : Alg Unit :=
  { lit := fun _ => some (), neg := fun _ => some (), bin := fun _ _ _ => some (), fn := fun _ _ => some (),
    big := fun _ _ _ f => f 0 }

/-- exactly the names of `G` are given -/
def envOf (G : List String) : Env Unit := fun x => if x ∈ G then some () else none


mutual
/-- every port size and resource value of every node of the reading is defined -/
def NVal.allDefined {V : Type} : NVal V → Bool
  | ⟨_, ps, rs, ch⟩ => ps.all (fun p => p.2.2.isSome) && rs.all (fun r => r.2.2.isSome) && NVal.allDefinedList ch
def NVal.allDefinedList {V : Type} : List (NVal V) → Bool
  | [] => true
  | c :: cs => c.allDefined && NVal.allDefinedList cs
end


end Bartiq
