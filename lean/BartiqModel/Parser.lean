/-
  BartiqModel.Parser — model of `symbolics/ast_parser.py` + `sympy_interpreter.py`:
  a lexer (replacing the five regex preprocessing stages and Python's tokenizer), a recursive-descent
  parser for the subset of the Python expression grammar that `_NodeConverter` accepts, producing a
  surface tree, and `interp`, which applies the operator / built-in tables (given as parameters; the
  checks instantiate them with `Generated.*`, regenerated from the source on every run).
-/
import BartiqModel.Basic
namespace Bartiq

inductive Tok where
  | num (q : Rat)
  | name (s : String)
  | plus | minus | star | slash | dslash | percent | pow
  | lp | rp | comma
deriving DecidableEq, Repr, Inhabited

/-- surface syntax tree: operators are still spelled as in the source (`^` is normalised to `**` by the
    lexer, as the real preprocessing does textually) -/
inductive SExpr where
  | num (q : Rat)
  | name (s : String)
  | neg (a : SExpr)
  | pos (a : SExpr)
  | bin (op : String) (a b : SExpr)
  | call (f : String) (args : List SExpr)
deriving Repr, Inhabited

/-! ### lexer -/
namespace Lex

def isDigit (c : Char) : Bool := '0' ≤ c && c ≤ '9'
def isIdStart (c : Char) : Bool := ('a' ≤ c && c ≤ 'z') || ('A' ≤ c && c ≤ 'Z') || c == '_'
def isIdChar (c : Char) : Bool := isIdStart c || isDigit c
/-- characters of a (namespaced / port) identifier: `a.b.#out_0` is ONE token -/
def isNameChar (c : Char) : Bool := isIdChar c || c == '.' || c == '#'
def isNameStart (c : Char) : Bool := isIdStart c || c == '#'

def digitVal (c : Char) : Nat := c.toNat - '0'.toNat

def takeWhile (p : Char → Bool) : List Char → List Char × List Char
  | [] => ([], [])
  | c :: cs => if p c then let (a, b) := takeWhile p cs; (c :: a, b) else ([], c :: cs)

theorem takeWhile_length (p : Char → Bool) (cs : List Char) : (takeWhile p cs).2.length ≤ cs.length := by
  induction cs with
  | nil => simp [takeWhile]
  | cons c cs ih => simp only [takeWhile]; split <;> simp <;> omega

def natOfDigits (ds : List Char) : Nat := ds.foldl (fun n c => 10 * n + digitVal c) 0

/-- a numeric literal `123`, `1.5`, `2e3`, `1.5e-3`, exactly as a rational -/
def number (cs : List Char) : Option (Rat × List Char) :=
  let (ip, r1) := takeWhile isDigit cs
  let (fp, r2) := match r1 with
    | '.' :: r => takeWhile isDigit r
    | _ => ([], r1)
  if ip.isEmpty && fp.isEmpty then none else
  let mant : Rat := (natOfDigits (ip ++ fp) : Rat) / ((10 : Rat) ^ fp.length)
  match r2 with
  | e :: r =>
    if e == 'e' || e == 'E' then
      let (sgn, r') := match r with
        | '-' :: r' => (true, r')
        | '+' :: r' => (false, r')
        | _ => (false, r)
      let (ed, r3) := takeWhile isDigit r'
      if ed.isEmpty then some (mant, r2)
      else
        let ex := natOfDigits ed
        some (if sgn then mant / ((10 : Rat) ^ ex) else mant * ((10 : Rat) ^ ex), r3)
    else some (mant, r2)
  | [] => some (mant, r2)

def lexAux : Nat → List Char → Option (List Tok)
  | 0, [] => some []
  | 0, _ => none
  | _, [] => some []
  | fuel + 1, c :: cs =>
    if c == ' ' || c == '\t' || c == '\n' then lexAux fuel cs
    else if c == '(' then (lexAux fuel cs).map (Tok.lp :: ·)
    else if c == ')' then (lexAux fuel cs).map (Tok.rp :: ·)
    else if c == ',' then (lexAux fuel cs).map (Tok.comma :: ·)
    else if c == '+' then (lexAux fuel cs).map (Tok.plus :: ·)
    else if c == '-' then (lexAux fuel cs).map (Tok.minus :: ·)
    else if c == '%' then (lexAux fuel cs).map (Tok.percent :: ·)
    else if c == '^' then (lexAux fuel cs).map (Tok.pow :: ·)
    else if c == '*' then
      match cs with
      | '*' :: cs' => (lexAux fuel cs').map (Tok.pow :: ·)
      | _ => (lexAux fuel cs).map (Tok.star :: ·)
    else if c == '/' then
      match cs with
      | '/' :: cs' => (lexAux fuel cs').map (Tok.dslash :: ·)
      | _ => (lexAux fuel cs).map (Tok.slash :: ·)
    else if isDigit c || (c == '.' && (match cs with | d :: _ => isDigit d | [] => false)) then
      match number (c :: cs) with
      | some (q, rest) => (lexAux fuel rest).map (Tok.num q :: ·)
      | none => none
    else if isNameStart c then
      let (nm, rest) := takeWhile isNameChar (c :: cs)
      (lexAux fuel rest).map (Tok.name (String.ofList nm) :: ·)
    else none

def lex (s : String) : Option (List Tok) := lexAux (s.length + 1) s.toList

end Lex

/-! ### parser (fuelled recursive descent) -/

mutual
def pExpr : Nat → List Tok → Option (SExpr × List Tok)
  | 0, _ => none
  | f + 1, ts => match pTerm f ts with
    | some (a, r) => pExprTail f a r
    | none => none
def pExprTail : Nat → SExpr → List Tok → Option (SExpr × List Tok)
  | 0, _, _ => none
  | f + 1, acc, .plus :: r => match pTerm f r with
    | some (b, r') => pExprTail f (.bin "+" acc b) r'
    | none => none
  | f + 1, acc, .minus :: r => match pTerm f r with
    | some (b, r') => pExprTail f (.bin "-" acc b) r'
    | none => none
  | _ + 1, acc, ts => some (acc, ts)
def pTerm : Nat → List Tok → Option (SExpr × List Tok)
  | 0, _ => none
  | f + 1, ts => match pFactor f ts with
    | some (a, r) => pTermTail f a r
    | none => none
def pTermTail : Nat → SExpr → List Tok → Option (SExpr × List Tok)
  | 0, _, _ => none
  | f + 1, acc, .star :: r => match pFactor f r with
    | some (b, r') => pTermTail f (.bin "*" acc b) r'
    | none => none
  | f + 1, acc, .slash :: r => match pFactor f r with
    | some (b, r') => pTermTail f (.bin "/" acc b) r'
    | none => none
  | f + 1, acc, .dslash :: r => match pFactor f r with
    | some (b, r') => pTermTail f (.bin "//" acc b) r'
    | none => none
  | f + 1, acc, .percent :: r => match pFactor f r with
    | some (b, r') => pTermTail f (.bin "%" acc b) r'
    | none => none
  | _ + 1, acc, ts => some (acc, ts)
def pFactor : Nat → List Tok → Option (SExpr × List Tok)
  | 0, _ => none
  | f + 1, .minus :: r => match pFactor f r with
    | some (a, r') => some (.neg a, r')
    | none => none
  | f + 1, .plus :: r => match pFactor f r with
    | some (a, r') => some (.pos a, r')
    | none => none
  | f + 1, ts => pPower f ts
def pPower : Nat → List Tok → Option (SExpr × List Tok)
  | 0, _ => none
  | f + 1, ts => match pAtom f ts with
    | some (a, .pow :: r) => match pFactor f r with
      | some (b, r') => some (.bin "**" a b, r')
      | none => none
    | some (a, r) => some (a, r)
    | none => none
def pAtom : Nat → List Tok → Option (SExpr × List Tok)
  | 0, _ => none
  | _ + 1, .num q :: r => some (.num q, r)
  | f + 1, .name s :: .lp :: r => match pArgs f r with
    | some (args, r') => some (.call s args, r')
    | none => none
  | _ + 1, .name s :: r => some (.name s, r)
  | f + 1, .lp :: r => match pExpr f r with
    | some (e, .rp :: r') => some (e, r')
    | _ => none
  | _ + 1, _ => none
def pArgs : Nat → List Tok → Option (List SExpr × List Tok)
  | 0, _ => none
  | _ + 1, .rp :: r => some ([], r)
  | f + 1, ts => match pExpr f ts with
    | some (e, r) => pArgsTail f [e] r
    | none => none
def pArgsTail : Nat → List SExpr → List Tok → Option (List SExpr × List Tok)
  | 0, _, _ => none
  | f + 1, acc, .comma :: r => match pExpr f r with
    | some (e, r') => pArgsTail f (acc ++ [e]) r'
    | none => none
  | _ + 1, acc, .rp :: r => some (acc, r)
  | _ + 1, _, _ => none
end

def parseToks (ts : List Tok) : Option SExpr :=
  match pExpr (6 * ts.length + 10) ts with
  | some (e, []) => some e
  | _ => none

def parseStr (s : String) : Option SExpr := (Lex.lex s).bind parseToks

/-! ### interp: surface tree → `Expr`, through the tables -/

structure Tables where
  binOps : List (String × Option BinOp)
  unaryOps : List (String × String)
  builtins : List String
  specialParams : List String

def lookupOp (T : Tables) (op : String) : Option BinOp :=
  match T.binOps.find? (·.1 = op) with
  | some (_, some o) => some o
  | _ => none

def isBuiltin (T : Tables) (f : String) : Bool := T.builtins.contains f.toLower

mutual
def interp (T : Tables) : SExpr → Option Expr
  | .num q => some (.num q)
  | .name s => some (.sym s)
  | .neg a => match T.unaryOps.find? (·.1 = "-") with
    | some (_, "neg") => (interp T a).map .neg
    | some (_, "pos") => interp T a
    | _ => none
  | .pos a => match T.unaryOps.find? (·.1 = "+") with
    | some (_, "pos") => interp T a
    | some (_, "neg") => (interp T a).map .neg
    | _ => none
  | .bin op a b => match lookupOp T op, interp T a, interp T b with
    | some o, some x, some y => some (.bin o x y)
    | _, _, _ => none
  | .call f args => match interpList T args with
    | some xs =>
      -- built-ins are looked up by their lower-cased name; anything else stays uninterpreted as written
      if isBuiltin T f then
        (match f.toLower, xs with
         | "sum_over", [body, .sym i, lo, hi] => some (.big .sum body i lo hi)
         | "prod_over", [body, .sym i, lo, hi] => some (.big .prod body i lo hi)
         | g, xs => some (.app g xs))
      else some (.app f xs)
    | none => none
def interpList (T : Tables) : List SExpr → Option (List Expr)
  | [] => some []
  | a :: as => match interp T a, interpList T as with
    | some x, some xs => some (x :: xs)
    | _, _ => none
end

def parseExpr (T : Tables) (s : String) : Option Expr := (parseStr s).bind (interp T)

end Bartiq
