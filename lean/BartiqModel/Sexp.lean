/-
  BartiqModel.Sexp — s-expressions: the wire format of the line protocol between the Python
  harness and the model driver.  Not mentioned by any theorem.
-/
import BartiqModel.Basic
namespace Bartiq

inductive Sexp where
  | atom (s : String)
  | list (l : List Sexp)
deriving Repr, Inhabited

namespace Sexp

def tokenize (s : String) : List String :=
  let step := fun (acc : List String × String) (c : Char) =>
    let (toks, cur) := acc
    if c == '(' || c == ')' then
      ((if cur.isEmpty then toks else cur :: toks) |> (String.singleton c :: ·), "")
    else if c == ' ' || c == '\n' || c == '\t' || c == '\r' then
      ((if cur.isEmpty then toks else cur :: toks), "")
    else (toks, cur.push c)
  let (toks, cur) := s.foldl step ([], "")
  (if cur.isEmpty then toks else cur :: toks).reverse

/-- parse one s-expression from a token list, fuelled by the number of tokens -/
def parseAux : Nat → List String → Option (Sexp × List String)
  | 0, _ => none
  | _, [] => none
  | fuel + 1, tok :: rest =>
    if tok == "(" then
      let rec items (f : Nat) (ts : List String) (acc : List Sexp) : Option (Sexp × List String) :=
        match f, ts with
        | 0, _ => none
        | _, [] => none
        | f + 1, t :: ts' =>
          if t == ")" then some (.list acc.reverse, ts')
          else match parseAux fuel (t :: ts') with
            | some (x, ts'') => items f ts'' (x :: acc)
            | none => none
      items (fuel + 1) rest []
    else if tok == ")" then none
    else some (.atom tok, rest)

def parse (s : String) : Option Sexp :=
  let toks := tokenize s
  match parseAux (toks.length + 1) toks with
  | some (x, []) => some x
  | _ => none

/-- parse a whole line holding several top-level s-expressions -/
def parseMany (s : String) : Option (List Sexp) :=
  let toks := tokenize s
  let rec go (f : Nat) (ts : List String) (acc : List Sexp) : Option (List Sexp) :=
    match f, ts with
    | _, [] => some acc.reverse
    | 0, _ => none
    | f + 1, ts => match parseAux (ts.length + 1) ts with
      | some (x, ts') => go f ts' (x :: acc)
      | none => none
  go (toks.length + 1) toks []

partial def toString : Sexp → String
  | atom s => s
  | list l => "(" ++ " ".intercalate (l.map toString) ++ ")"

instance : ToString Sexp := ⟨Sexp.toString⟩

def a (s : String) : Sexp := .atom s
def l (xs : List Sexp) : Sexp := .list xs

end Sexp

open Sexp in
def BinOp.name : BinOp → String
  | .add => "add" | .sub => "sub" | .mul => "mul" | .div => "div" | .pow => "pow" | .fdiv => "fdiv" | .mod => "mod"

def BinOp.ofName : String → Option BinOp
  | "add" => some .add | "sub" => some .sub | "mul" => some .mul | "div" => some .div
  | "pow" => some .pow | "fdiv" => some .fdiv | "mod" => some .mod | _ => none

namespace Expr
open Sexp

mutual
def toSexp : Expr → Sexp
  | num q => l [a "n", a (toString q.num), a (toString q.den)]
  | sym s => l [a "s", a s]
  | neg e => l [a "neg", toSexp e]
  | bin op x y => l [a op.name, toSexp x, toSexp y]
  | app f args => l (a "app" :: a f :: toSexpList args)
  | big k body i lo hi => l [a "big", a (match k with | .sum => "sum" | .prod => "prod"), toSexp body, a i, toSexp lo, toSexp hi]
def toSexpList : List Expr → List Sexp
  | [] => []
  | e :: es => toSexp e :: toSexpList es
end

mutual
def ofSexp : Sexp → Option Expr
  | .list [.atom "n", .atom p, .atom q] => do
      let p ← p.toInt?; let q ← q.toNat?
      if q = 0 then none else some (num (mkRat p q))
  | .list [.atom "s", .atom s] => some (sym s)
  | .list [.atom "neg", x] => (ofSexp x).map neg
  | .list [.atom "big", .atom k, body, .atom i, lo, hi] => do
      let k ← (match k with | "sum" => some BigKind.sum | "prod" => some BigKind.prod | _ => none)
      let b ← ofSexp body; let lo ← ofSexp lo; let hi ← ofSexp hi
      some (big k b i lo hi)
  | .list (.atom "app" :: .atom f :: args) => (ofSexpList args).map (app f)
  | .list [.atom op, x, y] => do
      let op ← BinOp.ofName op; let x ← ofSexp x; let y ← ofSexp y
      some (bin op x y)
  | _ => none
def ofSexpList : List Sexp → Option (List Expr)
  | [] => some []
  | x :: xs => do let e ← ofSexp x; let es ← ofSexpList xs; some (e :: es)
end

end Expr
end Bartiq
