/-
  BartiqModel.Graph — model of `graphlib.TopologicalSorter(graph).static_order()` for a graph
  given as an insertion-ordered dict  node ↦ list of predecessors.
-/
import BartiqModel.Basic
namespace Bartiq
namespace Graph

abbrev G := List (String × List String)

def addNode (ns : List String) (n : String) : List String := if ns.contains n then ns else ns ++ [n]

/-- `_node2info` insertion order: each key, then its not-yet-seen predecessors -/
def nodes (g : G) : List String :=
  g.foldl (fun acc kv => kv.2.foldl addNode (addNode acc kv.1)) []

/-- number of predecessor registrations of `n` (graphlib counts one per `add` argument) -/
def npred (g : G) (n : String) : Nat :=
  (g.filter (·.1 = n)).foldl (fun acc kv => acc + kv.2.length) 0

/-- successors of `p` in registration order -/
def succs (g : G) (p : String) : List String :=
  g.flatMap (fun kv => (kv.2.filter (· = p)).map (fun _ => kv.1))

/-- one round of `done(*group)`: decrement counters, collect the newly ready nodes in order -/
def doneGroup (g : G) (cnt : Dict Nat) (group : List String) : Dict Nat × List String :=
  group.foldl (fun (st : Dict Nat × List String) n =>
    (succs g n).foldl (fun (st : Dict Nat × List String) s =>
      let c := (st.1.get? s).getD 0 - 1
      (st.1.set s c, if c = 0 then st.2 ++ [s] else st.2)) st) (cnt, [])

def loop (g : G) : Nat → Dict Nat → List String → List String → List String
  | 0, _, _, acc => acc
  | fuel + 1, cnt, ready, acc =>
    if ready.isEmpty then acc
    else
      let (cnt', next) := doneGroup g cnt ready
      loop g fuel cnt' next (acc ++ ready)

/-- `static_order()`; `none` models `CycleError` -/
def staticOrder (g : G) : Option (List String) :=
  let ns := nodes g
  let cnt : Dict Nat := ns.map (fun n => (n, npred g n))
  let ready := ns.filter (fun n => npred g n = 0)
  let out := loop g (ns.length + 1) cnt ready []
  if out.length = ns.length then some out else none

end Graph
end Bartiq
