/-
  BartiqModel.Verify — `qref.verification.verify_topology` (external, hand model) and
  `bartiq.verification.verify_uncompiled_repetitions`.
-/
import BartiqModel.Routine
import BartiqModel.Graph
namespace Bartiq

def Endpoint.str (e : Endpoint) : String :=
  match e.routine with | none => e.port | some r => r ++ "." ++ e.port

/-- `_graph_from_routine` (names are used unprefixed: the prefix is the same for all nodes) -/
def topoGraph (r : Routine) : Graph.G :=
  let addEdge (g : Graph.G) (node pred : String) : Graph.G := Dict.set g node ((Dict.get? g node).getD [] ++ [pred])
  let g := r.conns.foldl (fun g c => addEdge g c.2.str c.1.str) []
  r.children.foldl (fun g ch =>
    let ins := (ch.ports.filter (·.dir = .input)).map (fun p => ch.name ++ "." ++ p.name)
    let outs := (ch.ports.filter (·.dir = .output)).map (fun p => ch.name ++ "." ++ p.name)
    let g := ins.foldl (fun g i => addEdge g ch.name i) g
    outs.foldl (fun g o => addEdge g o ch.name) g) g

def hasCycleHere (r : Routine) : Bool := (Graph.staticOrder (topoGraph r)).isNone

def count (l : List String) (s : String) : Nat := (l.filter (· = s)).length

/-- `_find_disconnected_ports`: list of problems at this node (only emptiness matters) -/
def disconnectedHere (r : Routine) : List String :=
  let sources := r.conns.map (·.1.str)
  let targets := r.conns.map (·.2.str)
  let multiS := sources.eraseDups.filter (fun s => count sources s > 1)
  let multiT := targets.eraseDups.filter (fun s => count targets s > 1)
  let hasCh := !r.children.isEmpty
  let reqOutSelf := if hasCh then (r.ports.filter (·.dir = .input)).map (·.name) else []
  let reqInSelf := if hasCh then (r.ports.filter (·.dir = .output)).map (·.name) else []
  let thru := (r.ports.filter (·.dir = .through)).map (·.name)
  let reqIn := reqInSelf ++ r.children.flatMap fun ch =>
    (ch.ports.filter (·.dir ≠ .output)).map (fun p => ch.name ++ "." ++ p.name)
  let reqOut := reqOutSelf ++ r.children.flatMap fun ch =>
    (ch.ports.filter (·.dir ≠ .input)).map (fun p => ch.name ++ "." ++ p.name)
  (if multiS.isEmpty then [] else ["too many outgoing"]) ++
  (if multiT.isEmpty then [] else ["too many incoming"]) ++
  (reqOut.filter (fun p => !sources.contains p)).map (fun p => "no outgoing " ++ p) ++
  (reqIn.filter (fun p => !targets.contains p)).map (fun p => "no incoming " ++ p) ++
  (thru.filter (fun p => sources.contains p || targets.contains p)).map (fun p => "through wired " ++ p)

def repetitionProblemsHere (r : Routine) : List String :=
  match r.rep with
  | none => []
  | some _ =>
    (if r.children.length = 0 then ["no children"] else if r.children.length > 1 then ["more than one child"] else []) ++
    (if r.resources.length ≠ 0 then ["has resources"] else [])

mutual
def topologyProblems : Routine → List String
  | r@⟨_, _, _, _, _, _, _, _, _, _, ch, _⟩ =>
    (if hasCycleHere r then ["cycle"] else []) ++ disconnectedHere r ++ topologyProblemsList ch
def topologyProblemsList : List Routine → List String
  | [] => []
  | c :: cs => topologyProblems c ++ topologyProblemsList cs
end

mutual
def repetitionProblems : Routine → List String
  | r@⟨_, _, _, _, _, _, _, _, _, _, ch, _⟩ => repetitionProblemsHere r ++ repetitionProblemsList ch
def repetitionProblemsList : List Routine → List String
  | [] => []
  | c :: cs => repetitionProblems c ++ repetitionProblemsList cs
end

def verify (r : Routine) : Except Err Unit :=
  let problems := topologyProblems r ++ repetitionProblems r
  if problems.isEmpty then pure ()
  else throw (.compilation ("Found the following issues with the provided routine before the compilation started: " ++ toString problems))

end Bartiq
