/-
  BartiqModel.Analysis — `analysis.py`: the leading-term filter of `BigO` and the gradient-descent loop
  (generic in the arithmetic, so that it can be run over `Float` and reasoned about over an ordered field).
-/
import BartiqModel.Basic
namespace Bartiq

/-! ### BigO: `_get_leading_terms` on exponent vectors (as returned by `Poly.terms()`) -/

/-- `_less_than(term_1, term_2)`: componentwise ≤ (over the zip) -/
def termLe : List Nat → List Nat → Bool
  | a :: as, b :: bs => a ≤ b && termLe as bs
  | _, _ => true

/-- `_term_less_than_or_equal_to_all_others` -/
def leAllOthers (cand : List Nat) (others : List (List Nat)) : Bool :=
  !others.isEmpty && others.all (termLe cand)

/-- `_get_leading_terms`: keep a term unless it is ≤ every term kept so far -/
def leadingTerms (terms : List (List Nat)) : List (List Nat) :=
  terms.foldl (fun kept t => if leAllOthers t kept then kept else kept ++ [t]) []

/-! ### gradient descent -/

/-- the arithmetic the loop needs -/
structure Arith (R : Type) where
  add : R → R → R
  sub : R → R → R
  mul : R → R → R
  div : R → R → R
  le : R → R → Bool
  lt : R → R → Bool
  eq : R → R → Bool
  abs : R → R
  two : R
  zero : R

/-- Python's `max(a, b)` / `min(a, b)` (first argument wins ties and unordered comparisons) -/
def Arith.pmax {R} (A : Arith R) (a b : R) : R := if A.lt a b then b else a
def Arith.pmin {R} (A : Arith R) (a b : R) : R := if A.lt b a then b else a

structure GDParams (R : Type) where
  x0 : R
  bounds : Option (R × R)
  learningRate : R
  maxIter : Nat
  tolerance : R
  momentum : R
  epsilon : R

structure GDResult (R : Type) where
  optimal : R
  minimumCost : R
  history : List R        -- oldest first

inductive GDOutcome (R : Type) where
  | ok (r : GDResult R)
  | valueError
  | runtimeError

structure GDState (R : Type) where
  cur : R
  vel : R
  hist : List R           -- newest first

/-- one iteration of the `for` loop; `some` = `break` with the final state, `none` = continue -/
def gdStep {R} (A : Arith R) (f : R → R) (p : GDParams R) (s : GDState R) : GDState R × Bool :=
  let g := A.div (A.sub (f (A.add s.cur p.epsilon)) (f (A.sub s.cur p.epsilon))) (A.mul A.two p.epsilon)
  let vel := A.sub (A.mul p.momentum s.vel) (A.mul p.learningRate g)
  let nxt := A.add s.cur vel
  match p.bounds with
  | some (lo, hi) =>
    let nxt := A.pmax (A.pmin nxt hi) lo
    if A.eq nxt lo || A.eq nxt hi then ({ cur := nxt, vel := vel, hist := nxt :: s.hist }, true)
    else if A.lt (A.abs g) p.tolerance then ({ s with vel := vel }, true)
    else ({ cur := nxt, vel := vel, hist := nxt :: s.hist }, false)
  | none =>
    if A.lt (A.abs g) p.tolerance then ({ s with vel := vel }, true)
    else ({ cur := nxt, vel := vel, hist := nxt :: s.hist }, false)

def gdLoop {R} (A : Arith R) (f : R → R) (p : GDParams R) : Nat → GDState R → Option (GDState R)
  | 0, _ => none                      -- `for … else: raise RuntimeError`
  | n + 1, s =>
    let (s', brk) := gdStep A f p s
    if brk then some s' else gdLoop A f p n s'

/-- `bounds and not (bounds[0] <= x0 <= bounds[1])`, negated -/
def gdStartOk {R} (A : Arith R) (p : GDParams R) : Bool :=
  match p.bounds with
  | some (lo, hi) => A.le lo p.x0 && A.le p.x0 hi
  | none => true

/-- `Optimizer.gradient_descent` (with `x0` given) -/
def gradDescent {R} (A : Arith R) (f : R → R) (p : GDParams R) : GDOutcome R :=
  if !gdStartOk A p then .valueError
  else match gdLoop A f p p.maxIter { cur := p.x0, vel := A.zero, hist := [p.x0] } with
    | some s => .ok { optimal := s.cur, minimumCost := f s.cur, history := s.hist.reverse }
    | none => .runtimeError

def Arith.float : Arith Float where
  add := (· + ·)
  sub := (· - ·)
  mul := (· * ·)
  div := (· / ·)
  le := fun a b => a ≤ b
  lt := fun a b => a < b
  eq := fun a b => a == b
  abs := Float.abs
  two := 2.0
  zero := 0.0

end Bartiq
