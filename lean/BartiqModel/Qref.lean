/-
  BartiqModel.Qref — QREF export / import (`Routine.to_qref`, `Routine.from_qref`, `repetition_to_qref`, …) at the level of
  structure: every expression field is written with a printer `pr` and read back with a parser `ps` (the subject of C11/C12);
  everything else — names, types, directions, connections, link targets, the kind of sequence, which optional fields are
  present — is copied.  (The textual encoding of endpoints `child.port` and link targets `path.param` is external string
  handling, exercised by the oracle.)
-/
import BartiqModel.Routine
namespace Bartiq

structure Codec where
  pr : Expr → String
  ps : String → Option Expr

structure QPort where
  name : String
  dir : Dir
  size : String
deriving Repr

structure QResource where
  name : String
  ty : ResTy
  value : String
deriving Repr

inductive QSeq where
  | constant (m : String)
  | arithmetic (i d : String)
  | geometric (r : String)
  | closedForm (sum prod : Option String) (n : String)
  | custom (t i : String)
deriving Repr

structure QRep where
  count : String
  seq : QSeq
deriving Repr

/-- the exported document of an uncompiled routine -/
structure QRoutine where
  name : String
  type : Option String
  inputParams : List String
  localVars : List (String × String)
  linked : List (String × List (String × String))
  ports : List QPort
  resources : List QResource
  conns : List (Endpoint × Endpoint)
  rep : Option QRep
  children : List QRoutine
deriving Repr

def Seq.toQ (c : Codec) : Seq → QSeq
  | .constant m => .constant (c.pr m)
  | .arithmetic i d => .arithmetic (c.pr i) (c.pr d)
  | .geometric r => .geometric (c.pr r)
  | .closedForm s p n => .closedForm (s.map c.pr) (p.map c.pr) (c.pr n)     -- absent stays absent (after the fix)
  | .custom t i => .custom (c.pr t) (c.pr i)

def optParse (c : Codec) : Option String → Option (Option Expr)
  | none => some none
  | some s => (c.ps s).map some

def QSeq.fromQ (c : Codec) : QSeq → Option Seq
  | .constant m => (c.ps m).map .constant
  | .arithmetic i d => do some (.arithmetic (← c.ps i) (← c.ps d))
  | .geometric r => (c.ps r).map .geometric
  | .closedForm s p n => do some (.closedForm (← optParse c s) (← optParse c p) (← c.ps n))
  | .custom t i => do some (.custom (← c.ps t) (← c.ps i))

mutual
def Routine.toQ (c : Codec) : Routine → QRoutine
  | ⟨n, ty, ips, lvs, lks, ps, rs, cs, rep, _, ch, _⟩ =>
    { name := n, type := ty, inputParams := ips,
      localVars := lvs.map fun kv => (kv.1, c.pr kv.2),
      linked := lks,
      ports := ps.map fun p => ⟨p.name, p.dir, c.pr p.size⟩,
      resources := rs.map fun r => ⟨r.name, r.ty, c.pr r.value⟩,
      conns := cs,
      rep := rep.map fun rp => ⟨c.pr rp.count, rp.seq.toQ c⟩,
      children := Routine.toQList c ch }
def Routine.toQList (c : Codec) : List Routine → List QRoutine
  | [] => []
  | r :: rs => r.toQ c :: Routine.toQList c rs
end

mutual
def QRoutine.fromQ (c : Codec) : QRoutine → Option Routine
  | ⟨n, ty, ips, lvs, lks, ps, rs, cs, rep, ch⟩ => do
    let lvs' ← lvs.mapM fun kv => (c.ps kv.2).map fun e => (kv.1, e)
    let ps' ← ps.mapM fun p => (c.ps p.size).map fun e => (⟨p.name, p.dir, e⟩ : Port)
    let rs' ← rs.mapM fun r => (c.ps r.value).map fun e => (⟨r.name, r.ty, e⟩ : Resource)
    let rep' ← (match rep with
      | none => some none
      | some rp => do
        let cnt ← c.ps rp.count
        let sq ← rp.seq.fromQ c
        some (some ⟨cnt, sq⟩) : Option (Option Repetition))
    let ch' ← QRoutine.fromQList c ch
    some { name := n, type := ty, inputParams := ips, localVars := lvs', linked := lks, ports := ps', resources := rs',
           conns := cs, rep := rep', constraints := [], children := ch', childrenOrder := ch'.map (·.name) }
def QRoutine.fromQList (c : Codec) : List QRoutine → Option (List Routine)
  | [] => some []
  | q :: qs => do
    let r ← q.fromQ c
    let rs ← QRoutine.fromQList c qs
    some (r :: rs)
end

/-- apply a function to every expression of a routine (structure untouched, constraints dropped as the export does) -/
def Seq.mapExpr (f : Expr → Expr) : Seq → Seq
  | .constant m => .constant (f m)
  | .arithmetic i d => .arithmetic (f i) (f d)
  | .geometric r => .geometric (f r)
  | .closedForm s p n => .closedForm (s.map f) (p.map f) (f n)
  | .custom t i => .custom (f t) (f i)

mutual
def Routine.reread (f : Expr → Expr) : Routine → Routine
  | ⟨n, ty, ips, lvs, lks, ps, rs, cs, rep, _, ch, _⟩ =>
    { name := n, type := ty, inputParams := ips, localVars := lvs.map fun kv => (kv.1, f kv.2), linked := lks,
      ports := ps.map fun p => { p with size := f p.size }, resources := rs.map fun r => { r with value := f r.value },
      conns := cs, rep := rep.map fun rp => ⟨f rp.count, rp.seq.mapExpr f⟩, constraints := [],
      children := Routine.rereadList f ch, childrenOrder := (Routine.rereadList f ch).map (·.name) }
def Routine.rereadList (f : Expr → Expr) : List Routine → List Routine
  | [] => []
  | r :: rs => r.reread f :: Routine.rereadList f rs
end

end Bartiq
