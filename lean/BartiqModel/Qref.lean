/-
  BartiqModel.Qref — QREF export / import (`Routine.to_qref`, `Routine.from_qref`, `repetition_to_qref`, …) at the level of
  structure: every expression field is written with a printer `pr` and read back with a parser `ps` (the subject of C11/C12);
  everything else — names, types, directions, connections, link targets, the kind of sequence, which optional fields are
  present — is copied, except endpoints and link targets, which the document holds as strings: `child.port` / `port`
  (`_endpoint_to_qref`, `_endpoint_from_qref`: split at every dot) and `path.param` (`_linked_params_to_qref`, and
  `target.rsplit(".", 1)` on import: split at the LAST dot, the path itself may contain dots).
-/
import BartiqModel.Routine
namespace Bartiq

structure Codec where
  pr : Expr → String
  ps : String → Option Expr

/-! ### the string encodings -/

/-- split at the first occurrence of `c` -/
def splitAtFirst (c : Char) : List Char → Option (List Char × List Char)
  | [] => none
  | x :: xs => if x = c then some ([], xs) else (splitAtFirst c xs).map fun p => (x :: p.1, p.2)

/-- split at the last occurrence of `c` (`str.rsplit(c, 1)`) -/
def splitAtLast (c : Char) (l : List Char) : Option (List Char × List Char) :=
  (splitAtFirst c l.reverse).map fun p => (p.2.reverse, p.1.reverse)

/-- `_endpoint_to_qref` -/
def Endpoint.toStr (e : Endpoint) : String :=
  match e.routine with
  | none => e.port
  | some r => r ++ "." ++ e.port

/-- `_endpoint_from_qref`: `Endpoint(*s.split("."))` when there is a dot — more than one dot is a `TypeError` there, `none` here -/
def Endpoint.ofStr (s : String) : Option Endpoint :=
  match splitAtFirst '.' s.toList with
  | none => some ⟨none, s⟩
  | some (a, b) => if '.' ∈ b then none else some ⟨some (String.ofList a), String.ofList b⟩

/-- `f"{target[0]}.{target[1]}"` -/
def targetToStr (t : String × String) : String := t.1 ++ "." ++ t.2

/-- `(split := target.rsplit(".", 1))[0], split[1]` — without any dot an `IndexError` there, `none` here -/
def targetOfStr (s : String) : Option (String × String) :=
  (splitAtLast '.' s.toList).map fun p => (String.ofList p.1, String.ofList p.2)

structure QPort where
  name : String
  dir : Dir
  size : String
deriving Repr

structure QResource where
  name : String
  ty : ResTy
  value : String
deriving Repr

inductive QSeq where
  | constant (m : String)
  | arithmetic (i d : String)
  | geometric (r : String)
  | closedForm (sum prod : Option String) (n : String)
  | custom (t i : String)
deriving Repr

structure QRep where
  count : String
  seq : QSeq
deriving Repr

/-- the exported document of an uncompiled routine -/
structure QRoutine where
  name : String
  type : Option String
  inputParams : List String
  localVars : List (String × String)
  linked : List (String × List String)
  ports : List QPort
  resources : List QResource
  conns : List (String × String)
  rep : Option QRep
  children : List QRoutine
deriving Repr

def Seq.toQ (c : Codec) : Seq → QSeq
  | .constant m => .constant (c.pr m)
  | .arithmetic i d => .arithmetic (c.pr i) (c.pr d)
  | .geometric r => .geometric (c.pr r)
  | .closedForm s p n => .closedForm (s.map c.pr) (p.map c.pr) (c.pr n)     -- absent stays absent (after the fix)
  | .custom t i => .custom (c.pr t) (c.pr i)

def optParse (c : Codec) : Option String → Option (Option Expr)
  | none => some none
  | some s => (c.ps s).map some

def QSeq.fromQ (c : Codec) : QSeq → Option Seq
  | .constant m => (c.ps m).map .constant
  | .arithmetic i d => do some (.arithmetic (← c.ps i) (← c.ps d))
  | .geometric r => (c.ps r).map .geometric
  | .closedForm s p n => do some (.closedForm (← optParse c s) (← optParse c p) (← c.ps n))
  | .custom t i => do some (.custom (← c.ps t) (← c.ps i))

mutual
def Routine.toQ (c : Codec) : Routine → QRoutine
  | ⟨n, ty, ips, lvs, lks, ps, rs, cs, rep, _, ch, _⟩ =>
    { name := n, type := ty, inputParams := ips,
      localVars := lvs.map fun kv => (kv.1, c.pr kv.2),
      linked := lks.map fun lk => (lk.1, lk.2.map targetToStr),
      ports := ps.map fun p => ⟨p.name, p.dir, c.pr p.size⟩,
      resources := rs.map fun r => ⟨r.name, r.ty, c.pr r.value⟩,
      conns := cs.map fun cn => (cn.1.toStr, cn.2.toStr),
      rep := rep.map fun rp => ⟨c.pr rp.count, rp.seq.toQ c⟩,
      children := Routine.toQList c ch }
def Routine.toQList (c : Codec) : List Routine → List QRoutine
  | [] => []
  | r :: rs => r.toQ c :: Routine.toQList c rs
end

mutual
def QRoutine.fromQ (c : Codec) : QRoutine → Option Routine
  | ⟨n, ty, ips, lvs, lks, ps, rs, cs, rep, ch⟩ => do
    let lvs' ← lvs.mapM fun kv => (c.ps kv.2).map fun e => (kv.1, e)
    let ps' ← ps.mapM fun p => (c.ps p.size).map fun e => (⟨p.name, p.dir, e⟩ : Port)
    let rs' ← rs.mapM fun r => (c.ps r.value).map fun e => (⟨r.name, r.ty, e⟩ : Resource)
    let lks' ← lks.mapM fun lk => (lk.2.mapM targetOfStr).map fun ts => (lk.1, ts)
    let cs' ← cs.mapM fun cn => do some ((← Endpoint.ofStr cn.1), (← Endpoint.ofStr cn.2))
    let rep' ← (match rep with
      | none => some none
      | some rp => do
        let cnt ← c.ps rp.count
        let sq ← rp.seq.fromQ c
        some (some ⟨cnt, sq⟩) : Option (Option Repetition))
    let ch' ← QRoutine.fromQList c ch
    some { name := n, type := ty, inputParams := ips, localVars := lvs', linked := mergeLinks lks', ports := ps', resources := rs',
           conns := cs', rep := rep', constraints := [], children := ch', childrenOrder := ch'.map (·.name) }
def QRoutine.fromQList (c : Codec) : List QRoutine → Option (List Routine)
  | [] => some []
  | q :: qs => do
    let r ← q.fromQ c
    let rs ← QRoutine.fromQList c qs
    some (r :: rs)
end

/-! apply a function to every expression of a routine (structure untouched, constraints dropped as the export does);
    `Seq.mapExpr` lives in BartiqModel/Routine.lean -/

mutual
def Routine.reread (f : Expr → Expr) : Routine → Routine
  | ⟨n, ty, ips, lvs, lks, ps, rs, cs, rep, _, ch, _⟩ =>
    { name := n, type := ty, inputParams := ips, localVars := lvs.map fun kv => (kv.1, f kv.2), linked := lks,
      ports := ps.map fun p => { p with size := f p.size }, resources := rs.map fun r => { r with value := f r.value },
      conns := cs, rep := rep.map fun rp => ⟨f rp.count, rp.seq.mapExpr f⟩, constraints := [],
      children := Routine.rereadList f ch, childrenOrder := (Routine.rereadList f ch).map (·.name) }
def Routine.rereadList (f : Expr → Expr) : List Routine → List Routine
  | [] => []
  | r :: rs => r.reread f :: Routine.rereadList f rs
end

end Bartiq
