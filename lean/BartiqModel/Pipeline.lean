/-
  BartiqModel.Pipeline — `compile_routine` (verification → preprocessing stages → `_compile`) and
  `evaluate`.
-/
import BartiqModel.Compile
import BartiqModel.Verify
namespace Bartiq

inductive Stage | propagateChildResources | propagateLinkedParams | promoteUnlinkedInputs | introducePortVariables
deriving DecidableEq, Repr

def Stage.run : Stage → Routine → Except Err Routine
  | .propagateChildResources, r => pure (Bartiq.propagateChildResources r)
  | .propagateLinkedParams, r => Bartiq.propagateLinkedParams r
  | .promoteUnlinkedInputs, r => pure (Bartiq.promoteUnlinkedInputs r)
  | .introducePortVariables, r => Bartiq.introducePortVariables r

def preprocessWith (stages : List Stage) (r : Routine) : Except Err Routine :=
  stages.foldlM (fun r s => s.run r) r

/-- `compile_routine(routine, skip_verification=…)` for a QREF input, given the stage list -/
def compileRoutineWith (stages : List Stage) (C : Comparator) (skipVerification : Bool) (r : Routine) :
    Except Err CRoutine := do
  let _ ← (if skipVerification then pure () else verify r)
  let r ← preprocessWith stages r
  let r ← sortTree r
  compile C [] r.name r

/-! ### evaluate -/

mutual
/-- `_evaluate_internal` with already parsed assignments; `fn` models `functions_map` as a rewriting of calls applied after
    the substitution to every expression (see `Expr.defineFns` in BartiqModel/Functions.lean). -/
def evaluateInternal (C : Comparator) (inputs : Dict Expr) (fn : Expr → Expr) (path : String) :
    CRoutine → Except Err CRoutine
  | ⟨name, ty, ips, ps, rs, cs, rep, cons, ch, ord⟩ => do
    -- `backend.substitute(side, inputs, custom_funcs)` on both sides, THEN the comparison
    let newCons ← evaluateConstraints (fun a b => C (fn a) (fn b)) cons inputs path
    let newCons := newCons.map fun c => ({ c with lhs := fn c.lhs, rhs := fn c.rhs } : Constraint)
    let rep' ← (match rep with
      | none => pure none
      | some rp => do
        let rp' ← rp.substituteSymbols inputs
        pure (some (rp'.mapExpr fn)) : Except Err (Option Repetition))
    let ch' ← evaluateInternalList C inputs fn path ch
    pure { name := name, type := ty,
           inputParams := dedupSorted (ips.filter fun p => !inputs.contains p),
           ports := (evaluatePorts ps inputs).map (fun p => { p with size := fn p.size }),
           resources := (evaluateResources rs inputs).map (fun r => { r with value := fn r.value }),
           conns := cs, rep := rep', constraints := newCons, children := ch', childrenOrder := ord }
def evaluateInternalList (C : Comparator) (inputs : Dict Expr) (fn : Expr → Expr) (path : String) :
    List CRoutine → Except Err (List CRoutine)
  | [] => pure []
  | c :: cs => do
    let c' ← evaluateInternal C inputs fn (path ++ "." ++ c.name) c
    let cs' ← evaluateInternalList C inputs fn path cs
    pure (c' :: cs')
end

def evaluate (C : Comparator) (c : CRoutine) (assignments : Dict Expr) : Except Err CRoutine :=
  evaluateInternal C assignments id c.name c

end Bartiq
