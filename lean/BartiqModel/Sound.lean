/-
  BartiqModel.Sound — the executable side condition of the "no internal exception" theorem (C17): what `_compile` relies on
  without checking.  Evaluated by the driver on every generated routine (after preprocessing), so that an input the code
  accepts but the condition excludes shows up instead of making the theorem silently vacuous.
-/
import BartiqModel.Compile
namespace Bartiq

def Err.isInternal : Err → Bool
  | .internal _ => true
  | _ => false

def ResTy.isAM : ResTy → Bool
  | .additive => true
  | .multiplicative => true
  | _ => false

mutual
/-- names under which a compiled node certainly carries an additive/multiplicative resource: its own ones, or — for a
    repetition wrapper — those of its only child -/
def Routine.amNames : Routine → List String
  | ⟨_, _, _, _, _, _, rs, _, rep, _, ch, _⟩ =>
    match rep with
    | none => (rs.filter fun r => r.ty.isAM).map (·.name)
    | some _ => Routine.amNamesOnly ch
def Routine.amNamesOnly : List Routine → List String
  | [k] => k.amNames
  | _ => []
end

def Seq.iteratorOK : Seq → Bool
  | .custom _ (.sym _) => true
  | .custom _ _ => false
  | _ => true

mutual
/-- local variables without circular definitions; every connection that leaves the routine's own boundary starts at one
    of its input/through ports; every connection that leaves a child starts at a port that child has; a repetition wrapper
    has exactly one child, its own resources are the propagated references `child.resource` to additive/multiplicative
    resources the compiled child carries, and the iterator of a custom sequence is a symbol -/
def Routine.sound : Routine → Bool
  | ⟨_, _, _, lvs, _, ps, rs, cs, rep, _, ch, _⟩ =>
    (localOrder lvs).isSome &&
    (match rep with
      | none => true
      | some rp => rp.seq.iteratorOK && (match ch with
          | [k] => rs.all fun r => (match r.value with | .sym s => s == k.name ++ "." ++ r.name | _ => false) && k.amNames.contains r.name
          | _ => false)) &&
    cs.all (fun c => match c.1.routine with
      | none => (Port.portsOf ps [.input, .through]).any (fun p => p.name == c.1.port)
      | some n => ch.all fun k => k.name != n || k.ports.any (fun p => p.name == c.1.port)) &&
    Routine.soundList ch
def Routine.soundList : List Routine → Bool
  | [] => true
  | c :: cs => c.sound && Routine.soundList cs
end

/-- a resource type the repetition cannot process under the given sequence -/
def unprocessable (seq : Seq) : ResTy → Bool
  | .other => true
  | .qubits => (match seq with | .constant _ => false | _ => true)
  | _ => false


end Bartiq
