/-
  BartiqModel.Compile — `compilation/_compile.py` and `_common.py`, one `def` per Python function,
  same step order.  The comparator (`SympyBackend.compare`) is a parameter.
-/
import BartiqModel.Preprocess
import BartiqModel.Graph
import BartiqModel.Poly
namespace Bartiq

abbrev Comparator := Expr → Expr → Cmp

/-! ### `_common.py` -/

def evaluatePorts (ports : List Port) (inputs : Dict Expr) : List Port :=
  ports.map fun p => { p with size := Expr.subst inputs p.size }

def evaluateResources (rs : List Resource) (inputs : Dict Expr) : List Resource :=
  rs.map fun r => { r with value := Expr.subst inputs r.value }

def evaluateConstraint (C : Comparator) (c : Constraint) (inputs : Dict Expr) : Except (Constraint × Constraint) Constraint :=
  let lhs := Expr.subst inputs c.lhs
  let rhs := Expr.subst inputs c.rhs
  let status := match C lhs rhs with
    | .equal => Status.satisfied | .unequal => Status.violated | .ambiguous => Status.inconclusive
  let nc : Constraint := ⟨lhs, rhs, status⟩
  if status = .violated then .error (c, nc) else .ok nc

/-- constraints already satisfied are dropped; a violated one raises -/
def evaluateConstraints (C : Comparator) (cs : List Constraint) (inputs : Dict Expr) (path : String) :
    Except Err (List Constraint) :=
  (cs.filter (·.status ≠ .satisfied)).mapM fun c =>
    match evaluateConstraint C c inputs with
    | .ok nc => pure nc
    | .error _ => throw (.compilation s!"The following constraint was violated when compiling {path}")

/-! ### repetitions -/

def Seq.substituteSymbols (inputs : Dict Expr) : Seq → Except Err Seq
  | .constant m => pure (.constant (Expr.subst inputs m))
  | .arithmetic i d => pure (.arithmetic (Expr.subst inputs i) (Expr.subst inputs d))
  | .geometric r => pure (.geometric (Expr.subst inputs r))
  | .closedForm s p n =>
    -- the placeholder is bound by the formulas: a like-named symbol of the scope is not substituted into them (after the fix F18)
    let inputs' := match n with | .sym nm => inputs.erase nm | _ => inputs
    pure (.closedForm (s.map (Expr.subst inputs')) (p.map (Expr.subst inputs')) n)
  | .custom t i =>
    match i with
    | .sym it =>
      if (inputs.values.flatMap Expr.fv).contains it || inputs.keys.contains it then
        throw (.compilation "Tried to replace symbol that's used as iterator symbol in a sequence")
      else pure (.custom (Expr.subst inputs t) i)
    | _ => pure (.custom (Expr.subst inputs t) i)

def Repetition.substituteSymbols (inputs : Dict Expr) (r : Repetition) : Except Err Repetition := do
  let s ← r.seq.substituteSymbols inputs
  pure ⟨Expr.subst inputs r.count, s⟩

open Expr in
/-- `get_sum(expr, count)` of the five sequence classes, as written in `repetitions.py` -/
def Seq.getSum (count x : Expr) : Seq → Except Err Expr
  | .constant m => pure (bin .mul (bin .mul count m) x)
  | .arithmetic a d =>
    pure (bin .mul (bin .mul (bin .mul (num (1/2)) count)
      (bin .add (bin .mul (num 2) a) (bin .mul (bin .sub count (num 1)) d))) x)
  | .geometric r => pure (bin .div (bin .mul x (bin .sub (num 1) (bin .pow r count))) (bin .sub (num 1) r))
  | .closedForm (some s) _ (.sym n) => pure (bin .mul x (Expr.subst [(n, count)] s))
  | .closedForm (some s) _ _ => pure (bin .mul x s)
  | .closedForm none _ _ => throw (.compilation "Cannot evaluate sum for ClosedFormSequence, as sum is not defined.")
  | .custom t (.sym i) => pure (big .sum (bin .mul t x) i (num 0) (bin .sub count (num 1)))
  | .custom _ _ => throw (.internal "ValueError")

open Expr in
def Seq.getProd (count x : Expr) : Seq → Except Err Expr
  | .constant m => pure (bin .pow x (bin .mul count m))
  | .arithmetic a d =>
    pure (bin .mul (bin .div (bin .mul (bin .pow d count) (app "gamma" [bin .add (bin .div a d) count]))
      (app "gamma" [bin .div a d])) (bin .pow x count))
  | .geometric r =>
    pure (bin .mul (bin .mul x (bin .add count (num 1)))
      (bin .pow r (bin .div (bin .mul count (bin .add count (num 1))) (num 2))))
  | .closedForm _ (some p) (.sym n) => pure (bin .mul x (Expr.subst [(n, count)] p))
  | .closedForm _ (some p) _ => pure (bin .mul x p)
  | .closedForm _ none _ => throw (.compilation "Cannot evaluate product for ClosedFormSequence, as sum is not defined.")
  | .custom t (.sym i) => pure (big .prod (bin .mul t x) i (num 0) (bin .sub count (num 1)))
  | .custom _ _ => throw (.internal "ValueError")

/-- `_process_repeated_resources`, given the compiled children as (name, [(resource name, type)]): after the fix it only
    looks at names and types; the child's compiled values are referred to by name -/
def repResourceOK (childName : String) (childRes : List (String × ResTy)) (r : Resource) : Bool :=
  (childRes.any fun x => x.1 = r.name) &&
  (match r.value with
   | .sym s => s == childName ++ "." ++ r.name
   | _ => false)

def processRepeatedResources (rep : Repetition) (resources : List Resource) (children : List (String × List (String × ResTy))) :
    Except Err (List Resource) :=
  match children with
  | [(childName, childRes)] =>
    -- the two `assert`s of the loop over the wrapper's own resources
    if !(resources.all (repResourceOK childName childRes)) then throw (.internal "AssertionError")
    else childRes.foldlM (fun (acc : List Resource) nt => do
      let ref := Expr.sym (childName ++ "." ++ nt.1)
      match nt.2 with
      | .additive => pure (Resource.set acc ⟨nt.1, nt.2, ← rep.seq.getSum rep.count ref⟩)
      | .multiplicative => pure (Resource.set acc ⟨nt.1, nt.2, ← rep.seq.getProd rep.count ref⟩)
      | .qubits =>
        (match rep.seq with
         | .constant _ => pure acc
         | _ => throw (.compilation s!"Can't process resource \"{nt.1}\" of type \"qubits\" in repetitive structure."))
      | .other => throw (.compilation s!"Can't process resource \"{nt.1}\" of type \"other\" in repetitive structure.")) []
  | _ => throw (.internal "AssertionError")

def childSigs (cs : List CRoutine) : List (String × List (String × ResTy)) :=
  cs.map fun c => (c.name, c.resources.map fun r => (r.name, r.ty))

/-! ### `_compile.py` -/

/-- the order in which `_compile_local_variables` visits the variables (`TopologicalSorter(...).static_order()`);
    `none` = `CycleError` -/
def localOrder (locals : Dict Expr) : Option (List String) :=
  Graph.staticOrder (locals.map fun kv => (kv.1, ((Expr.fv kv.2).filter locals.contains).eraseDups))

/-- one step of the loop, generic in what "compiling a definition in the scope built so far" means -/
def localsStep {α} (inst : Dict α → Expr → α) (locals : Dict Expr) (st : Dict α × Dict α) (v : String) : Dict α × Dict α :=
  match locals.get? v with
  | some e =>
    let cv := inst st.2 e
    (st.1.set v cv, st.2.set v cv)
  | none => st

/-- `_compile_local_variables`: any topological order of the dependency graph gives the same map -/
def compileLocalVariables (locals : Dict Expr) (inputs : Dict Expr) : Except Err (Dict Expr) :=
  match localOrder locals with
  | none => throw (.internal "CycleError")
  | some order => pure (order.foldl (localsStep Expr.subst locals) (([] : Dict Expr), inputs)).1

/-- `ParameterTree`: `self` is the `None` entry, `kids` the entries of the children.  Generic in the kind of value
    stored (expressions for `_compile`, semantic values for the reference evaluator). -/
structure PTreeG (α : Type) where
  self : Dict α
  kids : Dict (Dict α)
deriving Inhabited

abbrev PTree := PTreeG Expr

/-- a (possibly partial) tree produced by the helper functions; `none` key = current routine -/
abbrev PUpdateG (α : Type) := List (Option String × String × α)
abbrev PUpdate := PUpdateG Expr

/-- `_merge_param_trees(tree, update)`: only keys already in `tree` are kept -/
def PTreeG.mergeUpd {α} (t : PTreeG α) (u : PUpdateG α) : PTreeG α :=
  u.foldl (fun t e =>
    match e.1 with
    | none => { t with self := t.self.set e.2.1 e.2.2 }
    | some c => match t.kids.get? c with
      | some d => { t with kids := t.kids.set c (d.set e.2.1 e.2.2) }
      | none => t) t

/-- `_compile_linked_params` -/
def compileLinkedParams (inputs : Dict Expr) (linked : Dict (List (String × String))) : PUpdate :=
  linked.flatMap fun kv =>
    let v := Expr.subst inputs (.sym kv.1)
    kv.2.map fun t => (some t.1, t.2, v)

/-- `_expand_connections` then lookup of one source routine -/
def connectionsFrom (conns : List (Endpoint × Endpoint)) (src : Option String) : List (String × Endpoint) :=
  (conns.filter (·.1.routine = src)).map fun c => (c.1.port, c.2)

/-- `_param_tree_from_compiled_ports` on a dictionary port name ↦ size (raises `KeyError` when the source port was not
    compiled); generic in the kind of size -/
def paramTreeFromSizes {α} (cm : List (String × Endpoint)) (sizes : Dict α) : Except Err (PUpdateG α) :=
  cm.mapM fun st =>
    match sizes.get? st.1 with
    | some s => pure (st.2.routine, "#" ++ st.2.port, s)
    | none => throw (.internal "KeyError")

def portSizes (ports : List Port) : Dict Expr := ports.map fun p => (p.name, p.size)

def paramTreeFromCompiledPorts (cm : List (String × Endpoint)) (ports : List Port) : Except Err PUpdate :=
  paramTreeFromSizes cm (portSizes ports)

/-- `BaseRoutine.sorted_children_order` (after the fix: predecessors in sorted order) -/
def sortedChildrenOrder (names : List String) (order : List String) (conns : List (Endpoint × Endpoint)) :
    Except Err (List String) :=
  let inner : List (String × String) := conns.filterMap fun c =>
    match c.1.routine, c.2.routine with
    | some s, some t => some (s, t)
    | _, _ => none
  let preds (n : String) : List String := ((inner.filter (·.2 = n)).map (·.1)).eraseDups
  let (isSorted, _) := order.foldl (fun (st : Bool × List String) c =>
    if !st.1 then st
    else if (preds c).any (fun p => !st.2.contains p) then (false, st.2)
    else (true, c :: st.2)) (true, [])
  if isSorted then pure order
  else
    let g : Graph.G := names.map fun n => (n, sortBy (· < ·) (preds n))
    match Graph.staticOrder g with
    | some o => pure o
    | none => throw (.compilation "Connections between children form a cycle")

def reorder {α} (name : α → String) (xs : List α) (order : List String) : List α :=
  order.filterMap fun n => xs.find? (fun x => name x = n)

mutual
/-- put every node's children in `sorted_children_order` (this is the iteration order of `_compile`
    and hence the insertion order of the compiled `children` dict) -/
def sortTree : Routine → Except Err Routine
  | ⟨n, ty, ips, lvs, lks, ps, rs, cs, rep, cons, ch, ord⟩ => do
    let ch' ← sortTreeList ch
    let o ← sortedChildrenOrder (ch'.map (·.name)) ord cs
    pure ⟨n, ty, ips, lvs, lks, ps, rs, cs, rep, cons, reorder (·.name) ch' o, ord⟩
def sortTreeList : List Routine → Except Err (List Routine)
  | [] => pure []
  | c :: cs => do
    let c' ← sortTree c
    let cs' ← sortTreeList cs
    pure (c' :: cs')
end

def childrenVariables (cs : List CRoutine) : Dict Expr :=
  Dict.ofList (cs.flatMap fun c => c.resources.map fun r => (c.name ++ "." ++ r.name, r.value))

def dedupSorted (l : List String) : List String := (sortBy (· < ·) l).eraseDups

/-- the parameter tree after local variables, inputs and evaluated links have been entered -/
def pmInit (localVars inputs : Dict Expr) (lks : Dict (List (String × String))) (ch : List Routine) : PTree :=
  ({ self := Dict.merge localVars inputs, kids := ch.map fun c => (c.name, ([] : Dict Expr)) } : PTree).mergeUpd
    (compileLinkedParams (Dict.merge localVars inputs) lks)

/-- the repetition branch: resources to evaluate and the substituted repetition -/
def repStep (rep : Option Repetition) (rs : List Resource) (ccs : List CRoutine) (pmSelf : Dict Expr) :
    Except Err (List Resource × Option Repetition) :=
  match rep with
  | none => pure (rs, none)
  | some rp => do
    let rs' ← processRepeatedResources rp rs (childSigs ccs)
    let rp' ← rp.substituteSymbols pmSelf
    pure (rs', some rp')

def newInputParams (ips : List String) (inputs : Dict Expr) (ports : List Port) : List String :=
  dedupSorted ((if inputs.isEmpty then ips else inputs.values.flatMap Expr.fv) ++ ports.flatMap fun p => Expr.fv p.size)

/-- assembling the `CompiledRoutine` -/
def finishNode (name : String) (ty : Option String) (ips : List String) (inputs : Dict Expr) (ps : List Port)
    (cs : List (Endpoint × Endpoint)) (ord : List String) (newCons : List Constraint) (portsIn : List Port)
    (pmSelf : Dict Expr) (resources : List Resource) (repetition : Option Repetition) (ccs : List CRoutine) : CRoutine :=
  let ports := portsIn ++ evaluatePorts (Port.portsOf ps [.output]) pmSelf
  { name := name, type := ty, inputParams := newInputParams ips inputs ports, ports := ports,
    resources := evaluateResources resources pmSelf, conns := cs, rep := repetition, constraints := newCons,
    children := ccs, childrenOrder := ord }

mutual
/-- `_compile(routine, backend, inputs, context)` on a tree whose children are already in
    `sorted_children_order`. -/
def compile (C : Comparator) (inputs : Dict Expr) (path : String) : Routine → Except Err CRoutine
  | ⟨name, ty, ips, lvs, lks, ps, rs, cs, rep, cons, ch, ord⟩ => do
    let localVars ← compileLocalVariables lvs inputs
    let newCons ← evaluateConstraints C cons (Dict.merge localVars inputs) path
    let pm := pmInit localVars inputs lks ch
    let portsIn := evaluatePorts (Port.portsOf ps [.input, .through]) pm.self
    let upd ← paramTreeFromCompiledPorts (connectionsFrom cs none) portsIn
    let (pm2, ccs) ← compileChildren C cs path (pm.mergeUpd upd) ch
    let pmSelf := Dict.merge pm2.self (childrenVariables ccs)
    let (resources, repetition) ← repStep rep rs ccs pmSelf
    pure (finishNode name ty ips inputs ps cs ord newCons portsIn pmSelf resources repetition ccs)
def compileChildren (C : Comparator) (conns : List (Endpoint × Endpoint)) (path : String) :
    PTree → List Routine → Except Err (PTree × List CRoutine)
  | pm, [] => pure (pm, [])
  | pm, c :: cs => do
    let cc ← compile C ((pm.kids.get? c.name).getD []) (path ++ "." ++ c.name) c
    let upd ← paramTreeFromCompiledPorts (connectionsFrom conns (some c.name)) cc.ports
    let (pm', ccs) ← compileChildren C conns path (pm.mergeUpd upd) cs
    pure (pm', cc :: ccs)
end

end Bartiq
