/-
  BartiqModel.Aggregate — `transform.add_aggregated_resources`: topological expansion of the aggregation
  dictionary and the per-node rewrite.
-/
import BartiqModel.Routine
import BartiqModel.Graph
namespace Bartiq

/-- `AggregationDict`: decomposed resource ↦ (target resource ↦ multiplier) -/
abbrev AggDict := Dict (Dict Expr)

/-- `_topological_sort`: predecessors of a key are its targets that are keys themselves; `none` = cyclic -/
def aggOrder (d : AggDict) : Option (List String) :=
  Graph.staticOrder (d.map fun kv => (kv.1, (kv.2.keys.filter d.contains).eraseDups))

/-- the inner loop of `_expand_resource` for one `current` target -/
def expandInto (m : Dict Expr) (cur : String) (sub : Dict Expr) : Dict Expr :=
  sub.foldl (fun m sm =>
    let e := Expr.bin .mul ((m.get? cur).getD (.num 0)) sm.2
    match m.get? sm.1 with
    | some old => m.set sm.1 (.bin .add old e)
    | none => m.set sm.1 e) m

/-- `_expand_resource` -/
def expandResource (d expanded : AggDict) (res : String) : Dict Expr :=
  let m0 := (d.get? res).getD []
  m0.keys.foldl (fun m cur =>
    let m := expandInto m cur ((expanded.get? cur).getD [])
    if d.contains cur then m.erase cur else m) m0

/-- `_expand_aggregation_dict` -/
def expandAggregation (d : AggDict) : Except Err AggDict :=
  match aggOrder d with
  | none => throw (.value "nodes are in a cycle")
  | some order => pure (order.foldl (fun exp r => exp.set r (expandResource d exp r)) [])

/-- `order` (continuing after the already expanded `done`) lists decomposed resources, each once, each after every decomposed
    resource it is decomposed into — what `_topological_sort` is for.  Executable, so that every run can check it on what
    `aggOrder` returned. -/
def topoOK (d : AggDict) : List String → List String → Bool
  | _, [] => true
  | done, r :: rest =>
    !done.contains r && d.contains r &&
    (((d.get? r).getD []).keys.all fun t => !d.contains t || done.contains t) && topoOK d (done ++ [r]) rest

/-- contribution of one decomposed resource `r` (with its ORIGINAL value) to the aggregated resources -/
def applyMapping (agg : List Resource) (r : Resource) (mapping : Dict Expr) : List Resource :=
  mapping.foldl (fun agg sm =>
    match Resource.find? agg sm.1 with
    | some cur => Resource.set agg { cur with value := .bin .add cur.value (.bin .mul sm.2 r.value) }
    | none => agg ++ [⟨sm.1, r.ty, .bin .mul sm.2 r.value⟩]) agg

/-- the loop body of `_add_aggregated_resources_to_subroutine` for one resource of the node -/
def aggregateStep (exp : AggDict) (remove : Bool) (agg : List Resource) (r : Resource) : List Resource :=
  match exp.get? r.name with
  | none => agg
  | some mapping =>
    let agg := applyMapping agg r mapping
    if remove then agg.filter (fun x => x.name ≠ r.name)
    else agg.map (fun x => if x.name = r.name then { x with ty := .other } else x)

def aggregateNode (exp : AggDict) (remove : Bool) (rs : List Resource) : List Resource :=
  rs.foldl (aggregateStep exp remove) rs

mutual
def aggregateTree (exp : AggDict) (remove : Bool) : CRoutine → CRoutine
  | ⟨n, ty, ips, ps, rs, cs, rep, cons, ch, ord⟩ =>
    ⟨n, ty, ips, ps, aggregateNode exp remove rs, cs, rep, cons, aggregateTreeList exp remove ch, ord⟩
def aggregateTreeList (exp : AggDict) (remove : Bool) : List CRoutine → List CRoutine
  | [] => []
  | c :: cs => aggregateTree exp remove c :: aggregateTreeList exp remove cs
end

/-- `add_aggregated_resources(routine, aggregation_dict, remove_decomposed)` -/
def addAggregatedResources (d : AggDict) (remove : Bool) (c : CRoutine) : Except Err CRoutine := do
  let exp ← expandAggregation d
  pure (aggregateTree exp remove c)

end Bartiq
