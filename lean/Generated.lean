import Generated.Stages
