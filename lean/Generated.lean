import Generated.Stages
import Generated.Tables
import Generated.Printer
