/-
  BartiqProofs.QrefLemmas — the string encodings of endpoints and link targets round-trip, and merging links with
  distinct sources changes nothing.
-/
import BartiqModel.Qref
import BartiqProofs.ExprLemmas
namespace Bartiq

theorem splitAtFirst_append (c : Char) : ∀ (a b : List Char), c ∉ a → splitAtFirst c (a ++ c :: b) = some (a, b)
  | [], b, _ => by simp [splitAtFirst]
  | x :: a, b, h => by
    have hx : x ≠ c := fun e => h (by simp [e])
    have ha : c ∉ a := fun e => h (by simp [e])
    simp [splitAtFirst, hx, splitAtFirst_append c a b ha]

theorem splitAtFirst_none (c : Char) : ∀ (l : List Char), c ∉ l → splitAtFirst c l = none
  | [], _ => rfl
  | x :: l, h => by
    have hx : x ≠ c := fun e => h (by simp [e])
    have hl : c ∉ l := fun e => h (by simp [e])
    simp [splitAtFirst, hx, splitAtFirst_none c l hl]

theorem splitAtLast_append (c : Char) (a b : List Char) (h : c ∉ b) : splitAtLast c (a ++ c :: b) = some (a, b) := by
  unfold splitAtLast
  have : (a ++ c :: b).reverse = b.reverse ++ c :: a.reverse := by simp
  rw [this, splitAtFirst_append c b.reverse a.reverse (by simpa using h)]
  simp

/-- a name without dots -/
def Dotless (s : String) : Prop := '.' ∉ s.toList

/-- **endpoints round-trip**: `child.port` and `port` are read back as they were written, provided names are dot-free
    (QREF's name pattern) -/
theorem endpoint_roundtrip (e : Endpoint) (hp : Dotless e.port) (hr : ∀ r, e.routine = some r → Dotless r) :
    Endpoint.ofStr e.toStr = some e := by
  obtain ⟨r, p⟩ := e
  cases r with
  | none =>
    simp only [Endpoint.toStr, Endpoint.ofStr]
    rw [splitAtFirst_none '.' p.toList hp]
  | some r =>
    have hr' : '.' ∉ r.toList := hr r rfl
    simp only [Endpoint.toStr, Endpoint.ofStr]
    have : (r ++ "." ++ p).toList = r.toList ++ '.' :: p.toList := by simp [String.toList_append]
    rw [this, splitAtFirst_append '.' r.toList p.toList hr']
    have hp' : '.' ∉ p.toList := hp
    simp [hp', String.ofList_toList]

/-- **link targets round-trip**: the path may contain dots (deep links), the parameter name may not -/
theorem target_roundtrip (t : String × String) (hp : Dotless t.2) : targetOfStr (targetToStr t) = some t := by
  obtain ⟨path, param⟩ := t
  simp only [targetToStr, targetOfStr]
  have : (path ++ "." ++ param).toList = path.toList ++ '.' :: param.toList := by simp [String.toList_append]
  rw [this, splitAtLast_append '.' path.toList param.toList hp]
  simp [String.ofList_toList]

/-! ### merging links -/

theorem set_fresh {α : Type} : ∀ (d : Dict α) (k : String) (v : α), k ∉ d.keys → d.set k v = d ++ [(k, v)]
  | [], _, _, _ => rfl
  | (k', v') :: t, k, v, h => by
    have hk : k' ≠ k := fun e => h (by simp [Dict.keys, e])
    have ht : k ∉ Dict.keys t := fun e => h (by simp [Dict.keys] at e ⊢; exact Or.inr e)
    simp [Dict.set, hk, set_fresh t k v ht]

theorem get?_fresh {α : Type} : ∀ (d : Dict α) (k : String), k ∉ d.keys → d.get? k = none
  | [], _, _ => rfl
  | (k', v') :: t, k, h => by
    have hk : k' ≠ k := fun e => h (by simp [Dict.keys, e])
    have ht : k ∉ Dict.keys t := fun e => h (by simp [Dict.keys] at e ⊢; exact Or.inr e)
    simp [Dict.get?, hk, get?_fresh t k ht]

theorem mergeLinks_fold (l : List (String × List (String × String))) :
    ∀ (acc : Dict (List (String × String))), (acc.keys ++ l.map (·.1)).Nodup →
      l.foldl (fun acc kv => acc.set kv.1 (((acc.get? kv.1).getD []) ++ kv.2)) acc = acc ++ l := by
  induction l with
  | nil => intro acc _; simp
  | cons kv l ih =>
    intro acc hnd
    have hk : kv.1 ∉ acc.keys := by
      intro hin
      have := List.nodup_append.mp hnd
      exact this.2.2 kv.1 hin kv.1 (by simp) rfl
    simp only [List.foldl_cons]
    rw [get?_fresh acc kv.1 hk, set_fresh acc kv.1 _ hk]
    simp only [Option.getD_none, List.nil_append]
    rw [ih (acc ++ [(kv.1, kv.2)]) (by
      simp only [Dict.keys, List.map_append, List.map_cons, List.map_nil, List.append_assoc, List.cons_append, List.nil_append] at hnd ⊢
      exact hnd)]
    simp

/-- links whose sources are distinct are left as they are by the merge of `Routine.from_qref` -/
theorem mergeLinks_of_nodup (l : List (String × List (String × String))) (h : (l.map (·.1)).Nodup) : mergeLinks l = l := by
  unfold mergeLinks
  rw [mergeLinks_fold l [] (by simpa [Dict.keys] using h)]
  simp

end Bartiq
