/-
  Correctness of the model of `graphlib.TopologicalSorter.static_order` (BartiqModel/Graph.lean, Kahn's algorithm with
  predecessor counters): whatever it returns lists nodes of the graph, each once, every node after all its predecessors.
-/
import BartiqModel.Graph
import BartiqModel.Aggregate
import BartiqProofs.ExprLemmas
import Mathlib.Data.List.Count
import Mathlib.Data.List.Nodup
import Mathlib.Data.List.Perm.Subperm
import Mathlib.Tactic.Ring
import Mathlib.Tactic.Tauto
import Mathlib.Data.Fintype.Card
import Mathlib.Data.Fintype.Sets
import Mathlib.Order.WellFounded
import Mathlib.Data.Fintype.EquivFin
namespace Bartiq
namespace Graph

/-- all (predecessor, node) registrations, with multiplicity, in registration order -/
def edges (g : G) : List (String × String) := g.flatMap fun kv => kv.2.map fun p => (p, kv.1)

theorem succs_eq (g : G) (p : String) : succs g p = ((edges g).filter fun e => e.1 = p).map (·.2) := by
  unfold succs edges
  induction g with
  | nil => rfl
  | cons kv rest ih =>
    simp only [List.flatMap_cons, List.filter_append, List.map_append, ih]
    congr 1
    induction kv.2 with
    | nil => rfl
    | cons q qs ihq =>
      by_cases h : q = p
      · simp [List.filter_cons, h, ihq]
      · simp [List.filter_cons, h, ihq]

theorem npred_eq (g : G) (n : String) : npred g n = (edges g).countP fun e => e.2 = n := by
  unfold npred edges
  suffices h : ∀ acc, (g.filter (·.1 = n)).foldl (fun acc kv => acc + kv.2.length) acc =
      acc + (g.flatMap fun kv => kv.2.map fun p => (p, kv.1)).countP fun e => e.2 = n by
    simpa using h 0
  induction g with
  | nil => intro acc; simp
  | cons kv rest ih =>
    intro acc
    have hmap : (kv.2.map fun p => (p, kv.1)).countP (fun e => e.2 = n) = if kv.1 = n then kv.2.length else 0 := by
      rw [List.countP_map]
      by_cases h : kv.1 = n <;> simp [Function.comp_def, h]
    by_cases h : kv.1 = n
    · simp only [List.filter_cons, h, decide_true, if_true, List.foldl_cons, List.flatMap_cons, List.countP_append] at hmap ⊢
      rw [ih, hmap]; ring
    · simp only [List.filter_cons, h, decide_false, Bool.false_eq_true, if_false, List.flatMap_cons, List.countP_append] at hmap ⊢
      rw [ih, hmap]; ring

/-- number of registrations of `s` whose predecessor is `p` -/
theorem count_succs (g : G) (p s : String) : (succs g p).count s = (edges g).countP fun e => e.1 = p ∧ e.2 = s := by
  rw [succs_eq, List.count, List.countP_map, List.countP_filter]
  apply List.countP_congr
  intro e _
  simp [Function.comp_def, and_comm]

theorem countP_disj {α : Type} (l : List α) (P Q : α → Bool) (h : ∀ x ∈ l, ¬ (P x = true ∧ Q x = true)) :
    l.countP (fun x => P x || Q x) = l.countP P + l.countP Q := by
  induction l with
  | nil => rfl
  | cons a as ih =>
    have ih' := ih (fun x hx => h x (List.mem_cons_of_mem _ hx))
    have ha := h a (by simp)
    simp only [List.countP_cons, ih']
    cases hp : P a <;> cases hq : Q a <;> simp_all <;> omega

/-- the decrements caused by a duplicate-free list of processed nodes are exactly the registrations through them -/
theorem count_flatMap_succs (g : G) (s : String) : ∀ (L : List String), L.Nodup →
    (L.flatMap (succs g)).count s = (edges g).countP (fun e => decide (e.1 ∈ L) && decide (e.2 = s))
  | [], _ => by simp
  | p :: L, h => by
    have hp : p ∉ L := (List.nodup_cons.mp h).1
    rw [List.flatMap_cons, List.count_append, count_flatMap_succs g s L (List.nodup_cons.mp h).2, count_succs]
    have := countP_disj (edges g) (fun e => decide (e.1 = p ∧ e.2 = s)) (fun e => decide (e.1 ∈ L) && decide (e.2 = s))
      (by intro e _ ⟨h1, h2⟩; simp only [decide_eq_true_eq, Bool.and_eq_true] at h1 h2; exact hp (h1.1 ▸ h2.1))
    rw [← this]
    apply List.countP_congr
    intro e _
    simp only [List.mem_cons, decide_eq_true_eq, Bool.and_eq_true, Bool.or_eq_true]
    tauto

theorem count_flatMap_succs_le (g : G) (s : String) (L : List String) (h : L.Nodup) :
    (L.flatMap (succs g)).count s ≤ npred g s := by
  rw [count_flatMap_succs g s L h, npred_eq]
  apply List.countP_mono_left
  intro e _ he
  simp only [Bool.and_eq_true, decide_eq_true_eq] at he ⊢
  exact he.2

theorem countP_lt_of_uncounted (L : List String) (s : String) : ∀ (es : List (String × String)) (e : String × String),
    e ∈ es → e.2 = s → e.1 ∉ L →
    es.countP (fun e => decide (e.1 ∈ L) && decide (e.2 = s)) < es.countP (fun e => decide (e.2 = s))
  | [], _, he, _, _ => by cases he
  | a :: as, e, he, hes, hnot => by
    have hle : as.countP (fun e => decide (e.1 ∈ L) && decide (e.2 = s)) ≤ as.countP (fun e => decide (e.2 = s)) := by
      apply List.countP_mono_left
      intro x _ hx
      simp only [Bool.and_eq_true, decide_eq_true_eq] at hx ⊢
      exact hx.2
    simp only [List.countP_cons]
    rcases List.mem_cons.mp he with rfl | hmem
    · simp [hnot, hes]
      omega
    · have := countP_lt_of_uncounted L s as e hmem hes hnot
      by_cases h1 : a.2 = s <;> by_cases h3 : a.1 ∈ L <;> simp [h1, h3] <;> omega

/-- when all registrations of `s` are accounted for by `L`, every predecessor of `s` is in `L` -/
theorem preds_mem_of_count_eq (g : G) (s : String) (L : List String) (h : L.Nodup)
    (heq : (L.flatMap (succs g)).count s = npred g s) : ∀ e ∈ edges g, e.2 = s → e.1 ∈ L := by
  rw [count_flatMap_succs g s L h, npred_eq] at heq
  intro e he hes
  by_contra hnot
  have := countP_lt_of_uncounted L s (edges g) e he hes hnot
  omega

/-! ### one round of decrements -/

/-- counter value (absent = 0) -/
def cv (cnt : Dict Nat) (s : String) : Nat := (cnt.get? s).getD 0

/-- the innermost step of `done(*group)`: decrement the counter of a successor, collect it when it reaches 0 -/
def dec (st : Dict Nat × List String) (s : String) : Dict Nat × List String :=
  let c := (st.1.get? s).getD 0 - 1
  (st.1.set s c, if c = 0 then st.2 ++ [s] else st.2)

theorem doneGroup_eq (g : G) (cnt : Dict Nat) (group : List String) :
    doneGroup g cnt group = (group.flatMap (succs g)).foldl dec (cnt, []) := by
  unfold doneGroup
  rw [List.foldl_flatMap]
  rfl

theorem cv_dec (st : Dict Nat × List String) (d s : String) :
    cv (dec st d).1 s = if d = s then cv st.1 d - 1 else cv st.1 s := by
  unfold cv dec
  simp only [Dict.get?_set]
  by_cases h : d = s <;> simp [h]

theorem count_cons_ne' {d s : String} (h : ¬ d = s) (ds : List String) : List.count s (d :: ds) = List.count s ds := by
  simp [List.count_cons, h]

theorem decFold_spec : ∀ (ds : List String) (st : Dict Nat × List String), (∀ s, ds.count s ≤ cv st.1 s) →
    (∀ s, cv (ds.foldl dec st).1 s = cv st.1 s - ds.count s) ∧
    (∀ s, s ∈ (ds.foldl dec st).2 ↔ s ∈ st.2 ∨ (s ∈ ds ∧ cv st.1 s = ds.count s)) ∧
    (st.2.Nodup → (∀ s ∈ st.2, s ∉ ds) → (ds.foldl dec st).2.Nodup)
  | [], st, _ => by
    refine ⟨fun s => by simp, fun s => by simp, fun h _ => h⟩
  | d :: ds, st, hle => by
    have hd := hle d
    simp only [List.count_cons_self] at hd
    have hle1 : ∀ s, ds.count s ≤ cv (dec st d).1 s := by
      intro s
      rw [cv_dec]
      have := hle s
      by_cases h : d = s
      · subst h; simp only [List.count_cons_self, if_true] at this ⊢; omega
      · simp only [count_cons_ne' h ds, h, if_false] at this ⊢; exact this
    obtain ⟨i1, i2, i3⟩ := decFold_spec ds (dec st d) hle1
    simp only [List.foldl_cons]
    have hst2 : (dec st d).2 = if cv st.1 d - 1 = 0 then st.2 ++ [d] else st.2 := rfl
    refine ⟨fun s => ?_, fun s => ?_, fun hnd hdis => ?_⟩
    · rw [i1 s, cv_dec]
      by_cases h : d = s
      · subst h; simp only [List.count_cons_self, if_true]; omega
      · simp only [count_cons_ne' h ds, h, if_false]
    · rw [i2 s, cv_dec, hst2]
      by_cases h : d = s
      · subst h
        simp only [if_true, List.count_cons_self, List.mem_cons, true_or, true_and]
        by_cases hz : cv st.1 d - 1 = 0
        · have hc0 : ds.count d = 0 := by have := hle1 d; rw [cv_dec] at this; simp only [if_true] at this; omega
          have hnm : d ∉ ds := List.count_eq_zero.mp hc0
          simp only [hz, if_true, List.mem_append, List.mem_singleton, or_true, hnm, false_and, or_false, hc0, true_or]
          constructor
          · intro _; right; omega
          · intro _; trivial
        · simp only [hz, if_false]
          constructor
          · rintro (h | ⟨_, h⟩)
            · exact Or.inl h
            · right; omega
          · rintro (h | h)
            · exact Or.inl h
            · right
              have hpos : 0 < ds.count d := by omega
              exact ⟨List.count_pos_iff.mp hpos, by omega⟩
      · have hne : s ≠ d := fun e => h e.symm
        simp only [h, if_false, count_cons_ne' h ds, List.mem_cons, hne, false_or]
        by_cases hz : cv st.1 d - 1 = 0
        · simp [hz, hne]
        · simp [hz]
    · rw [hst2] at i3
      apply i3
      · by_cases hz : cv st.1 d - 1 = 0
        · simp only [hz, if_true]
          have hdn : d ∉ st.2 := fun hm => hdis d hm (by simp)
          exact List.nodup_append.mpr ⟨hnd, by simp, by intro a ha b hb; simp at hb; subst hb; intro e; subst e; exact hdn ha⟩
        · simp only [hz, if_false]; exact hnd
      · intro s hs
        by_cases hz : cv st.1 d - 1 = 0
        · simp only [hz, if_true, List.mem_append, List.mem_singleton] at hs
          rcases hs with hs | rfl
          · intro hm; exact hdis s hs (List.mem_cons_of_mem _ hm)
          · have hc0 : ds.count s = 0 := by have := hle1 s; rw [cv_dec] at this; simp only [if_true] at this; omega
            exact List.count_eq_zero.mp hc0
        · simp only [hz, if_false] at hs
          intro hm; exact hdis s hs (List.mem_cons_of_mem _ hm)

/-! ### the node list -/

theorem addNode_nodup (ns : List String) (n : String) (h : ns.Nodup) : (addNode ns n).Nodup := by
  unfold addNode
  split
  · exact h
  · rename_i hc
    have hn : n ∉ ns := by simpa using hc
    exact List.nodup_append.mpr ⟨h, by simp, by intro a ha b hb; simp at hb; subst hb; intro e; subst e; exact hn ha⟩

theorem mem_addNode (ns : List String) (n x : String) : x ∈ addNode ns n ↔ x ∈ ns ∨ x = n := by
  unfold addNode
  split
  · rename_i hc
    have hn : n ∈ ns := by simpa using hc
    constructor
    · exact Or.inl
    · rintro (h | rfl)
      · exact h
      · exact hn
  · simp

theorem foldl_addNode_nodup : ∀ (ps ns : List String), ns.Nodup → (ps.foldl addNode ns).Nodup
  | [], ns, h => h
  | p :: ps, ns, h => foldl_addNode_nodup ps _ (addNode_nodup ns p h)

theorem mem_foldl_addNode : ∀ (ps ns : List String) (x : String), x ∈ ps.foldl addNode ns ↔ x ∈ ns ∨ x ∈ ps
  | [], ns, x => by simp
  | p :: ps, ns, x => by
    simp only [List.foldl_cons, mem_foldl_addNode ps, mem_addNode, List.mem_cons]
    tauto

theorem nodes_aux : ∀ (g : G) (acc : List String), acc.Nodup →
    (g.foldl (fun acc kv => kv.2.foldl addNode (addNode acc kv.1)) acc).Nodup ∧
    (∀ x, x ∈ acc → x ∈ g.foldl (fun acc kv => kv.2.foldl addNode (addNode acc kv.1)) acc) ∧
    (∀ kv ∈ g, kv.1 ∈ g.foldl (fun acc kv => kv.2.foldl addNode (addNode acc kv.1)) acc)
  | [], acc, h => ⟨h, fun _ hx => hx, fun _ hkv => by cases hkv⟩
  | kv :: g, acc, h => by
    simp only [List.foldl_cons]
    obtain ⟨i1, i2, i3⟩ := nodes_aux g (kv.2.foldl addNode (addNode acc kv.1)) (foldl_addNode_nodup _ _ (addNode_nodup _ _ h))
    refine ⟨i1, fun x hx => i2 x ?_, fun kv' hkv' => ?_⟩
    · rw [mem_foldl_addNode, mem_addNode]; exact Or.inl (Or.inl hx)
    · rcases List.mem_cons.mp hkv' with rfl | hm
      · apply i2; rw [mem_foldl_addNode, mem_addNode]; exact Or.inl (Or.inr rfl)
      · exact i3 kv' hm

theorem nodes_nodup (g : G) : (nodes g).Nodup := (nodes_aux g [] List.nodup_nil).1
theorem key_mem_nodes (g : G) (kv : String × List String) (h : kv ∈ g) : kv.1 ∈ nodes g := (nodes_aux g [] List.nodup_nil).2.2 kv h

theorem edge_target_mem_nodes (g : G) (e : String × String) (h : e ∈ edges g) : e.2 ∈ nodes g := by
  unfold edges at h
  simp only [List.mem_flatMap, List.mem_map] at h
  obtain ⟨kv, hkv, p, _, rfl⟩ := h
  exact key_mem_nodes g kv hkv

theorem mem_succs_mem_nodes (g : G) (p s : String) (h : s ∈ succs g p) : s ∈ nodes g := by
  rw [succs_eq] at h
  simp only [List.mem_map, List.mem_filter] at h
  obtain ⟨e, ⟨he, _⟩, rfl⟩ := h
  exact edge_target_mem_nodes g e he

/-! ### the order invariant -/

/-- `todo` continues `done` in such a way that every node comes after all its registered predecessors -/
def respects (g : G) : List String → List String → Bool
  | _, [] => true
  | done, s :: rest => ((edges g).all fun e => e.2 != s || done.contains e.1) && respects g (done ++ [s]) rest

theorem respects_of_preds (g : G) : ∀ (todo done : List String),
    (∀ s ∈ todo, ∀ e ∈ edges g, e.2 = s → e.1 ∈ done) → respects g done todo = true
  | [], _, _ => rfl
  | s :: rest, done, h => by
    simp only [respects, Bool.and_eq_true, List.all_eq_true, Bool.or_eq_true, bne_iff_ne, ne_eq]
    refine ⟨fun e he => ?_, respects_of_preds g rest (done ++ [s]) (fun s' hs' e he hes => ?_)⟩
    · by_cases hes : e.2 = s
      · right; simpa using h s (by simp) e he hes
      · left; exact hes
    · exact List.mem_append_left _ (h s' (List.mem_cons_of_mem _ hs') e he hes)

theorem respects_append (g : G) : ∀ (a b done : List String),
    respects g done (a ++ b) = (respects g done a && respects g (done ++ a) b)
  | [], b, done => by simp [respects]
  | s :: a, b, done => by
    simp only [List.cons_append, respects, respects_append g a b (done ++ [s]), List.append_assoc, List.cons_append,
      List.nil_append, Bool.and_assoc]

/-! ### the loop -/

structure Inv (g : G) (cnt : Dict Nat) (ready acc : List String) : Prop where
  nodup : (acc ++ ready).Nodup
  sub : ∀ x ∈ acc ++ ready, x ∈ nodes g
  cnt_eq : ∀ s ∈ nodes g, cv cnt s = npred g s - (acc.flatMap (succs g)).count s
  zero_iff : ∀ s ∈ nodes g, (s ∈ acc ++ ready ↔ cv cnt s = 0)
  sorted : respects g [] acc = true

theorem count_succs_not_node (g : G) (L : List String) (s : String) (h : s ∉ nodes g) : (L.flatMap (succs g)).count s = 0 := by
  apply List.count_eq_zero.mpr
  intro hm
  simp only [List.mem_flatMap] at hm
  obtain ⟨p, _, hp⟩ := hm
  exact h (mem_succs_mem_nodes g p s hp)

theorem inv_step (g : G) (cnt : Dict Nat) (ready acc : List String) (h : Inv g cnt ready acc) :
    Inv g (doneGroup g cnt ready).1 (doneGroup g cnt ready).2 (acc ++ ready) := by
  have hnd_acc : acc.Nodup := (List.nodup_append.mp h.nodup).1
  -- no counter underflows
  have hle : ∀ s, (ready.flatMap (succs g)).count s ≤ cv cnt s := by
    intro s
    by_cases hs : s ∈ nodes g
    · have h1 := count_flatMap_succs_le g s (acc ++ ready) h.nodup
      rw [List.flatMap_append, List.count_append] at h1
      rw [h.cnt_eq s hs]; omega
    · rw [count_succs_not_node g ready s hs]; exact Nat.zero_le _
  obtain ⟨d1, d2, d3⟩ := decFold_spec (ready.flatMap (succs g)) (cnt, []) hle
  rw [doneGroup_eq]
  simp only [List.not_mem_nil, false_or] at d2
  have hnext_nodes : ∀ s, s ∈ ((ready.flatMap (succs g)).foldl dec (cnt, [])).2 → s ∈ nodes g := by
    intro s hs
    obtain ⟨hm, _⟩ := (d2 s).mp hs
    simp only [List.mem_flatMap] at hm
    obtain ⟨p, _, hp⟩ := hm
    exact mem_succs_mem_nodes g p s hp
  have hnext_new : ∀ s, s ∈ ((ready.flatMap (succs g)).foldl dec (cnt, [])).2 → s ∉ acc ++ ready := by
    intro s hs hmem
    obtain ⟨hm, hc⟩ := (d2 s).mp hs
    have hz := (h.zero_iff s (hnext_nodes s hs)).mp hmem
    have hpos := List.count_pos_iff.mpr hm
    have hc' : cv cnt s = (ready.flatMap (succs g)).count s := hc
    omega
  refine ⟨?_, ?_, ?_, ?_, ?_⟩
  · -- still duplicate-free
    have hn := d3 List.nodup_nil (by intro s hs; cases hs)
    refine List.nodup_append.mpr ⟨h.nodup, hn, ?_⟩
    intro a ha b hb e
    subst e
    exact hnext_new a hb ha
  · intro x hx
    rcases List.mem_append.mp hx with hx | hx
    · exact h.sub x hx
    · exact hnext_nodes x hx
  · intro s hs
    rw [d1 s, List.flatMap_append, List.count_append]
    show cv cnt s - _ = _
    rw [h.cnt_eq s hs]; omega
  · intro s hs
    rw [d1 s]
    show _ ↔ cv cnt s - _ = 0
    constructor
    · intro hm
      rcases List.mem_append.mp hm with hm | hm
      · have := (h.zero_iff s hs).mp hm; omega
      · obtain ⟨_, hc⟩ := (d2 s).mp hm
        have hc' : cv cnt s = (ready.flatMap (succs g)).count s := hc
        omega
    · intro hz
      by_cases hz0 : cv cnt s = 0
      · exact List.mem_append_left _ ((h.zero_iff s hs).mpr hz0)
      · have hle' := hle s
        have heq : cv cnt s = (ready.flatMap (succs g)).count s := by omega
        have hpos : 0 < (ready.flatMap (succs g)).count s := by omega
        exact List.mem_append_right _ ((d2 s).mpr ⟨List.count_pos_iff.mp hpos, heq⟩)
  · -- the group goes after everything processed so far, and every member has all its predecessors there
    rw [respects_append, h.sorted, Bool.true_and, List.nil_append]
    apply respects_of_preds
    intro s hs e he hes
    have hsn : s ∈ nodes g := h.sub s (List.mem_append_right _ hs)
    have hz := (h.zero_iff s hsn).mp (List.mem_append_right _ hs)
    have hc := h.cnt_eq s hsn
    have hle2 := count_flatMap_succs_le g s acc hnd_acc
    exact preds_mem_of_count_eq g s acc hnd_acc (by omega) e he hes

theorem loop_spec (g : G) : ∀ (fuel : Nat) (cnt : Dict Nat) (ready acc : List String), Inv g cnt ready acc →
    (loop g fuel cnt ready acc).Nodup ∧ (∀ x ∈ loop g fuel cnt ready acc, x ∈ nodes g) ∧
      respects g [] (loop g fuel cnt ready acc) = true
  | 0, cnt, ready, acc, h => by
    simp only [loop]
    exact ⟨(List.nodup_append.mp h.nodup).1, fun x hx => h.sub x (List.mem_append_left _ hx), h.sorted⟩
  | fuel + 1, cnt, ready, acc, h => by
    simp only [loop]
    split
    · exact ⟨(List.nodup_append.mp h.nodup).1, fun x hx => h.sub x (List.mem_append_left _ hx), h.sorted⟩
    · exact loop_spec g fuel _ _ _ (inv_step g cnt ready acc h)

theorem get?_map_pair (f : String → Nat) : ∀ (ns : List String) (s : String), s ∈ ns →
    Dict.get? (ns.map fun n => (n, f n)) s = some (f s)
  | [], _, h => by cases h
  | n :: ns, s, h => by
    simp only [List.map_cons, Dict.get?_cons]
    by_cases e : n = s
    · subst e; simp
    · simp only [e, if_false]
      rcases List.mem_cons.mp h with rfl | hm
      · exact absurd rfl e
      · exact get?_map_pair f ns s hm

/-- **`static_order()`**: whatever it returns lists nodes of the graph, each at most once, each after all its registered
    predecessors -/
theorem staticOrder_length (g : G) (out : List String) (h : staticOrder g = some out) : out.length = (nodes g).length := by
  unfold staticOrder at h
  simp only at h
  split at h
  · rename_i hl
    simp only [Option.some.injEq] at h
    rw [← h]; exact hl
  · cases h

theorem staticOrder_spec (g : G) (out : List String) (h : staticOrder g = some out) :
    out.Nodup ∧ (∀ x ∈ out, x ∈ nodes g) ∧ respects g [] out = true := by
  unfold staticOrder at h
  simp only at h
  split at h
  · simp only [Option.some.injEq] at h
    subst h
    apply loop_spec
    refine ⟨?_, ?_, ?_, ?_, rfl⟩
    · simpa using (nodes_nodup g).filter _
    · intro x hx
      simp only [List.nil_append, List.mem_filter] at hx
      exact hx.1
    · intro s hs
      simp [cv, get?_map_pair (npred g) (nodes g) s hs]
    · intro s hs
      simp [cv, get?_map_pair (npred g) (nodes g) s hs, hs]
  · cases h

theorem mem_nodes_aux : ∀ (g : G) (acc : List String) (x : String),
    x ∈ g.foldl (fun acc kv => kv.2.foldl addNode (addNode acc kv.1)) acc → x ∈ acc ∨ ∃ kv ∈ g, x = kv.1 ∨ x ∈ kv.2
  | [], acc, x, h => Or.inl h
  | kv :: g, acc, x, h => by
    simp only [List.foldl_cons] at h
    rcases mem_nodes_aux g _ x h with h1 | ⟨kv', hkv', hx⟩
    · rw [mem_foldl_addNode, mem_addNode] at h1
      rcases h1 with (h1 | h1) | h1
      · exact Or.inl h1
      · exact Or.inr ⟨kv, by simp, Or.inl h1⟩
      · exact Or.inr ⟨kv, by simp, Or.inr h1⟩
    · exact Or.inr ⟨kv', List.mem_cons_of_mem _ hkv', hx⟩

/-- a node is a key of the graph or one of the registered predecessors -/
theorem mem_nodes (g : G) (x : String) (h : x ∈ nodes g) : ∃ kv ∈ g, x = kv.1 ∨ x ∈ kv.2 := by
  rcases mem_nodes_aux g [] x h with h | h
  · cases h
  · exact h

/-- … and it lists ALL nodes: a permutation of the node list -/
theorem staticOrder_perm (g : G) (out : List String) (h : staticOrder g = some out) : out.Perm (nodes g) := by
  obtain ⟨h1, h2, _⟩ := staticOrder_spec g out h
  exact (List.subperm_of_subset h1 h2).perm_of_length_le (by rw [staticOrder_length g out h])

/-! ### no order exists for a cyclic graph: completeness of the cycle detection -/

/-- `a` is registered (transitively) as a predecessor of `b` -/
inductive Before (g : G) : String → String → Prop
  | edge {a b} : (a, b) ∈ edges g → Before g a b
  | trans {a b c} : Before g a b → Before g b c → Before g a c

theorem respects_idx (g : G) : ∀ (todo done : List String), respects g done todo = true → (done ++ todo).Nodup →
    ∀ e ∈ edges g, e.2 ∈ todo → e.1 ∈ done ∨ (e.1 ∈ todo ∧ todo.idxOf e.1 < todo.idxOf e.2)
  | [], _, _, _, _, _, h => by cases h
  | s :: rest, done, hr, hnd, e, he, hmem => by
    simp only [respects, Bool.and_eq_true, List.all_eq_true, Bool.or_eq_true, bne_iff_ne, ne_eq] at hr
    obtain ⟨hs, hrest⟩ := hr
    have hs_notin : s ∉ rest := by
      have := (List.nodup_append.mp hnd).2.1
      exact (List.nodup_cons.mp this).1
    by_cases h2 : e.2 = s
    · left
      rcases hs e he with h | h
      · exact absurd h2 h
      · simpa using h
    · have hmem' : e.2 ∈ rest := by
        rcases List.mem_cons.mp hmem with h | h
        · exact absurd h h2
        · exact h
      have ih := respects_idx g rest (done ++ [s]) hrest (by simpa [List.append_assoc] using hnd) e he hmem'
      rcases ih with h | ⟨h1, h3⟩
      · rcases List.mem_append.mp h with h | h
        · exact Or.inl h
        · right
          have h1s : e.1 = s := by simpa using h
          refine ⟨by simp [h1s], ?_⟩
          rw [h1s, List.idxOf_cons_self]
          rw [List.idxOf_cons_ne _ (fun e' => h2 e'.symm)]
          exact Nat.succ_pos _
      · right
        have hne1 : e.1 ≠ s := by intro e'; rw [e'] at h1; exact hs_notin h1
        refine ⟨List.mem_cons_of_mem _ h1, ?_⟩
        rw [List.idxOf_cons_ne _ (fun e' => hne1 e'.symm), List.idxOf_cons_ne _ (fun e' => h2 e'.symm)]
        exact Nat.succ_lt_succ h3

/-- in ANY duplicate-free list that respects the registrations and contains every node that has a predecessor, the position
    strictly increases along every registration -/
theorem pos_of_respects (g : G) (out : List String) (hnd : out.Nodup) (hr : respects g [] out = true)
    (hall : ∀ e ∈ edges g, e.2 ∈ out) : ∀ a b, Before g a b → out.idxOf a < out.idxOf b := by
  intro a b hab
  induction hab with
  | edge he =>
    rename_i a b
    rcases respects_idx g out [] hr (by simpa using hnd) (a, b) he (hall (a, b) he) with h | ⟨_, h⟩
    · cases h
    · exact h
  | trans _ _ ih1 ih2 => exact Nat.lt_trans ih1 ih2

/-- along every registration the position in the returned order strictly increases -/
theorem staticOrder_pos (g : G) (out : List String) (h : staticOrder g = some out) :
    ∀ a b, Before g a b → out.idxOf a < out.idxOf b := by
  obtain ⟨h1, _, h3⟩ := staticOrder_spec g out h
  have hperm := staticOrder_perm g out h
  exact pos_of_respects g out h1 h3 (fun e he => hperm.mem_iff.mpr (edge_target_mem_nodes g e he))

/-- **a cyclic graph has no static order**: if anything is (transitively) its own predecessor, `static_order` fails -/
theorem staticOrder_none_of_cycle (g : G) (a : String) (hc : Before g a a) : staticOrder g = none := by
  cases h : staticOrder g with
  | none => rfl
  | some out => exact absurd (staticOrder_pos g out h a a hc) (Nat.lt_irrefl _)

/-! ### the sorter never gets stuck on an acyclic graph -/

theorem pred_mem_nodes_aux : ∀ (g : G) (acc : List String), acc.Nodup → ∀ kv ∈ g, ∀ p ∈ kv.2,
    p ∈ g.foldl (fun acc kv => kv.2.foldl addNode (addNode acc kv.1)) acc
  | [], _, _, _, hkv, _, _ => by cases hkv
  | kv0 :: g, acc, hnd, kv, hkv, p, hp => by
    simp only [List.foldl_cons]
    have hnd' := foldl_addNode_nodup kv0.2 (addNode acc kv0.1) (addNode_nodup _ _ hnd)
    rcases List.mem_cons.mp hkv with rfl | hm
    · apply (nodes_aux g _ hnd').2.1
      rw [mem_foldl_addNode]; exact Or.inr hp
    · exact pred_mem_nodes_aux g _ hnd' kv hm p hp

theorem edge_source_mem_nodes (g : G) (e : String × String) (h : e ∈ edges g) : e.1 ∈ nodes g := by
  unfold edges at h
  simp only [List.mem_flatMap, List.mem_map] at h
  obtain ⟨kv, hkv, p, hp, rfl⟩ := h
  exact pred_mem_nodes_aux g [] List.nodup_nil kv hkv p hp

/-- with enough fuel the loop ends in a state with nothing ready -/
theorem loop_ends (g : G) : ∀ (fuel : Nat) (cnt : Dict Nat) (ready acc : List String), Inv g cnt ready acc →
    (nodes g).length < acc.length + fuel →
    ∃ cnt', Inv g cnt' [] (loop g fuel cnt ready acc)
  | 0, cnt, ready, acc, h, hf => by
    exfalso
    have hsub : acc.Subperm (nodes g) :=
      List.subperm_of_subset (List.nodup_append.mp h.nodup).1 (fun x hx => h.sub x (List.mem_append_left _ hx))
    have := hsub.length_le
    omega
  | fuel + 1, cnt, ready, acc, h, hf => by
    simp only [loop]
    split
    · rename_i he
      have : ready = [] := by simpa using he
      subst this
      exact ⟨cnt, h⟩
    · rename_i he
      have hpos : 0 < ready.length := by
        cases ready with
        | nil => simp at he
        | cons _ _ => simp
      exact loop_ends g fuel _ _ _ (inv_step g cnt ready acc h) (by rw [List.length_append]; omega)

/-- in a final state every node that was not output still waits for a predecessor that was not output either -/
theorem stuck_has_pred (g : G) (cnt : Dict Nat) (acc : List String) (h : Inv g cnt [] acc) (s : String)
    (hs : s ∈ nodes g) (hns : s ∉ acc) : ∃ p, p ∈ nodes g ∧ p ∉ acc ∧ (p, s) ∈ edges g := by
  have hnd : acc.Nodup := by simpa using h.nodup
  have hz : cv cnt s ≠ 0 := fun e => hns (by simpa using (h.zero_iff s hs).mpr e)
  have hc := h.cnt_eq s hs
  by_contra hcon
  -- every predecessor of s was output: then all registrations are accounted for and the counter is 0
  have hall : ∀ e ∈ edges g, e.2 = s → e.1 ∈ acc := by
    intro e he hes
    by_contra hne
    exact hcon ⟨e.1, edge_source_mem_nodes g e he, hne, by rw [← hes]; exact he⟩
  have heq : (acc.flatMap (succs g)).count s = npred g s := by
    rw [count_flatMap_succs g s acc hnd, npred_eq]
    apply List.countP_congr
    intro e he
    simp only [Bool.and_eq_true, decide_eq_true_eq]
    exact ⟨fun h => h.2, fun h => ⟨hall e he h, h⟩⟩
  omega

/-- **completeness**: if `static_order()` fails, the graph has a cycle -/
theorem cycle_of_staticOrder_none (g : G) (h : staticOrder g = none) : ∃ a, Before g a a := by
  by_contra hno
  have hno' : ∀ a, ¬ Before g a a := fun a ha => hno ⟨a, ha⟩
  -- the initial state satisfies the invariant
  have hinit : Inv g ((nodes g).map fun n => (n, npred g n)) ((nodes g).filter fun n => npred g n = 0) [] := by
    refine ⟨?_, ?_, ?_, ?_, rfl⟩
    · simpa using (nodes_nodup g).filter _
    · intro x hx
      simp only [List.nil_append, List.mem_filter] at hx
      exact hx.1
    · intro s hs
      simp [cv, get?_map_pair (npred g) (nodes g) s hs]
    · intro s hs
      simp [cv, get?_map_pair (npred g) (nodes g) s hs, hs]
  obtain ⟨cnt', hfin⟩ := loop_ends g ((nodes g).length + 1) _ _ _ hinit (by simp)
  -- the result is shorter than the node list
  unfold staticOrder at h
  simp only at h
  split at h
  · cases h
  · rename_i hlen
    set out := loop g ((nodes g).length + 1) ((nodes g).map fun n => (n, npred g n)) ((nodes g).filter fun n => npred g n = 0) [] with hout
    have hnd : out.Nodup := by simpa using hfin.nodup
    have hsubset : ∀ x ∈ out, x ∈ nodes g := fun x hx => hfin.sub x (by simpa using hx)
    -- some node was not output
    have hex : ∃ s, s ∈ nodes g ∧ s ∉ out := by
      by_contra hall
      have hall' : ∀ s ∈ nodes g, s ∈ out := fun s hs => by
        by_contra hn; exact hall ⟨s, hs, hn⟩
      have h1 := (List.subperm_of_subset hnd hsubset).length_le
      have h2 := (List.subperm_of_subset (nodes_nodup g) hall').length_le
      exact hlen (Nat.le_antisymm h1 h2)
    obtain ⟨s0, hs0, hs0n⟩ := hex
    -- the relation "is (transitively) a predecessor of" on the nodes that were not output is well founded (finite, transitive,
    -- irreflexive by assumption), so it has a minimal element — which nevertheless has a predecessor among them
    let R := (nodes g).filter fun x => x ∉ out
    let r : {x // x ∈ R} → {x // x ∈ R} → Prop := fun x y => Before g x.1 y.1
    have : IsTrans {x // x ∈ R} r := ⟨fun _ _ _ h1 h2 => Before.trans h1 h2⟩
    have : Std.Irrefl r := ⟨fun x hx => hno' x.1 hx⟩
    have : Fintype {x // x ∈ R} := List.Subtype.fintype R
    have : Finite {x // x ∈ R} := Finite.of_fintype _
    have wf : WellFounded r := Finite.wellFounded_of_trans_of_irrefl r
    have hs0R : s0 ∈ R := by simp [R, hs0, hs0n]
    obtain ⟨m, _, hmin⟩ := wf.has_min Set.univ ⟨⟨s0, hs0R⟩, trivial⟩
    have hmR := m.2
    simp only [R, List.mem_filter, decide_eq_true_eq] at hmR
    obtain ⟨p, hp, hpn, hedge⟩ := stuck_has_pred g cnt' out hfin m.1 hmR.1 hmR.2
    have hpR : p ∈ R := by simp [R, hp, hpn]
    exact hmin ⟨p, hpR⟩ trivial (Before.edge hedge)

/-- `static_order()` fails EXACTLY on the graphs with a cycle -/
theorem staticOrder_none_iff (g : G) : staticOrder g = none ↔ ∃ a, Before g a a :=
  ⟨cycle_of_staticOrder_none g, fun ⟨a, h⟩ => staticOrder_none_of_cycle g a h⟩

end Graph

/-! ### `_topological_sort` of an aggregation dictionary -/

theorem Dict.get?_some_mem' {α : Type} (d : Dict α) (k : String) (v : α) (h : d.get? k = some v) : (k, v) ∈ d := by
  induction d with
  | nil => cases h
  | cons x xs ih =>
    obtain ⟨a, w⟩ := x
    simp only [Dict.get?_cons] at h
    by_cases e : a = k
    · simp only [e, if_true, Option.some.injEq] at h; subst h; subst e; simp
    · simp only [e, if_false] at h; exact List.mem_cons_of_mem _ (ih h)

theorem Dict.contains_of_mem {α : Type} (d : Dict α) (k : String) (v : α) (h : (k, v) ∈ d) : d.contains k = true := by
  induction d with
  | nil => cases h
  | cons x xs ih =>
    obtain ⟨a, w⟩ := x
    simp only [Dict.contains, Dict.get?_cons]
    by_cases e : a = k
    · simp [e]
    · simp only [e, if_false]
      rcases List.mem_cons.mp h with h | h
      · simp only [Prod.mk.injEq] at h; exact absurd h.1.symm e
      · exact ih h

def aggGraph (d : AggDict) : Graph.G := d.map fun kv => (kv.1, (kv.2.keys.filter d.contains).eraseDups)

theorem aggOrder_eq (d : AggDict) : aggOrder d = Graph.staticOrder (aggGraph d) := rfl

theorem aggGraph_nodes_are_keys (d : AggDict) (x : String) (h : x ∈ Graph.nodes (aggGraph d)) : d.contains x = true := by
  obtain ⟨kv, hkv, hx⟩ := Graph.mem_nodes _ x h
  simp only [aggGraph, List.mem_map] at hkv
  obtain ⟨e, he, rfl⟩ := hkv
  rcases hx with rfl | hx
  · exact Dict.contains_of_mem d e.1 e.2 he
  · simp only [List.mem_eraseDups, List.mem_filter] at hx
    exact hx.2

theorem topoOK_of_respects (d : AggDict) : ∀ (todo done : List String), (done ++ todo).Nodup →
    (∀ x ∈ todo, d.contains x = true) → Graph.respects (aggGraph d) done todo = true → topoOK d done todo = true
  | [], _, _, _, _ => rfl
  | r :: rest, done, hnd, hkeys, hres => by
    simp only [Graph.respects, Bool.and_eq_true, List.all_eq_true, Bool.or_eq_true, bne_iff_ne, ne_eq] at hres
    obtain ⟨hpreds, hrest⟩ := hres
    have hr_new : r ∉ done := by
      intro hm
      have := List.nodup_append.mp hnd
      exact this.2.2 r hm r (by simp) rfl
    simp only [topoOK, Bool.and_eq_true, Bool.not_eq_true', List.all_eq_true, Bool.or_eq_true]
    refine ⟨⟨⟨by simpa using hr_new, hkeys r (by simp)⟩, fun t ht => ?_⟩,
      topoOK_of_respects d rest (done ++ [r]) (by simpa [List.append_assoc] using hnd)
        (fun x hx => hkeys x (List.mem_cons_of_mem _ hx)) hrest⟩
    cases hc : d.contains t with
    | false => left; rfl
    | true =>
      right
      -- the registration (t, r) is an edge of the graph
      cases hg : d.get? r with
      | none => rw [hg] at ht; simp [Dict.keys] at ht
      | some m =>
        rw [hg] at ht
        simp only [Option.getD_some] at ht
        have hedge : (t, r) ∈ Graph.edges (aggGraph d) := by
          simp only [Graph.edges, aggGraph, List.mem_flatMap, List.mem_map]
          refine ⟨(r, (m.keys.filter d.contains).eraseDups), ⟨(r, m), Dict.get?_some_mem' d r m hg, rfl⟩, t, ?_, rfl⟩
          simp only [List.mem_eraseDups, List.mem_filter]
          exact ⟨ht, hc⟩
        rcases hpreds (t, r) hedge with h | h
        · exact absurd rfl h
        · simpa using h

/-- `r` is decomposed (possibly through several nested entries) into the decomposed resource `t` -/
inductive DecomposesInto (d : AggDict) : String → String → Prop
  | step {r t m} : d.get? r = some m → t ∈ m.keys → d.contains t = true → DecomposesInto d r t
  | trans {r s t} : DecomposesInto d r s → DecomposesInto d s t → DecomposesInto d r t

theorem before_of_decomposesInto (d : AggDict) {r t : String} (h : DecomposesInto d r t) : Graph.Before (aggGraph d) t r := by
  induction h with
  | step hg ht hc =>
    rename_i r t m
    apply Graph.Before.edge
    simp only [Graph.edges, aggGraph, List.mem_flatMap, List.mem_map]
    refine ⟨(r, (m.keys.filter d.contains).eraseDups), ⟨(r, m), Dict.get?_some_mem' d r m hg, rfl⟩, t, ?_, rfl⟩
    simp only [List.mem_eraseDups, List.mem_filter]
    exact ⟨ht, hc⟩
  | trans _ _ ih1 ih2 => exact Graph.Before.trans ih2 ih1

theorem Dict.get?_of_mem_nodup {α : Type} : ∀ (d : Dict α) (k : String) (v : α), d.keys.Nodup → (k, v) ∈ d → d.get? k = some v
  | [], _, _, _, h => by cases h
  | (a, w) :: rest, k, v, hnd, h => by
    simp only [Dict.keys, List.map_cons, List.nodup_cons] at hnd
    rcases List.mem_cons.mp h with h | h
    · simp only [Prod.mk.injEq] at h
      obtain ⟨rfl, rfl⟩ := h
      simp [Dict.get?_cons]
    · have hne : ¬ a = k := by
        intro e; subst e
        exact hnd.1 (List.mem_map.mpr ⟨(a, v), h, rfl⟩)
      simp only [Dict.get?_cons, hne, if_false]
      exact Dict.get?_of_mem_nodup rest k v hnd.2 h

theorem decomposesInto_of_before (d : AggDict) (hk : d.keys.Nodup) {t r : String} (h : Graph.Before (aggGraph d) t r) :
    DecomposesInto d r t := by
  induction h with
  | edge he =>
    rename_i t r
    simp only [Graph.edges, aggGraph, List.mem_flatMap, List.mem_map] at he
    obtain ⟨kv, ⟨e, hed, rfl⟩, p, hp, heq⟩ := he
    simp only [Prod.mk.injEq] at heq
    obtain ⟨rfl, rfl⟩ := heq
    simp only [List.mem_eraseDups, List.mem_filter] at hp
    exact DecomposesInto.step (Dict.get?_of_mem_nodup d e.1 e.2 hk hed) hp.1 hp.2
  | trans _ _ ih1 ih2 => exact DecomposesInto.trans ih2 ih1

/-- `_topological_sort` fails EXACTLY on the cyclic dictionaries -/
theorem aggOrder_none_iff (d : AggDict) (hk : d.keys.Nodup) : aggOrder d = none ↔ ∃ r, DecomposesInto d r r := by
  rw [aggOrder_eq, Graph.staticOrder_none_iff]
  exact ⟨fun ⟨a, h⟩ => ⟨a, decomposesInto_of_before d hk h⟩, fun ⟨r, h⟩ => ⟨r, before_of_decomposesInto d h⟩⟩

/-- **a cyclic dictionary has no expansion order** -/
theorem aggOrder_none_of_cycle (d : AggDict) (r : String) (h : DecomposesInto d r r) : aggOrder d = none := by
  rw [aggOrder_eq]
  exact Graph.staticOrder_none_of_cycle _ r (before_of_decomposesInto d h)

/-- **the order `_topological_sort` returns is a valid expansion order** -/
theorem aggOrder_topoOK (d : AggDict) (order : List String) (h : aggOrder d = some order) : topoOK d [] order = true := by
  rw [aggOrder_eq] at h
  obtain ⟨h1, h2, h3⟩ := Graph.staticOrder_spec _ order h
  exact topoOK_of_respects d order [] (by simpa using h1) (fun x hx => aggGraph_nodes_are_keys d x (h2 x hx)) h3

end Bartiq
