/-
  BartiqProofs.ChildOrderSort — the order `sorted_children_order` produces is, for every listing of the children, an order in
  which no child is fed by a later one (`ValidOrder`): with BartiqProofs/ChildOrder.lean, compilation does not depend on the
  listing.
-/
import BartiqProofs.ChildOrder
import BartiqProofs.SortTreeLemmas
namespace Bartiq
open Dict

theorem respects_pairwise (g : Graph.G) : ∀ (todo done : List String), Graph.respects g done todo = true → (done ++ todo).Nodup →
    todo.Pairwise (fun a b => (b, a) ∉ Graph.edges g)
  | [], _, _, _ => List.Pairwise.nil
  | s :: rest, done, hr, hnd => by
    simp only [Graph.respects, Bool.and_eq_true, List.all_eq_true, Bool.or_eq_true, bne_iff_ne, ne_eq] at hr
    obtain ⟨hs, hrest⟩ := hr
    refine List.Pairwise.cons ?_ (respects_pairwise g rest (done ++ [s]) hrest (by simpa using hnd))
    intro b hb he
    rcases hs (b, s) he with h | h
    · exact h rfl
    · -- b is in `done` and in `rest`: impossible
      have hdis := (List.nodup_append.mp hnd).2.2
      exact hdis b (by simpa using h) b (by simp [hb]) rfl

theorem mem_innerConns {conns : List (Endpoint × Endpoint)} {b a : String} (h : Feeds conns b a) : (b, a) ∈ innerConns conns := by
  obtain ⟨c, hc, h1, h2⟩ := h
  unfold innerConns
  exact List.mem_filterMap.mpr ⟨c, hc, by simp [h1, h2]⟩

theorem edge_of_feeds {names : List String} {conns : List (Endpoint × Endpoint)} {b a : String} (ha : a ∈ names)
    (h : Feeds conns b a) : (b, a) ∈ Graph.edges (childGraph names conns) := by
  simp only [Graph.edges, childGraph, List.mem_flatMap, List.mem_map]
  refine ⟨(a, sortBy (· < ·) (childPreds conns a)), ⟨a, ha, rfl⟩, b, ?_, rfl⟩
  apply (sortBy_perm _).mem_iff.mpr
  unfold childPreds
  apply List.mem_eraseDups.mpr
  exact List.mem_map.mpr ⟨(b, a), List.mem_filter.mpr ⟨mem_innerConns h, by simp⟩, rfl⟩

/-- `ValidOrder` read off the names -/
theorem validOrder_of_names (conns : List (Endpoint × Endpoint)) : ∀ (l : List Routine),
    (l.map (·.name)).Pairwise (fun a b => ¬ Feeds conns b a) → ValidOrder conns l
  | [], _ => trivial
  | a :: l, h => by
    simp only [List.map_cons, List.pairwise_cons] at h
    exact ⟨fun b hb => h.1 b.name (List.mem_map_of_mem hb), validOrder_of_names conns l h.2⟩

theorem reorder_names {α : Type} (name : α → String) (xs : List α) : ∀ (o : List String), (∀ n ∈ o, n ∈ xs.map name) →
    (reorder name xs o).map name = o
  | [], _ => rfl
  | n :: o, h => by
    unfold reorder
    obtain ⟨x, hx, hn⟩ := List.mem_map.mp (h n (by simp))
    cases hf : xs.find? (fun y => name y = n) with
    | none =>
      have := List.find?_eq_none.mp hf x hx
      simp [hn] at this
    | some y =>
      have hy := List.find?_some hf
      simp only [decide_eq_true_eq] at hy
      simp only [List.filterMap_cons, hf, List.map_cons, hy]
      congr 1
      exact reorder_names name xs o (fun m hm => h m (by simp [hm]))

/-- **whatever order the children are listed in, `sorted_children_order` processes them consistently with the wiring**: the
    order it returns never puts a child before one that feeds it -/
theorem sortedChildren_valid (ch : List Routine) (ord o : List String) (conns : List (Endpoint × Endpoint))
    (hn : (ch.map (·.name)).Nodup) (hord : ord.Perm (ch.map (·.name))) (hin : InnerEndpointsIn (ch.map (·.name)) conns)
    (h : sortedChildrenOrder (ch.map (·.name)) ord conns = .ok o) : ValidOrder conns (reorder (·.name) ch o) := by
  have hperm := sortedChildrenOrder_perm _ ord conns o hn hord hin h
  have hond : o.Nodup := hperm.nodup_iff.mpr hn
  have hresp : Graph.respects (childGraph (ch.map (·.name)) conns) [] o = true := by
    rw [sortedChildrenOrder_unfold] at h
    split at h
    · rename_i hscan
      simp only [pure, Except.pure, Except.ok.injEq] at h
      subst h
      exact orderScan_respects _ conns ord [] [] (by simp) hscan
    · cases hs : Graph.staticOrder (childGraph (ch.map (·.name)) conns) with
      | none => rw [hs] at h; simp [throw, throwThe, MonadExceptOf.throw] at h
      | some o' =>
        rw [hs] at h
        simp only [pure, Except.pure, Except.ok.injEq] at h
        subst h
        exact (Graph.staticOrder_spec _ _ hs).2.2
  apply validOrder_of_names
  rw [reorder_names (·.name) ch o (fun n hn' => hperm.mem_iff.mp hn')]
  have hp := respects_pairwise _ o [] hresp (by simpa using hond)
  refine hp.imp_of_mem ?_
  intro a b ha _ hnot hfeeds
  exact hnot (edge_of_feeds (hperm.mem_iff.mp ha) hfeeds)

end Bartiq
