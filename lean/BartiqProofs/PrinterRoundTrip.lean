/-
  What the model printer writes is a phrase of the standard grammar denoting the tree that was printed; with the parser
  theorem this gives print-then-parse = identity on surface trees.
-/
import BartiqModel.Printer
import BartiqProofs.ParserComplete
namespace Bartiq
open Tok

def kindOf : Nat → K
  | 1 => .expr
  | 2 => .term
  | 3 => .factor
  | 4 => .power
  | _ => .atom

mutual
/-- well-formed surface trees: non-negative literals (a sign is a `neg` node), known operators -/
def wfs : SExpr → Bool
  | .num q => decide (0 ≤ q)
  | .name _ => true
  | .neg a => wfs a
  | .pos a => wfs a
  | .bin op a b => (opTok op).isSome && wfs a && wfs b
  | .call _ args => wfsList args
def wfsList : List SExpr → Bool
  | [] => true
  | a :: as => wfs a && wfsList as
end

/-! ### embeddings between phrase kinds -/

theorem atom_to_power {xs t} (h : G .atom xs t) : G .power xs t := .pAtom h
theorem power_to_factor {xs t} (h : G .power xs t) : G .factor xs t := .fPow h
theorem factor_to_term {xs t} (h : G .factor xs t) : G .term xs t := by
  have := G.term h (G.ttNil)
  simpa using this
theorem term_to_expr {xs t} (h : G .term xs t) : G .expr xs t := by
  have := G.expr h (G.etNil)
  simpa using this

theorem lower {xs t} (j k : Nat) (hk : 1 ≤ k) (hkj : k ≤ j) (hj : j ≤ 5) (h : G (kindOf j) xs t) : G (kindOf k) xs t := by
  have h5 : ∀ {xs t}, G (kindOf 5) xs t → G (kindOf 4) xs t := fun h => atom_to_power h
  have h4 : ∀ {xs t}, G (kindOf 4) xs t → G (kindOf 3) xs t := fun h => power_to_factor h
  have h3 : ∀ {xs t}, G (kindOf 3) xs t → G (kindOf 2) xs t := fun h => factor_to_term h
  have h2 : ∀ {xs t}, G (kindOf 2) xs t → G (kindOf 1) xs t := fun h => term_to_expr h
  have hjc : j = 1 ∨ j = 2 ∨ j = 3 ∨ j = 4 ∨ j = 5 := by omega
  have hkc : k = 1 ∨ k = 2 ∨ k = 3 ∨ k = 4 ∨ k = 5 := by omega
  rcases hjc with rfl | rfl | rfl | rfl | rfl <;> rcases hkc with rfl | rfl | rfl | rfl | rfl <;>
    first
    | exact h
    | exact h2 h
    | exact h3 h
    | exact h4 h
    | exact h5 h
    | exact h2 (h3 h)
    | exact h3 (h4 h)
    | exact h4 (h5 h)
    | exact h2 (h3 (h4 h))
    | exact h3 (h4 (h5 h))
    | exact h2 (h3 (h4 (h5 h)))
    | omega

theorem level_bounds (t : SExpr) : 1 ≤ t.level ∧ t.level ≤ 5 := by
  cases t <;> simp [SExpr.level] <;> (try split) <;> (try split) <;> omega

/-- a tree printed at its own level, wrapped when the context needs a higher level, is a phrase of the needed kind -/
theorem wrap_phrase {xs t} (h : G (kindOf t.level) xs t) (k : Nat) (hk1 : 1 ≤ k) (hk5 : k ≤ 5) (b : Bool)
    (hb : t.level < k → b = true) : G (kindOf k) (wrap b xs) t := by
  have hl := level_bounds t
  cases b with
  | true =>
    simp only [wrap, if_true]
    have he : G .expr xs t := lower t.level 1 (Nat.le_refl _) hl.1 hl.2 h
    have ha : G (kindOf 5) (lp :: xs ++ [rp]) t := G.aParen he
    exact lower 5 k hk1 hk5 (Nat.le_refl _) ha
  | false =>
    simp only [wrap, Bool.false_eq_true, if_false]
    have : k ≤ t.level := Nat.le_of_not_lt (fun hc => by have := hb hc; cases this)
    exact lower t.level k hk1 this hl.2 h

/-! ### appending one more operand to a left-associative chain -/

theorem exprTail_snoc_aux {ys b} (op : String) (tok : Tok) (hop : (op = "+" ∧ tok = plus) ∨ (op = "-" ∧ tok = minus))
    (hb : G .term ys b) : ∀ {k zs t}, G k zs t → ∀ acc, k = .exprTail acc → G (.exprTail acc) (zs ++ tok :: ys) (.bin op t b)
  | _, _, _, .etNil (acc := a0), acc, hk => by
    cases hk
    rcases hop with ⟨rfl, rfl⟩ | ⟨rfl, rfl⟩
    · have := G.etPlus (acc := a0) hb G.etNil; simpa using this
    · have := G.etMinus (acc := a0) hb G.etNil; simpa using this
  | _, _, _, .etPlus h1 h2, acc, hk => by
    cases hk
    have := G.etPlus h1 (exprTail_snoc_aux op tok hop hb h2 _ rfl)
    simpa [List.append_assoc] using this
  | _, _, _, .etMinus h1 h2, acc, hk => by
    cases hk
    have := G.etMinus h1 (exprTail_snoc_aux op tok hop hb h2 _ rfl)
    simpa [List.append_assoc] using this
  | _, _, _, .expr _ _, _, hk => by cases hk
  | _, _, _, .term _ _, _, hk => by cases hk
  | _, _, _, .ttNil, _, hk => by cases hk
  | _, _, _, .ttStar _ _, _, hk => by cases hk
  | _, _, _, .ttSlash _ _, _, hk => by cases hk
  | _, _, _, .ttDslash _ _, _, hk => by cases hk
  | _, _, _, .ttPercent _ _, _, hk => by cases hk
  | _, _, _, .fNeg _, _, hk => by cases hk
  | _, _, _, .fPos _, _, hk => by cases hk
  | _, _, _, .fPow _, _, hk => by cases hk
  | _, _, _, .pAtom _, _, hk => by cases hk
  | _, _, _, .pPow _ _, _, hk => by cases hk
  | _, _, _, .aNum, _, hk => by cases hk
  | _, _, _, .aName, _, hk => by cases hk
  | _, _, _, .aParen _, _, hk => by cases hk
  | _, _, _, .aCall _, _, hk => by cases hk

theorem exprTail_snoc {acc zs t ys b} (op : String) (tok : Tok) (hop : (op = "+" ∧ tok = plus) ∨ (op = "-" ∧ tok = minus))
    (hb : G .term ys b) (h : G (.exprTail acc) zs t) : G (.exprTail acc) (zs ++ tok :: ys) (.bin op t b) :=
  exprTail_snoc_aux op tok hop hb h acc rfl

theorem expr_snoc {xs a ys b} (op : String) (tok : Tok) (hop : (op = "+" ∧ tok = plus) ∨ (op = "-" ∧ tok = minus))
    (ha : G .expr xs a) (hb : G .term ys b) : G .expr (xs ++ tok :: ys) (.bin op a b) := by
  cases ha with
  | expr h1 h2 =>
    have := G.expr h1 (exprTail_snoc op tok hop hb h2)
    simpa [List.append_assoc] using this

def termOp (op : String) (tok : Tok) : Prop :=
  (op = "*" ∧ tok = star) ∨ (op = "/" ∧ tok = slash) ∨ (op = "//" ∧ tok = dslash) ∨ (op = "%" ∧ tok = percent)

theorem termTail_snoc_aux {ys b} (op : String) (tok : Tok) (hop : termOp op tok)
    (hb : G .factor ys b) : ∀ {k zs t}, G k zs t → ∀ acc, k = .termTail acc → G (.termTail acc) (zs ++ tok :: ys) (.bin op t b)
  | _, _, _, .ttNil (acc := a0), acc, hk => by
    cases hk
    rcases hop with ⟨rfl, rfl⟩ | ⟨rfl, rfl⟩ | ⟨rfl, rfl⟩ | ⟨rfl, rfl⟩
    · have := G.ttStar (acc := a0) hb G.ttNil; simpa using this
    · have := G.ttSlash (acc := a0) hb G.ttNil; simpa using this
    · have := G.ttDslash (acc := a0) hb G.ttNil; simpa using this
    · have := G.ttPercent (acc := a0) hb G.ttNil; simpa using this
  | _, _, _, .ttStar h1 h2, acc, hk => by
    cases hk
    have := G.ttStar h1 (termTail_snoc_aux op tok hop hb h2 _ rfl); simpa [List.append_assoc] using this
  | _, _, _, .ttSlash h1 h2, acc, hk => by
    cases hk
    have := G.ttSlash h1 (termTail_snoc_aux op tok hop hb h2 _ rfl); simpa [List.append_assoc] using this
  | _, _, _, .ttDslash h1 h2, acc, hk => by
    cases hk
    have := G.ttDslash h1 (termTail_snoc_aux op tok hop hb h2 _ rfl); simpa [List.append_assoc] using this
  | _, _, _, .ttPercent h1 h2, acc, hk => by
    cases hk
    have := G.ttPercent h1 (termTail_snoc_aux op tok hop hb h2 _ rfl); simpa [List.append_assoc] using this
  | _, _, _, .expr _ _, _, hk => by cases hk
  | _, _, _, .etNil, _, hk => by cases hk
  | _, _, _, .etPlus _ _, _, hk => by cases hk
  | _, _, _, .etMinus _ _, _, hk => by cases hk
  | _, _, _, .term _ _, _, hk => by cases hk
  | _, _, _, .fNeg _, _, hk => by cases hk
  | _, _, _, .fPos _, _, hk => by cases hk
  | _, _, _, .fPow _, _, hk => by cases hk
  | _, _, _, .pAtom _, _, hk => by cases hk
  | _, _, _, .pPow _ _, _, hk => by cases hk
  | _, _, _, .aNum, _, hk => by cases hk
  | _, _, _, .aName, _, hk => by cases hk
  | _, _, _, .aParen _, _, hk => by cases hk
  | _, _, _, .aCall _, _, hk => by cases hk

theorem termTail_snoc {acc zs t ys b} (op : String) (tok : Tok) (hop : termOp op tok)
    (hb : G .factor ys b) (h : G (.termTail acc) zs t) : G (.termTail acc) (zs ++ tok :: ys) (.bin op t b) :=
  termTail_snoc_aux op tok hop hb h acc rfl

theorem term_snoc {xs a ys b} (op : String) (tok : Tok) (hop : termOp op tok)
    (ha : G .term xs a) (hb : G .factor ys b) : G .term (xs ++ tok :: ys) (.bin op a b) := by
  cases ha with
  | term h1 h2 =>
    have := G.term h1 (termTail_snoc op tok hop hb h2)
    simpa [List.append_assoc] using this

end Bartiq

namespace Bartiq
open Tok

theorem opTok_cases {op : String} {tok : Tok} (h : opTok op = some tok) :
    (op = "+" ∧ tok = plus) ∨ (op = "-" ∧ tok = minus) ∨ (op = "*" ∧ tok = star) ∨ (op = "/" ∧ tok = slash) ∨
    (op = "//" ∧ tok = dslash) ∨ (op = "%" ∧ tok = percent) ∨ (op = "**" ∧ tok = pow) := by
  unfold opTok at h
  split at h <;> simp_all

mutual
/-- **what is printed reads back as what was printed**: the printed tokens of a well-formed tree are a phrase (at the tree's
    own precedence level) of the standard grammar denoting that tree — for every parenthesisation table -/
theorem print_reads (tbl : ParenTable) : ∀ (t : SExpr), wfs t = true → G (kindOf t.level) (printWith tbl t) t
  | .num q, _ => by simp only [SExpr.level, kindOf, printWith]; exact G.aNum
  | .name s, _ => by simp only [SExpr.level, kindOf, printWith]; exact G.aName
  | .neg a, h => by
    simp only [wfs] at h
    have ih := print_reads tbl a h
    have hf : G (kindOf 3) (wrap (decide (a.level < 3)) (printWith tbl a)) a :=
      wrap_phrase ih 3 (by omega) (by omega) _ (by intro hl; simp [hl])
    simp only [SExpr.level, kindOf, printWith]
    exact G.fNeg hf
  | .pos a, h => by
    simp only [wfs] at h
    have ih := print_reads tbl a h
    have hf : G (kindOf 3) (wrap (decide (a.level < 3)) (printWith tbl a)) a :=
      wrap_phrase ih 3 (by omega) (by omega) _ (by intro hl; simp [hl])
    simp only [SExpr.level, kindOf, printWith]
    exact G.fPos hf
  | .bin op a b, h => by
    simp only [wfs, Bool.and_eq_true, Option.isSome_iff_exists] at h
    obtain ⟨⟨⟨tok, htok⟩, ha⟩, hb⟩ := h
    have iha := print_reads tbl a ha
    have ihb := print_reads tbl b hb
    have hla := level_bounds a
    rcases opTok_cases htok with ⟨rfl, rfl⟩ | ⟨rfl, rfl⟩ | ⟨rfl, rfl⟩ | ⟨rfl, rfl⟩ | ⟨rfl, rfl⟩ | ⟨rfl, rfl⟩ | ⟨rfl, rfl⟩
    · -- a + b
      have hA : G .expr (printWith tbl a) a := lower a.level 1 (Nat.le_refl _) hla.1 hla.2 iha
      have hB : G (kindOf 2) (wrap (decide (b.level < 2)) (printWith tbl b)) b :=
        wrap_phrase ihb 2 (by omega) (by omega) _ (by intro hl; simp [hl])
      have := expr_snoc "+" plus (Or.inl ⟨rfl, rfl⟩) hA hB
      simpa [SExpr.level, kindOf, printWith, opTok] using this
    · -- a - b
      have hA : G .expr (printWith tbl a) a := lower a.level 1 (Nat.le_refl _) hla.1 hla.2 iha
      have hB : G (kindOf 2) (wrap (decide (b.level < 2)) (printWith tbl b)) b :=
        wrap_phrase ihb 2 (by omega) (by omega) _ (by intro hl; simp [hl])
      have := expr_snoc "-" minus (Or.inr ⟨rfl, rfl⟩) hA hB
      simpa [SExpr.level, kindOf, printWith, opTok] using this
    · have hA : G (kindOf 2) (wrap (decide (a.level < 2)) (printWith tbl a)) a :=
        wrap_phrase iha 2 (by omega) (by omega) _ (by intro hl; simp [hl])
      have hB : G (kindOf 3) (wrap (decide (b.level < 3)) (printWith tbl b)) b :=
        wrap_phrase ihb 3 (by omega) (by omega) _ (by intro hl; simp [hl])
      have := term_snoc "*" star (Or.inl ⟨rfl, rfl⟩) hA hB
      simpa [SExpr.level, kindOf, printWith, opTok] using this
    · have hA : G (kindOf 2) (wrap (decide (a.level < 2)) (printWith tbl a)) a :=
        wrap_phrase iha 2 (by omega) (by omega) _ (by intro hl; simp [hl])
      have hB : G (kindOf 3) (wrap (decide (b.level < 3)) (printWith tbl b)) b :=
        wrap_phrase ihb 3 (by omega) (by omega) _ (by intro hl; simp [hl])
      have := term_snoc "/" slash (Or.inr (Or.inl ⟨rfl, rfl⟩)) hA hB
      simpa [SExpr.level, kindOf, printWith, opTok] using this
    · have hA : G (kindOf 2) (wrap (decide (a.level < 2)) (printWith tbl a)) a :=
        wrap_phrase iha 2 (by omega) (by omega) _ (by intro hl; simp [hl])
      have hB : G (kindOf 3) (wrap (decide (b.level < 3)) (printWith tbl b)) b :=
        wrap_phrase ihb 3 (by omega) (by omega) _ (by intro hl; simp [hl])
      have := term_snoc "//" dslash (Or.inr (Or.inr (Or.inl ⟨rfl, rfl⟩))) hA hB
      simpa [SExpr.level, kindOf, printWith, opTok] using this
    · have hA : G (kindOf 2) (wrap (decide (a.level < 2)) (printWith tbl a)) a :=
        wrap_phrase iha 2 (by omega) (by omega) _ (by intro hl; simp [hl])
      have hB : G (kindOf 3) (wrap (decide (b.level < 3)) (printWith tbl b)) b :=
        wrap_phrase ihb 3 (by omega) (by omega) _ (by intro hl; simp [hl])
      have := term_snoc "%" percent (Or.inr (Or.inr (Or.inr ⟨rfl, rfl⟩))) hA hB
      simpa [SExpr.level, kindOf, printWith, opTok] using this
    · -- a ** b
      have hA : G (kindOf 5) (wrap (tbl.paren "powBase" a.cls || decide (a.level < 5)) (printWith tbl a)) a :=
        wrap_phrase iha 5 (by omega) (by omega) _ (by intro hl; simp [hl])
      have hB : G (kindOf 3) (wrap (tbl.paren "powExp" b.cls || decide (b.level < 3)) (printWith tbl b)) b :=
        wrap_phrase ihb 3 (by omega) (by omega) _ (by intro hl; simp [hl])
      have := G.pPow hA hB
      simpa [SExpr.level, kindOf, printWith] using this
  | .call f args, h => by
    simp only [wfs] at h
    have := printArgs_reads tbl args h
    simp only [SExpr.level, kindOf, printWith]
    exact G.aCall this
theorem printArgs_reads (tbl : ParenTable) : ∀ (args : List SExpr), wfsList args = true → GA .args (printArgs tbl args) args
  | [], _ => by simp only [printArgs]; exact GA.argsNil
  | a :: rest, h => by
    simp only [wfsList, Bool.and_eq_true] at h
    have ha := print_reads tbl a h.1
    have hl := level_bounds a
    have hA : G .expr (printWith tbl a) a := lower a.level 1 (Nat.le_refl _) hl.1 hl.2 ha
    have ht := printArgsTail_reads tbl rest [a] h.2
    simp only [printArgs]
    have := GA.argsCons hA ht
    simpa using this
theorem printArgsTail_reads (tbl : ParenTable) : ∀ (rest : List SExpr) (acc : List SExpr), wfsList rest = true →
    GA (.argsTail acc) (printArgsTail tbl rest) (acc ++ rest)
  | [], acc, _ => by simp only [printArgsTail, List.append_nil]; exact GA.atEnd
  | b :: rest, acc, h => by
    simp only [wfsList, Bool.and_eq_true] at h
    have hb := print_reads tbl b h.1
    have hl := level_bounds b
    have hB : G .expr (printWith tbl b) b := lower b.level 1 (Nat.le_refl _) hl.1 hl.2 hb
    have ht := printArgsTail_reads tbl rest (acc ++ [b]) h.2
    simp only [printArgsTail]
    have := GA.atComma (acc := acc) hB ht
    simpa [List.append_assoc] using this
end

/-- print then read = identity (as a standard reading) -/
theorem print_is_read (tbl : ParenTable) (t : SExpr) (h : wfs t = true) : Reads (printWith tbl t) t := by
  have hl := level_bounds t
  exact lower t.level 1 (Nat.le_refl _) hl.1 hl.2 (print_reads tbl t h)

/-- print then PARSE = identity -/
theorem parse_print (tbl : ParenTable) (t : SExpr) (h : wfs t = true) : parseToks (printWith tbl t) = some t :=
  parseToks_complete (print_is_read tbl t h)

end Bartiq
