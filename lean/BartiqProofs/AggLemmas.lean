/-
  Lemmas about the dictionary expansion of `transform._expand_resource` / `_expand_aggregation_dict`
  (BartiqModel/Aggregate.lean), read in an arbitrary commutative semiring.
-/
import BartiqModel.Aggregate
import BartiqProofs.ExprLemmas
import Mathlib.Algebra.Ring.Defs
import Mathlib.Algebra.BigOperators.Group.List.Basic
import Mathlib.Tactic.Ring
namespace Bartiq

variable {R : Type} [CommSemiring R]

/-- an interpretation of expressions that respects + and × -/
structure RingEval (ev : Expr → R) : Prop where
  add : ∀ a b, ev (.bin .add a b) = ev a + ev b
  mul : ∀ a b, ev (.bin .mul a b) = ev a * ev b

/-- the multiplier a mapping gives to target `b` (0 when `b` is not a target) -/
def dval (ev : Expr → R) (m : Dict Expr) (b : String) : R :=
  match m.get? b with
  | some e => ev e
  | none => 0

namespace Dict
variable {α : Type}

theorem get?_erase (d : Dict α) (k k' : String) : (d.erase k).get? k' = if k = k' then none else d.get? k' := by
  induction d with
  | nil => simp [erase]
  | cons x xs ih =>
    obtain ⟨a, v⟩ := x
    simp only [erase, List.filter_cons] at ih ⊢
    by_cases ha : a = k
    · subst ha
      simp only [ne_eq, not_true_eq_false, decide_false, Bool.false_eq_true, if_false]
      rw [ih]
      by_cases hk : a = k'
      · simp [hk]
      · simp [hk, get?_cons]
    · simp only [ne_eq, ha, not_false_eq_true, decide_true, if_true, get?_cons]
      by_cases hk : a = k'
      · subst hk; simp [Ne.symm ha]
      · simp only [hk, if_false]; exact ih

end Dict

/-- sum of the multipliers of the entries of `sub` whose target is `b` -/
def entrySum (ev : Expr → R) (sub : Dict Expr) (b : String) : R :=
  ((sub.filter (fun sm => sm.1 = b)).map (fun sm => ev sm.2)).sum

theorem entrySum_nil (ev : Expr → R) (b : String) : entrySum ev [] b = 0 := by simp [entrySum]

theorem entrySum_cons (ev : Expr → R) (k : String) (e : Expr) (rest : Dict Expr) (b : String) :
    entrySum ev ((k, e) :: rest) b = (if k = b then ev e else 0) + entrySum ev rest b := by
  unfold entrySum
  by_cases h : k = b <;> simp [List.filter_cons, h]

theorem dval_set (ev : Expr → R) (m : Dict Expr) (k : String) (v : Expr) (b : String) :
    dval ev (m.set k v) b = if k = b then ev v else dval ev m b := by
  unfold dval
  rw [Dict.get?_set]
  by_cases h : k = b <;> simp [h]

/-- the inner loop for one `current` target: every target of `sub` receives (multiplier of `current`) × (its multiplier in
    `sub`); nothing else changes — provided `current` itself is not a target of `sub` -/
theorem expandInto_spec (ev : Expr → R) (hev : RingEval ev) (cur : String) (c : Expr) :
    ∀ (sub : Dict Expr) (m : Dict Expr), m.get? cur = some c → cur ∉ sub.keys →
      (expandInto m cur sub).get? cur = some c ∧
      (∀ k, k ∉ sub.keys → (expandInto m cur sub).get? k = m.get? k) ∧
      (∀ b, dval ev (expandInto m cur sub) b = dval ev m b + ev c * entrySum ev sub b)
  | [], m, hm, _ => by
    refine ⟨hm, fun _ _ => rfl, fun b => ?_⟩
    simp [expandInto, entrySum_nil]
  | (k, e) :: rest, m, hm, hc => by
    have hkc : k ≠ cur := by intro h; exact hc (by simp [Dict.keys, h])
    have hrest : cur ∉ Dict.keys rest := by intro h; exact hc (by simp only [Dict.keys, List.map_cons, List.mem_cons]; right; exact h)
    -- one step of the fold
    let m' : Dict Expr := match m.get? k with
      | some old => m.set k (.bin .add old (.bin .mul c e))
      | none => m.set k (.bin .mul c e)
    have hstep : expandInto m cur ((k, e) :: rest) = expandInto m' cur rest := by
      simp only [expandInto, List.foldl_cons, hm, Option.getD_some]
      rfl
    have hm' : m'.get? cur = some c := by
      show (match m.get? k with
        | some old => m.set k (.bin .add old (.bin .mul c e))
        | none => m.set k (.bin .mul c e)).get? cur = some c
      cases m.get? k <;> simp [Dict.get?_set, hkc, hm]
    have hother : ∀ k', k' ≠ k → m'.get? k' = m.get? k' := by
      intro k' hk'
      show (match m.get? k with
        | some old => m.set k (.bin .add old (.bin .mul c e))
        | none => m.set k (.bin .mul c e)).get? k' = m.get? k'
      cases m.get? k <;> simp [Dict.get?_set, Ne.symm hk']
    have hval : ∀ b, dval ev m' b = dval ev m b + (if k = b then ev c * ev e else 0) := by
      intro b
      show dval ev (match m.get? k with
        | some old => m.set k (.bin .add old (.bin .mul c e))
        | none => m.set k (.bin .mul c e)) b = _
      cases hk : m.get? k with
      | some old =>
        simp only [dval_set]
        by_cases hb : k = b
        · subst hb; simp [dval, hk, hev.add, hev.mul]
        · simp [hb]
      | none =>
        simp only [dval_set]
        by_cases hb : k = b
        · subst hb; simp [dval, hk, hev.mul]
        · simp [hb]
    obtain ⟨i1, i2, i3⟩ := expandInto_spec ev hev cur c rest m' hm' hrest
    rw [hstep]
    refine ⟨i1, fun k' hk' => ?_, fun b => ?_⟩
    · have hk1 : k' ≠ k := by intro h; exact hk' (by simp [Dict.keys, h])
      have hk2 : k' ∉ Dict.keys rest := by intro h; exact hk' (by simp only [Dict.keys, List.map_cons, List.mem_cons]; right; exact h)
      rw [i2 k' hk2, hother k' hk1]
    · rw [i3 b, hval b, entrySum_cons]
      by_cases hb : k = b <;> simp [hb] <;> ring

/-! ### `_expand_resource` -/

namespace Dict
variable {α : Type}
theorem get?_isSome_of_mem_keys (d : Dict α) (k : String) (h : k ∈ d.keys) : ∃ v, d.get? k = some v := by
  induction d with
  | nil => simp [keys] at h
  | cons x xs ih =>
    obtain ⟨a, v⟩ := x
    simp only [keys, List.map_cons, List.mem_cons] at h
    by_cases ha : a = k
    · exact ⟨v, by simp [get?_cons, ha]⟩
    · rcases h with h | h
      · exact absurd h.symm ha
      · obtain ⟨w, hw⟩ := ih h
        exact ⟨w, by simp [get?_cons, ha, hw]⟩

theorem get?_none_of_not_mem_keys (d : Dict α) (k : String) (h : k ∉ d.keys) : d.get? k = none := by
  induction d with
  | nil => rfl
  | cons x xs ih =>
    obtain ⟨a, v⟩ := x
    simp only [keys, List.map_cons, List.mem_cons, not_or] at h
    have : ¬ a = k := fun e => h.1 e.symm
    simp only [get?_cons, this, if_false]
    exact ih h.2
end Dict

/-- what the expanded dictionary built so far must satisfy: it only has entries for decomposed resources, and their targets
    are base resources (never decomposed themselves) -/
structure ExpandedOK (d E : AggDict) : Prop where
  keysOf : ∀ cur sub, E.get? cur = some sub → d.contains cur = true
  base : ∀ cur sub, E.get? cur = some sub → ∀ k ∈ sub.keys, d.contains k = false

/-- one iteration of the outer loop of `_expand_resource` -/
def erStep (d E : AggDict) (m : Dict Expr) (cur : String) : Dict Expr :=
  let m := expandInto m cur ((E.get? cur).getD [])
  if d.contains cur then m.erase cur else m

theorem expandResource_eq (d E : AggDict) (r : String) :
    expandResource d E r = ((d.get? r).getD []).keys.foldl (erStep d E) ((d.get? r).getD []) := rfl

/-- contributions of the decomposed targets in `ks` (multipliers read in `m`) to the base resource `b` -/
def contrib (ev : Expr → R) (d E : AggDict) (m : Dict Expr) (ks : List String) (b : String) : R :=
  ((ks.filter fun cur => d.contains cur).map fun cur => dval ev m cur * entrySum ev ((E.get? cur).getD []) b).sum

theorem contrib_congr (ev : Expr → R) (d E : AggDict) (m m' : Dict Expr) (ks : List String) (b : String)
    (h : ∀ k ∈ ks, d.contains k = true → dval ev m k = dval ev m' k) : contrib ev d E m ks b = contrib ev d E m' ks b := by
  unfold contrib
  congr 1
  apply List.map_congr_left
  intro k hk
  rw [List.mem_filter] at hk
  rw [h k hk.1 (by simpa using hk.2)]

theorem erFold_spec (ev : Expr → R) (hev : RingEval ev) (d E : AggDict) (hE : ExpandedOK d E) :
    ∀ (ks : List String) (m : Dict Expr), ks.Nodup → (∀ k ∈ ks, d.contains k = true → ∃ c, m.get? k = some c) →
      (∀ b, d.contains b = false → dval ev (ks.foldl (erStep d E) m) b = dval ev m b + contrib ev d E m ks b) ∧
      (∀ k, d.contains k = true → k ∈ ks → (ks.foldl (erStep d E) m).get? k = none) ∧
      (∀ k, d.contains k = true → k ∉ ks → (ks.foldl (erStep d E) m).get? k = m.get? k)
  | [], m, _, _ => by
    refine ⟨fun b _ => (by simp [contrib]), fun k _ hk => (by cases hk), fun k _ _ => rfl⟩
  | cur :: rest, m, hnd, hsome => by
    have hnd' : rest.Nodup := (List.nodup_cons.mp hnd).2
    have hcr : cur ∉ rest := (List.nodup_cons.mp hnd).1
    simp only [List.foldl_cons]
    by_cases hc : d.contains cur = true
    · -- a decomposed target: expand it, then delete it
      obtain ⟨c, hmc⟩ := hsome cur (by simp) hc
      have hsubkeys : ∀ k ∈ Dict.keys ((E.get? cur).getD []), d.contains k = false := by
        cases hg : E.get? cur with
        | none => intro k hk; simp [Dict.keys] at hk
        | some sub => intro k hk; exact hE.base cur sub hg k (by simpa using hk)
      have hcs : cur ∉ Dict.keys ((E.get? cur).getD []) := by
        intro h; have := hsubkeys cur h; rw [hc] at this; cases this
      obtain ⟨e1, e2, e3⟩ := expandInto_spec ev hev cur c ((E.get? cur).getD []) m hmc hcs
      have hstep : erStep d E m cur = (expandInto m cur ((E.get? cur).getD [])).erase cur := by
        simp only [erStep, hc, if_true]
      have hkeep : ∀ k, d.contains k = true → k ≠ cur → (erStep d E m cur).get? k = m.get? k := by
        intro k hk hne
        rw [hstep, Dict.get?_erase]
        simp only [Ne.symm hne, if_false]
        exact e2 k (by intro h; have := hsubkeys k h; rw [hk] at this; cases this)
      obtain ⟨i1, i2, i3⟩ := erFold_spec ev hev d E hE rest (erStep d E m cur) hnd' (by
        intro k hk hkd
        have hne : k ≠ cur := by intro e; subst e; exact hcr hk
        rw [hkeep k hkd hne]
        exact hsome k (by simp [hk]) hkd)
      refine ⟨fun b hb => ?_, fun k hk hmem => ?_, fun k hk hnot => ?_⟩
      · have hbc : cur ≠ b := by intro e; subst e; rw [hc] at hb; cases hb
        have h1 : dval ev (erStep d E m cur) b = dval ev m b + ev c * entrySum ev ((E.get? cur).getD []) b := by
          rw [← e3 b]; unfold dval; rw [hstep, Dict.get?_erase]; simp [hbc]
        have h2 : contrib ev d E (erStep d E m cur) rest b = contrib ev d E m rest b :=
          contrib_congr ev d E _ _ rest b (by
            intro k hk hkd
            have hne : k ≠ cur := by intro e; subst e; exact hcr hk
            unfold dval; rw [hkeep k hkd hne])
        rw [i1 b hb, h1, h2]
        have h3 : contrib ev d E m (cur :: rest) b = ev c * entrySum ev ((E.get? cur).getD []) b + contrib ev d E m rest b := by
          unfold contrib
          simp only [List.filter_cons, hc, if_true, List.map_cons, List.sum_cons]
          congr 1
          simp [dval, hmc]
        rw [h3]; ring
      · simp only [List.mem_cons] at hmem
        by_cases hkc : k = cur
        · subst hkc
          rw [i3 k hk hcr, hstep, Dict.get?_erase]; simp
        · rcases hmem with h | h
          · exact absurd h hkc
          · exact i2 k hk h
      · simp only [List.mem_cons, not_or] at hnot
        rw [i3 k hk hnot.2, hkeep k hk hnot.1]
    · -- a base target: nothing happens
      have hc' : d.contains cur = false := by simpa using hc
      have hnone : E.get? cur = none := by
        cases hg : E.get? cur with
        | none => rfl
        | some sub => have := hE.keysOf cur sub hg; rw [hc'] at this; cases this
      have hstep : erStep d E m cur = m := by
        simp [erStep, hc', hnone, expandInto]
      rw [hstep]
      obtain ⟨i1, i2, i3⟩ := erFold_spec ev hev d E hE rest m hnd' (fun k hk hkd => hsome k (by simp [hk]) hkd)
      refine ⟨fun b hb => ?_, fun k hk hmem => ?_, fun k hk hnot => ?_⟩
      · rw [i1 b hb]
        congr 1
        unfold contrib
        simp [List.filter_cons, hc']
      · simp only [List.mem_cons] at hmem
        rcases hmem with h | h
        · subst h; rw [hc'] at hk; cases hk
        · exact i2 k hk h
      · simp only [List.mem_cons, not_or] at hnot
        exact i3 k hk hnot.2

/-- **`_expand_resource`**: the expanded mapping of `r` gives every base resource `b` its direct multiplier plus, for every
    decomposed target `t` of `r`, (multiplier of `t`) × (what the already expanded `t` gives `b`); no decomposed resource is left
    as a target -/
theorem expandResource_spec (ev : Expr → R) (hev : RingEval ev) (d E : AggDict) (hE : ExpandedOK d E) (r : String)
    (hnd : ((d.get? r).getD []).keys.Nodup) :
    (∀ b, d.contains b = false →
      dval ev (expandResource d E r) b =
        dval ev ((d.get? r).getD []) b + contrib ev d E ((d.get? r).getD []) ((d.get? r).getD []).keys b) ∧
    (∀ k, d.contains k = true → (expandResource d E r).get? k = none) := by
  obtain ⟨i1, i2, i3⟩ := erFold_spec ev hev d E hE ((d.get? r).getD []).keys ((d.get? r).getD []) hnd
    (fun k hk _ => Dict.get?_isSome_of_mem_keys _ k hk)
  rw [expandResource_eq]
  refine ⟨i1, fun k hk => ?_⟩
  by_cases hmem : k ∈ ((d.get? r).getD []).keys
  · exact i2 k hk hmem
  · rw [i3 k hk hmem]; exact Dict.get?_none_of_not_mem_keys _ k hmem

/-! ### keys stay distinct -/

namespace Dict
variable {α : Type}
theorem keys_set (d : Dict α) (k : String) (v : α) : (d.set k v).keys = if k ∈ d.keys then d.keys else d.keys ++ [k] := by
  induction d with
  | nil => simp [set, keys]
  | cons x xs ih =>
    obtain ⟨a, w⟩ := x
    simp only [set]
    by_cases h : a = k
    · subst h; simp [keys]
    · have hk : ¬ k = a := fun e => h e.symm
      simp only [h, if_false]
      simp only [keys, List.map_cons, List.mem_cons, hk, false_or] at ih ⊢
      rw [ih]
      split <;> rename_i hmem <;> simp [hmem]

theorem nodup_keys_set (d : Dict α) (k : String) (v : α) (h : d.keys.Nodup) : (d.set k v).keys.Nodup := by
  rw [keys_set]
  split
  · exact h
  · rename_i hk
    exact List.nodup_append.mpr ⟨h, by simp, by intro a ha b hb; simp at hb; subst hb; intro e; subst e; exact hk ha⟩

theorem nodup_keys_erase (d : Dict α) (k : String) (h : d.keys.Nodup) : (d.erase k).keys.Nodup := by
  unfold erase keys at *
  exact (List.Nodup.sublist (List.Sublist.map _ List.filter_sublist) h)
end Dict

theorem expandInto_nodup (cur : String) : ∀ (sub m : Dict Expr), m.keys.Nodup → (expandInto m cur sub).keys.Nodup
  | [], m, h => h
  | (k, e) :: rest, m, h => by
    simp only [expandInto, List.foldl_cons]
    apply expandInto_nodup cur rest
    split <;> exact Dict.nodup_keys_set _ _ _ h

theorem erStep_nodup (d E : AggDict) (m : Dict Expr) (cur : String) (h : m.keys.Nodup) : (erStep d E m cur).keys.Nodup := by
  unfold erStep
  simp only
  split
  · exact Dict.nodup_keys_erase _ _ (expandInto_nodup cur _ m h)
  · exact expandInto_nodup cur _ m h

theorem expandResource_nodup (d E : AggDict) (r : String) (h : ((d.get? r).getD []).keys.Nodup) :
    (expandResource d E r).keys.Nodup := by
  rw [expandResource_eq]
  generalize ((d.get? r).getD []).keys = ks
  generalize ((d.get? r).getD []) = m at h
  induction ks generalizing m with
  | nil => exact h
  | cons k ks ih => exact ih _ (erStep_nodup d E m k h)

theorem entrySum_eq_dval (ev : Expr → R) : ∀ (m : Dict Expr), m.keys.Nodup → ∀ b, entrySum ev m b = dval ev m b
  | [], _, b => by simp [entrySum, dval]
  | (k, e) :: rest, h, b => by
    have hk : k ∉ Dict.keys rest := by
      simp only [Dict.keys, List.map_cons, List.nodup_cons] at h; exact h.1
    have hr : (Dict.keys rest).Nodup := by
      simp only [Dict.keys, List.map_cons, List.nodup_cons] at h; exact h.2
    rw [entrySum_cons, entrySum_eq_dval ev rest hr b]
    unfold dval
    by_cases hb : k = b
    · subst hb
      simp [Dict.get?_cons, Dict.get?_none_of_not_mem_keys rest k hk]
    · simp [Dict.get?_cons, hb]

/-! ### `_expand_aggregation_dict`: the expanded weights satisfy the path-sum recurrence -/

/-- Σ over the decomposed targets `t` of `r` of (multiplier of `t` in `d[r]`) × (what the expanded `t` gives `b`) -/
def viaDecomposed (ev : Expr → R) (d E : AggDict) (r b : String) : R :=
  ((((d.get? r).getD []).keys.filter fun t => d.contains t).map
    fun t => dval ev ((d.get? r).getD []) t * dval ev ((E.get? t).getD []) b).sum

/-- the expanded mapping of `r` is final: distinct targets, all of them base resources, and each base resource `b` weighted by
    the PATH-SUM RECURRENCE  W(r,b) = w(r,b) + Σ_t w(r,t) · W(t,b)  (t ranging over the decomposed targets of r) -/
def Expanded (ev : Expr → R) (d E : AggDict) (r : String) : Prop :=
  ∃ m, E.get? r = some m ∧ m.keys.Nodup ∧ (∀ k, d.contains k = true → m.get? k = none) ∧
    ∀ b, d.contains b = false → dval ev m b = dval ev ((d.get? r).getD []) b + viaDecomposed ev d E r b

def expStep (d : AggDict) (E : AggDict) (r : String) : AggDict := E.set r (expandResource d E r)

theorem expandAggregation_eq (d : AggDict) (order : List String) (h : aggOrder d = some order) :
    expandAggregation d = .ok (order.foldl (expStep d) []) := by
  unfold expandAggregation; rw [h]; rfl

theorem expFold_spec (ev : Expr → R) (hev : RingEval ev) (d : AggDict)
    (hD : ∀ r, ((d.get? r).getD []).keys.Nodup) :
    ∀ (todo done : List String) (E : AggDict), topoOK d done todo = true →
      (∀ r ∈ done, Expanded ev d E r) → (∀ r m, E.get? r = some m → r ∈ done) →
      (∀ r ∈ done, d.contains r = true ∧ ∀ t ∈ ((d.get? r).getD []).keys, d.contains t = true → t ∈ done) →
      (∀ r ∈ done ++ todo, Expanded ev d (todo.foldl (expStep d) E) r)
  | [], done, E, _, hG, _, _ => by simpa using hG
  | r :: rest, done, E, htopo, hG, hdom, hdone => by
    simp only [topoOK, Bool.and_eq_true, Bool.not_eq_true', List.all_eq_true, Bool.or_eq_true] at htopo
    obtain ⟨⟨⟨hr_new, hr_key⟩, hr_targets⟩, hrest⟩ := htopo
    have hr_new' : r ∉ done := by simpa using hr_new
    have htg : ∀ t ∈ ((d.get? r).getD []).keys, d.contains t = true → t ∈ done := by
      intro t ht hk
      rcases hr_targets t ht with h | h
      · rw [hk] at h; cases h
      · simpa using h
    -- the dictionary built so far is as `_expand_resource` needs it
    have hE : ExpandedOK d E := by
      refine ⟨fun cur sub hg => (hdone cur (hdom cur sub hg)).1, fun cur sub hg k hk => ?_⟩
      obtain ⟨m, hm, _, hbase, _⟩ := hG cur (hdom cur sub hg)
      rw [hg] at hm; cases hm
      cases hc : d.contains k with
      | false => rfl
      | true =>
        obtain ⟨v, hv⟩ := Dict.get?_isSome_of_mem_keys sub k hk
        rw [hbase k hc] at hv; cases hv
    obtain ⟨s1, s2⟩ := expandResource_spec ev hev d E hE r (hD r)
    -- the step keeps what was expanded and adds `r`
    have hget : ∀ k, (expStep d E r).get? k = if r = k then some (expandResource d E r) else E.get? k := by
      intro k; unfold expStep; rw [Dict.get?_set]
    have hvia : ∀ r' b, (∀ t ∈ ((d.get? r').getD []).keys, d.contains t = true → t ≠ r) →
        viaDecomposed ev d (expStep d E r) r' b = viaDecomposed ev d E r' b := by
      intro r' b hne
      unfold viaDecomposed
      congr 1
      apply List.map_congr_left
      intro t ht
      rw [List.mem_filter] at ht
      have : ¬ r = t := fun e => hne t ht.1 (by simpa using ht.2) e.symm
      rw [hget t]; simp [this]
    have hG' : ∀ r' ∈ done ++ [r], Expanded ev d (expStep d E r) r' := by
      intro r' hr'
      simp only [List.mem_append, List.mem_singleton] at hr'
      rcases hr' with hr' | rfl
      · obtain ⟨m, hm, hn, hb, hv⟩ := hG r' hr'
        have hne : ¬ r = r' := by intro e; subst e; exact hr_new' hr'
        refine ⟨m, by rw [hget r']; simp [hne, hm], hn, hb, fun b hbb => ?_⟩
        rw [hv b hbb, hvia r' b (fun t ht hk e => by subst e; exact hr_new' ((hdone r' hr').2 t ht hk))]
      · refine ⟨expandResource d E r', by rw [hget r']; simp, expandResource_nodup d E r' (hD r'), s2, fun b hbb => ?_⟩
        rw [s1 b hbb, hvia r' b (fun t ht hk e => by subst e; exact hr_new' (htg t ht hk))]
        congr 1
        unfold contrib viaDecomposed
        congr 1
        apply List.map_congr_left
        intro t ht
        rw [List.mem_filter] at ht
        have htd : t ∈ done := htg t ht.1 (by simpa using ht.2)
        obtain ⟨mt, hmt, hnt, _, _⟩ := hG t htd
        rw [hmt]
        simp only [Option.getD_some]
        rw [entrySum_eq_dval ev mt hnt b]
    have := expFold_spec ev hev d hD rest (done ++ [r]) (expStep d E r) hrest hG'
      (by
        intro k m hk
        rw [hget k] at hk
        by_cases e : r = k
        · subst e; simp
        · simp only [e, if_false] at hk
          exact List.mem_append_left _ (hdom k m hk))
      (by
        intro r' hr'
        simp only [List.mem_append, List.mem_singleton] at hr'
        rcases hr' with hr' | rfl
        · exact ⟨(hdone r' hr').1, fun t ht hk => List.mem_append_left _ ((hdone r' hr').2 t ht hk)⟩
        · exact ⟨hr_key, fun t ht hk => List.mem_append_left _ (htg t ht hk)⟩)
    simpa [List.foldl_cons, List.append_assoc] using this

end Bartiq
