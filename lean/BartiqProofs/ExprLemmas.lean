/-
  Layer A — lemmas about expressions, substitution and evaluation (core Lean only).
-/
import BartiqModel.Basic
namespace Bartiq
open Expr

namespace Dict
variable {α β : Type}

@[simp] theorem get?_nil (k : String) : get? ([] : Dict α) k = none := rfl

theorem get?_cons (x : String × α) (t : Dict α) (k : String) :
    get? (x :: t) k = if x.1 = k then some x.2 else get? t k := by
  obtain ⟨a, b⟩ := x; rfl

theorem get?_set (d : Dict α) (k : String) (v : α) (k' : String) :
    get? (set d k v) k' = if k = k' then some v else get? d k' := by
  induction d with
  | nil => simp [set, get?_cons]
  | cons x xs ih =>
    obtain ⟨a, b⟩ := x
    simp only [set]
    by_cases h : a = k
    · subst h
      by_cases h2 : a = k' <;> simp [get?_cons, h2]
    · simp only [h, if_false, get?_cons]
      by_cases h2 : a = k'
      · subst h2
        have : ¬ k = a := fun e => h e.symm
        simp [this]
      · simp [h2, ih]

theorem get?_append_single (l : Dict α) (x : String × α) (k : String) :
    get? (l ++ [x]) k = match get? l k with | some v => some v | none => (if x.1 = k then some x.2 else none) := by
  induction l with
  | nil => simp [get?_cons]
  | cons y ys ihy =>
    simp only [List.cons_append, get?_cons]
    by_cases hy : y.1 = k
    · simp [hy]
    · simp only [hy, if_false]; exact ihy

theorem get?_foldl_set (b : Dict α) (a : Dict α) (k : String) :
    get? (b.foldl (fun acc kv => acc.set kv.1 kv.2) a) k =
      match get? b.reverse k with
      | some v => some v
      | none => get? a k := by
  induction b generalizing a with
  | nil => simp
  | cons x xs ih =>
    simp only [List.foldl_cons, List.reverse_cons]
    rw [ih, get?_append_single]
    cases h : get? xs.reverse k with
    | some v => simp
    | none =>
      simp only [get?_set]
      by_cases hx : x.1 = k <;> simp [hx]

/-- the value `{**a, **b}` gives to a key: the LAST binding in `b` wins, otherwise `a`'s -/
theorem get?_merge (a b : Dict α) (k : String) :
    get? (merge a b) k = match get? b.reverse k with | some v => some v | none => get? a k := by
  unfold merge; exact get?_foldl_set b a k

theorem get?_mapVal (f : α → β) (d : Dict α) (k : String) : get? (mapVal f d) k = (get? d k).map f := by
  induction d with
  | nil => rfl
  | cons x xs ih =>
    have : mapVal f (x :: xs) = (x.1, f x.2) :: mapVal f xs := rfl
    rw [this, get?_cons, get?_cons]
    by_cases h : x.1 = k
    · simp [h]
    · simp only [h, if_false]; exact ih

theorem get?_erase_ite (d : Dict α) (k x : String) : get? (erase d k) x = if x = k then none else get? d x := by
  induction d with
  | nil => simp [erase]
  | cons kv t ih =>
    obtain ⟨k0, v0⟩ := kv
    unfold erase at ih ⊢
    by_cases hk : k0 = k
    · subst hk
      have : List.filter (fun kv : String × α => decide (kv.1 ≠ k0)) ((k0, v0) :: t) = List.filter (fun kv => decide (kv.1 ≠ k0)) t := by
        simp [List.filter_cons]
      rw [this, ih, get?_cons]
      by_cases hx : x = k0
      · simp [hx]
      · have : ¬ k0 = x := fun e => hx e.symm
        simp [hx, this]
    · have : List.filter (fun kv : String × α => decide (kv.1 ≠ k)) ((k0, v0) :: t) = (k0, v0) :: List.filter (fun kv => decide (kv.1 ≠ k)) t := by
        simp [List.filter_cons, hk]
      rw [this, get?_cons, get?_cons, ih]
      by_cases hx : k0 = x
      · have : ¬ x = k := fun e => hk (hx.trans e)
        simp [hx, this]
      · simp [hx]

/-- for a dictionary without duplicate keys, lookup is insensitive to the order of the entries -/
theorem get?_perm {d d' : Dict α} (hp : d.Perm d') (hn : (d.map (·.1)).Nodup) (k : String) :
    get? d k = get? d' k := by
  induction hp with
  | nil => rfl
  | cons x _ ih =>
    simp only [get?_cons]
    simp only [List.map_cons, List.nodup_cons] at hn
    rw [ih hn.2]
  | swap x y l =>
    simp only [get?_cons]
    simp only [List.map_cons, List.nodup_cons, List.mem_cons, not_or] at hn
    by_cases hx : x.1 = k <;> by_cases hy : y.1 = k <;> simp [hx, hy]
    exact absurd (hy.trans hx.symm) hn.1.1
  | trans h1 _ ih1 ih2 =>
    rw [ih1 hn, ih2 ((h1.map _).nodup_iff.mp hn)]

end Dict

namespace Expr
variable {V : Type}

/-! ### substitution depends only on the lookup function -/

theorem substF_congr {σ τ : Subst} (h : ∀ x, σ x = τ x) (e : Expr) : substF σ e = substF τ e := by
  have : σ = τ := funext h
  rw [this]

theorem subst_congr_lookup {σ τ : Dict Expr} (h : ∀ x, σ.get? x = τ.get? x) (e : Expr) : subst σ e = subst τ e :=
  substF_congr h e

mutual
theorem substF_none : ∀ (e : Expr), substF (fun _ => none) e = e
  | num _ => rfl
  | sym _ => rfl
  | neg a => by simp [substF, substF_none a]
  | bin _ a b => by simp [substF, substF_none a, substF_none b]
  | app _ args => by simp [substF, substFList_none args]
  | big _ body i lo hi => by
      have : Subst.erase (fun _ => none) i = fun _ => none := by funext x; simp [Subst.erase]
      simp [substF, this, substF_none body, substF_none lo, substF_none hi]
theorem substFList_none : ∀ (es : List Expr), substFList (fun _ => none) es = es
  | [] => rfl
  | a :: as => by simp [substFList, substF_none a, substFList_none as]
end

/-- an empty assignment changes nothing -/
theorem subst_nil (e : Expr) : subst [] e = e := by
  unfold subst
  have : (Dict.get? ([] : Dict Expr)) = fun _ => none := by funext x; rfl
  rw [this]; exact substF_none e

/-! ### evaluation depends only on the free symbols -/

theorem update_apply (ρ : Env V) (i : String) (v : Option V) (x : String) :
    (ρ.update i v) x = if x = i then v else ρ x := rfl

mutual
theorem eval_congr (A : Alg V) : ∀ (e : Expr) (ρ ρ' : Env V), (∀ x ∈ fv e, ρ x = ρ' x) → eval A ρ e = eval A ρ' e
  | num _, _, _, _ => rfl
  | sym s, ρ, ρ', h => by simp only [eval]; exact h s (by simp [fv])
  | neg a, ρ, ρ', h => by
      simp only [eval]; rw [eval_congr A a ρ ρ' (fun x hx => h x (by simpa [fv] using hx))]
  | bin _ a b, ρ, ρ', h => by
      simp only [eval]
      rw [eval_congr A a ρ ρ' (fun x hx => h x (by simp [fv, hx])),
          eval_congr A b ρ ρ' (fun x hx => h x (by simp [fv, hx]))]
  | app _ args, ρ, ρ', h => by
      simp only [eval]; rw [evalList_congr A args ρ ρ' (fun x hx => h x (by simpa [fv] using hx))]
  | big _ body i lo hi, ρ, ρ', h => by
      simp only [eval]
      rw [eval_congr A lo ρ ρ' (fun x hx => h x (by simp [fv, hx])),
          eval_congr A hi ρ ρ' (fun x hx => h x (by simp [fv, hx]))]
      congr 1; funext l; congr 1; funext hh; congr 1; funext j
      apply eval_congr A body
      intro x hx
      simp only [update_apply]
      by_cases hxi : x = i
      · simp [hxi]
      · simp only [hxi, if_false]
        exact h x (by simp [fv, hx, hxi])
theorem evalList_congr (A : Alg V) : ∀ (es : List Expr) (ρ ρ' : Env V), (∀ x ∈ fvList es, ρ x = ρ' x) → evalList A ρ es = evalList A ρ' es
  | [], _, _, _ => rfl
  | a :: as, ρ, ρ', h => by
      simp only [evalList]
      rw [eval_congr A a ρ ρ' (fun x hx => h x (by simp [fvList, hx])),
          evalList_congr A as ρ ρ' (fun x hx => h x (by simp [fvList, hx]))]
end

/-! ### the substitution lemma -/

/-- no value of σ mentions an iterator bound somewhere in `e` (what `CustomSequence.substitute_symbols`
    guards, and what sympy's `Sum.subs` assumes) -/
def NoCapture (σ : Subst) (e : Expr) : Prop :=
  ∀ x t, σ x = some t → ∀ i ∈ binders e, i ∉ fv t

theorem NoCapture.mono {σ : Subst} {e e' : Expr} (h : NoCapture σ e) (hs : ∀ i, i ∈ binders e' → i ∈ binders e) :
    NoCapture σ e' := fun x t hx i hi => h x t hx i (hs i hi)

theorem NoCapture.erase {σ : Subst} {e : Expr} (h : NoCapture σ e) (j : String) : NoCapture (σ.erase j) e := by
  intro x t hx i hi
  unfold Subst.erase at hx
  by_cases hxj : x = j
  · simp [hxj] at hx
  · simp only [hxj, if_false] at hx; exact h x t hx i hi

mutual
/-- **Substitution lemma**: evaluating a substituted expression = evaluating the original in the
    environment where every replaced name means the value of its replacement.  Exact `Option` equality,
    for every interpretation `A`. -/
theorem eval_substF (A : Alg V) : ∀ (e : Expr) (σ : Subst) (ρ : Env V), NoCapture σ e →
    eval A ρ (substF σ e) = eval A (under A ρ σ) e
  | num _, _, _, _ => rfl
  | sym s, σ, ρ, _ => by
      simp only [substF, eval, under]
      cases h : σ s <;> simp [eval]
  | neg a, σ, ρ, h => by
      simp only [substF, eval]
      rw [eval_substF A a σ ρ (h.mono (by intro i hi; simpa [binders] using hi))]
  | bin _ a b, σ, ρ, h => by
      simp only [substF, eval]
      rw [eval_substF A a σ ρ (h.mono (by intro i hi; simp [binders, hi])),
          eval_substF A b σ ρ (h.mono (by intro i hi; simp [binders, hi]))]
  | app _ args, σ, ρ, h => by
      simp only [substF, eval]
      rw [evalList_substF A args σ ρ (by intro x t hx i hi; exact h x t hx i (by simpa [binders] using hi))]
  | big _ body i lo hi, σ, ρ, h => by
      simp only [substF, eval]
      rw [eval_substF A lo σ ρ (h.mono (by intro j hj; simp [binders, hj])),
          eval_substF A hi σ ρ (h.mono (by intro j hj; simp [binders, hj]))]
      congr 1; funext l; congr 1; funext hh; congr 1; funext j
      have hb : NoCapture (σ.erase i) body := (h.mono (by intro j hj; simp [binders, hj])).erase i
      rw [eval_substF A body (σ.erase i) _ hb]
      apply eval_congr A body
      intro x _
      simp only [under, Subst.erase, update_apply]
      by_cases hxi : x = i
      · simp [hxi]
      · simp only [hxi, if_false]
        cases hσ : σ x with
        | none => simp
        | some t =>
          simp only
          apply eval_congr A t
          intro y hy
          simp only [update_apply]
          have : y ≠ i := by
            intro hyi; subst hyi
            exact h x t hσ y (by simp [binders]) hy
          simp [this]
theorem evalList_substF (A : Alg V) : ∀ (es : List Expr) (σ : Subst) (ρ : Env V),
    (∀ x t, σ x = some t → ∀ i ∈ bindersList es, i ∉ fv t) →
    evalList A ρ (substFList σ es) = evalList A (under A ρ σ) es
  | [], _, _, _ => rfl
  | a :: as, σ, ρ, h => by
      simp only [substFList, evalList]
      rw [eval_substF A a σ ρ (by intro x t hx i hi; exact h x t hx i (by simp [bindersList, hi])),
          evalList_substF A as σ ρ (by intro x t hx i hi; exact h x t hx i (by simp [bindersList, hi]))]
end

theorem eval_subst (A : Alg V) (σ : Dict Expr) (ρ : Env V) (e : Expr) (h : NoCapture σ.get? e) :
    eval A ρ (subst σ e) = eval A (under A ρ σ.get?) e := eval_substF A e σ.get? ρ h

/-- expressions without `sum_over`/`prod_over` have no capture side condition at all -/
theorem noCapture_of_no_binders {σ : Subst} {e : Expr} (h : binders e = []) : NoCapture σ e := by
  intro x t _ i hi; simp [h] at hi

end Expr
end Bartiq

namespace Bartiq
namespace Expr
variable {V : Type}

mutual
/-- names that σ does not bind are untouched -/
theorem substF_of_disjoint : ∀ (e : Expr) (σ : Subst), (∀ x ∈ fv e, σ x = none) → substF σ e = e
  | num _, _, _ => rfl
  | sym s, σ, h => by simp [substF, h s (by simp [fv])]
  | neg a, σ, h => by simp [substF, substF_of_disjoint a σ (fun x hx => h x (by simpa [fv] using hx))]
  | bin _ a b, σ, h => by
      simp [substF, substF_of_disjoint a σ (fun x hx => h x (by simp [fv, hx])),
            substF_of_disjoint b σ (fun x hx => h x (by simp [fv, hx]))]
  | app _ args, σ, h => by simp [substF, substFList_of_disjoint args σ (fun x hx => h x (by simpa [fv] using hx))]
  | big _ body i lo hi, σ, h => by
      have hb : ∀ x ∈ fv body, (σ.erase i) x = none := by
        intro x hx
        by_cases hxi : x = i
        · simp [Subst.erase, hxi]
        · simp only [Subst.erase, hxi, if_false]; exact h x (by simp [fv, hx, hxi])
      simp [substF, substF_of_disjoint body _ hb, substF_of_disjoint lo σ (fun x hx => h x (by simp [fv, hx])),
            substF_of_disjoint hi σ (fun x hx => h x (by simp [fv, hx]))]
theorem substFList_of_disjoint : ∀ (es : List Expr) (σ : Subst), (∀ x ∈ fvList es, σ x = none) → substFList σ es = es
  | [], _, _ => rfl
  | a :: as, σ, h => by
      simp [substFList, substF_of_disjoint a σ (fun x hx => h x (by simp [fvList, hx])),
            substFList_of_disjoint as σ (fun x hx => h x (by simp [fvList, hx]))]
end

/-- a closed expression (no free symbols) is not changed by any substitution -/
theorem substF_closed (e : Expr) (σ : Subst) (h : fv e = []) : substF σ e = e :=
  substF_of_disjoint e σ (by intro x hx; simp [h] at hx)

/-- staging: σ₁ with closed (e.g. numeric) values, then σ₂  =  both at once, σ₁ winning on common keys -/
def stage (σ₁ σ₂ : Subst) : Subst := fun x => match σ₁ x with | some t => some t | none => σ₂ x

theorem stage_erase (σ₁ σ₂ : Subst) (i : String) : stage (σ₁.erase i) (σ₂.erase i) = (stage σ₁ σ₂).erase i := by
  funext x; by_cases h : x = i <;> simp [stage, Subst.erase, h]

mutual
theorem substF_staged : ∀ (e : Expr) (σ₁ σ₂ : Subst), (∀ x t, σ₁ x = some t → fv t = []) →
    substF σ₂ (substF σ₁ e) = substF (stage σ₁ σ₂) e
  | num _, _, _, _ => rfl
  | sym s, σ₁, σ₂, h => by
      simp only [substF, stage]
      cases h1 : σ₁ s with
      | none => simp [substF]
      | some t => simp only; exact substF_closed t σ₂ (h s t h1)
  | neg a, σ₁, σ₂, h => by simp [substF, substF_staged a σ₁ σ₂ h]
  | bin _ a b, σ₁, σ₂, h => by simp [substF, substF_staged a σ₁ σ₂ h, substF_staged b σ₁ σ₂ h]
  | app _ args, σ₁, σ₂, h => by simp [substF, substFList_staged args σ₁ σ₂ h]
  | big _ body i lo hi, σ₁, σ₂, h => by
      have he : ∀ x t, (σ₁.erase i) x = some t → fv t = [] := by
        intro x t hx
        unfold Subst.erase at hx
        by_cases hxi : x = i
        · simp [hxi] at hx
        · simp only [hxi, if_false] at hx; exact h x t hx
      simp [substF, substF_staged body _ _ he, stage_erase, substF_staged lo σ₁ σ₂ h, substF_staged hi σ₁ σ₂ h]
theorem substFList_staged : ∀ (es : List Expr) (σ₁ σ₂ : Subst), (∀ x t, σ₁ x = some t → fv t = []) →
    substFList σ₂ (substFList σ₁ es) = substFList (stage σ₁ σ₂) es
  | [], _, _, _ => rfl
  | a :: as, σ₁, σ₂, h => by simp [substFList, substF_staged a σ₁ σ₂ h, substFList_staged as σ₁ σ₂ h]
end

/-- lookup in `σ₁ ++ σ₂` for association lists -/
theorem get?_append (a b : Dict Expr) (k : String) :
    Dict.get? (a ++ b) k = match Dict.get? a k with | some v => some v | none => Dict.get? b k := by
  induction a with
  | nil => simp
  | cons x xs ih =>
    simp only [List.cons_append, Dict.get?_cons]
    by_cases h : x.1 = k <;> simp [h, ih]

/-- evaluating in two steps with closed values first equals evaluating once with the union -/
theorem subst_staged (σ₁ σ₂ : Dict Expr) (e : Expr) (h : ∀ kv ∈ σ₁, fv kv.2 = []) :
    subst σ₂ (subst σ₁ e) = subst (σ₁ ++ σ₂) e := by
  unfold subst
  have hcl : ∀ x t, σ₁.get? x = some t → fv t = [] := by
    intro x t hx
    induction σ₁ with
    | nil => simp at hx
    | cons y ys ih =>
      rw [Dict.get?_cons] at hx
      by_cases hy : y.1 = x
      · simp only [hy, if_true, Option.some.injEq] at hx; subst hx; exact h y (by simp)
      · simp only [hy, if_false] at hx; exact ih (fun kv hkv => h kv (by simp [hkv])) hx
  rw [substF_staged e _ _ hcl]
  apply substF_congr
  intro x; simp [stage, get?_append]

end Expr
end Bartiq
