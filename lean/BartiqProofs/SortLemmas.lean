/-
  The model's insertion sort `sortBy (· < ·)` is canonical: it returns the same list for any two permutations of its
  input (String order is a linear order).  Used wherever the code sorts something that came out of a set or a
  user-ordered list (`sorted(...)`, `sorted(set ...)`).
-/
import BartiqModel.Preprocess
import BartiqModel.Compile
import Mathlib.Data.String.Basic
import Mathlib.Order.Defs.LinearOrder
namespace Bartiq

variable {α : Type} [LinearOrder α]

theorem insertSorted_perm (x : α) : ∀ (l : List α), (insertSorted (fun a b => decide (a < b)) x l).Perm (x :: l)
  | [] => List.Perm.refl _
  | y :: ys => by
    simp only [insertSorted]
    split
    · exact List.Perm.refl _
    · exact ((insertSorted_perm x ys).cons y).trans (List.Perm.swap x y ys)

theorem sortBy_perm : ∀ (l : List α), (sortBy (fun a b => decide (a < b)) l).Perm l
  | [] => List.Perm.refl _
  | x :: xs => by
    simp only [sortBy, List.foldr_cons]
    exact (insertSorted_perm x _).trans ((sortBy_perm xs).cons x)

theorem insertSorted_pairwise (x : α) : ∀ (l : List α), l.Pairwise (· ≤ ·) →
    (insertSorted (fun a b => decide (a < b)) x l).Pairwise (· ≤ ·)
  | [], _ => by simp [insertSorted]
  | y :: ys, h => by
    simp only [insertSorted]
    have hy := List.pairwise_cons.mp h
    split
    · rename_i hlt
      have hxy : x < y := by simpa using hlt
      refine List.pairwise_cons.mpr ⟨?_, h⟩
      intro z hz
      simp only [List.mem_cons] at hz
      rcases hz with rfl | hz
      · exact le_of_lt hxy
      · exact le_trans (le_of_lt hxy) (hy.1 z hz)
    · rename_i hlt
      have hyx : y ≤ x := by simpa using hlt
      refine List.pairwise_cons.mpr ⟨?_, insertSorted_pairwise x ys hy.2⟩
      intro z hz
      have := (insertSorted_perm x ys).mem_iff.mp hz
      simp only [List.mem_cons] at this
      rcases this with rfl | hz'
      · exact hyx
      · exact hy.1 z hz'

theorem sortBy_pairwise : ∀ (l : List α), (sortBy (fun a b => decide (a < b)) l).Pairwise (· ≤ ·)
  | [] => List.Pairwise.nil
  | x :: xs => by
    simp only [sortBy, List.foldr_cons]
    exact insertSorted_pairwise x _ (sortBy_pairwise xs)

/-- the sort is canonical -/
theorem sortBy_eq_of_perm {l₁ l₂ : List α} (h : l₁.Perm l₂) :
    sortBy (fun a b => decide (a < b)) l₁ = sortBy (fun a b => decide (a < b)) l₂ := by
  apply List.Perm.eq_of_pairwise (le := (· ≤ ·)) (fun a b _ _ hab hba => le_antisymm hab hba)
    (sortBy_pairwise l₁) (sortBy_pairwise l₂)
  exact (sortBy_perm l₁).trans (h.trans (sortBy_perm l₂).symm)

/-- `sorted(set(...))`: the result does not depend on the order in which the elements were collected -/
theorem dedupSorted_eq_of_perm {l₁ l₂ : List String} (h : l₁.Perm l₂) : dedupSorted l₁ = dedupSorted l₂ := by
  unfold dedupSorted
  have : sortBy (fun a b : String => decide (a < b)) l₁ = sortBy (fun a b => decide (a < b)) l₂ := sortBy_eq_of_perm h
  rw [this]

end Bartiq
