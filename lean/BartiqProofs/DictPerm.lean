/-
  BartiqProofs.DictPerm — dictionaries up to the order of their entries.  `DEq d d'`: the same entries in some order, keys
  unique.  Python dicts built in different insertion orders are related this way; everything that only looks keys up, or
  collects the symbols of the values into a set, cannot tell them apart.
-/
import BartiqProofs.EvaluateLemmas
namespace Bartiq
namespace Dict
variable {α : Type}

def NodupKeys (d : Dict α) : Prop := (d.map (·.1)).Nodup

structure DEq (d d' : Dict α) : Prop where
  perm : d.Perm d'
  nodup : NodupKeys d

theorem DEq.refl {d : Dict α} (h : NodupKeys d) : DEq d d := ⟨List.Perm.refl _, h⟩

theorem DEq.nodup' {d d' : Dict α} (h : DEq d d') : NodupKeys d' := by
  unfold NodupKeys
  exact ((h.perm.map _).nodup_iff).mp h.nodup

theorem DEq.symm {d d' : Dict α} (h : DEq d d') : DEq d' d := ⟨h.perm.symm, h.nodup'⟩

theorem DEq.trans {a b c : Dict α} (h1 : DEq a b) (h2 : DEq b c) : DEq a c := ⟨h1.perm.trans h2.perm, h1.nodup⟩

theorem DEq.get? {d d' : Dict α} (h : DEq d d') (k : String) : d.get? k = d'.get? k := get?_perm h.perm h.nodup k

theorem nodupKeys_nil : NodupKeys ([] : Dict α) := List.nodup_nil

/-- canonical form of an update: the new binding in front, the old binding (if any) removed -/
theorem set_perm_canon : ∀ (d : Dict α) (k : String) (v : α), NodupKeys d →
    (d.set k v).Perm ((k, v) :: d.filter (fun kv => kv.1 ≠ k))
  | [], k, v, _ => by simp [Dict.set]
  | (k', v') :: t, k, v, hn => by
    unfold NodupKeys at hn
    simp only [List.map_cons, List.nodup_cons] at hn
    simp only [Dict.set]
    by_cases hk : k' = k
    · subst hk
      simp only [if_true]
      have hf : t.filter (fun kv => kv.1 ≠ k') = t := by
        apply List.filter_eq_self.mpr
        intro kv hkv
        have : kv.1 ≠ k' := fun e => hn.1 (List.mem_map.mpr ⟨kv, hkv, e⟩)
        simpa using this
      have : ((k', v') :: t).filter (fun kv => kv.1 ≠ k') = t := by
        rw [List.filter_cons]; simp only [ne_eq, not_true_eq_false, decide_false, Bool.false_eq_true, if_false]; exact hf
      rw [this]
    · simp only [hk, if_false]
      have ih := set_perm_canon t k v hn.2
      have : ((k', v') :: t).filter (fun kv => kv.1 ≠ k) = (k', v') :: t.filter (fun kv => kv.1 ≠ k) := by
        simp [hk]
      rw [this]
      exact (ih.cons (k', v')).trans (List.Perm.swap _ _ _)

theorem nodupKeys_set (d : Dict α) (k : String) (v : α) (hn : NodupKeys d) : NodupKeys (d.set k v) := by
  unfold NodupKeys
  have hp := (set_perm_canon d k v hn).map (·.1)
  rw [hp.nodup_iff]
  simp only [List.map_cons, List.nodup_cons, List.mem_map, not_exists, not_and]
  refine ⟨?_, ?_⟩
  · intro kv hkv
    have := (List.mem_filter.mp hkv).2
    simpa using this
  · exact (hn.sublist ((List.filter_sublist).map _))

theorem DEq.set {d d' : Dict α} (h : DEq d d') (k : String) (v : α) : DEq (d.set k v) (d'.set k v) := by
  refine ⟨?_, nodupKeys_set d k v h.nodup⟩
  exact (set_perm_canon d k v h.nodup).trans
    (((h.perm.filter _).cons (k, v)).trans (set_perm_canon d' k v h.nodup').symm)

/-- two updates of different keys commute -/
theorem set_comm (d : Dict α) (k1 k2 : String) (v1 v2 : α) (hk : k1 ≠ k2) (hn : NodupKeys d) :
    DEq ((d.set k1 v1).set k2 v2) ((d.set k2 v2).set k1 v1) := by
  have n1 := nodupKeys_set d k1 v1 hn
  have n2 := nodupKeys_set d k2 v2 hn
  refine ⟨?_, nodupKeys_set _ k2 v2 n1⟩
  have p1 := (set_perm_canon _ k2 v2 n1).trans (((set_perm_canon d k1 v1 hn).filter _).cons (k2, v2))
  have p2 := (set_perm_canon _ k1 v1 n2).trans (((set_perm_canon d k2 v2 hn).filter _).cons (k1, v1))
  have hk' : k2 ≠ k1 := fun e => hk e.symm
  simp only [List.filter_cons, ne_eq, hk, hk', not_false_eq_true, decide_true, if_true, List.filter_filter] at p1 p2
  refine p1.trans (List.Perm.trans ?_ p2.symm)
  refine (List.Perm.swap _ _ _).trans ?_
  have : (fun a : String × α => (decide ¬a.1 = k2 && decide ¬a.1 = k1)) = (fun a => (decide ¬a.1 = k1 && decide ¬a.1 = k2)) := by
    funext a; exact Bool.and_comm _ _
  rw [this]

/-- folding updates over two orderings of the same bindings -/
theorem DEq.foldl_set {a a' : Dict α} (ha : DEq a a') : ∀ (b : Dict α),
    DEq (b.foldl (fun acc kv => acc.set kv.1 kv.2) a) (b.foldl (fun acc kv => acc.set kv.1 kv.2) a')
  | [] => ha
  | kv :: b => by
    simp only [List.foldl_cons]
    exact DEq.foldl_set (ha.set kv.1 kv.2) b

theorem foldl_set_perm {b b' : Dict α} (hp : b.Perm b') (hn : NodupKeys b) : ∀ (a : Dict α), NodupKeys a →
    DEq (b.foldl (fun acc kv => acc.set kv.1 kv.2) a) (b'.foldl (fun acc kv => acc.set kv.1 kv.2) a) := by
  induction hp with
  | nil => intro a ha; exact DEq.refl ha
  | cons x _ ih =>
    intro a ha
    simp only [List.foldl_cons]
    unfold NodupKeys at hn
    simp only [List.map_cons, List.nodup_cons] at hn
    exact ih hn.2 _ (nodupKeys_set a x.1 x.2 ha)
  | swap x y l =>
    intro a ha
    simp only [List.foldl_cons]
    unfold NodupKeys at hn
    simp only [List.map_cons, List.nodup_cons, List.mem_cons, not_or] at hn
    have hxy : y.1 ≠ x.1 := hn.1.1
    exact DEq.foldl_set (set_comm a y.1 x.1 y.2 x.2 hxy ha) l
  | trans h1 _ ih1 ih2 =>
    intro a ha
    have hn2 : NodupKeys (α := α) _ := ((h1.map (fun x : String × α => x.1)).nodup_iff).mp hn
    exact (ih1 hn a ha).trans (ih2 hn2 a ha)

/-- `{**a, **b}` up to order, for both arguments -/
theorem DEq.merge {a a' b b' : Dict α} (ha : DEq a a') (hb : DEq b b') : DEq (Dict.merge a b) (Dict.merge a' b') := by
  unfold Dict.merge
  exact (foldl_set_perm hb.perm hb.nodup a ha.nodup).trans (ha.foldl_set b')

theorem nodupKeys_merge {a b : Dict α} (ha : NodupKeys a) : NodupKeys (Dict.merge a b) := by
  unfold Dict.merge
  induction b generalizing a with
  | nil => exact ha
  | cons kv b ih => simp only [List.foldl_cons]; exact ih (nodupKeys_set a kv.1 kv.2 ha)

end Dict

theorem Dict.DEq.sameAssignment {σ σ' : Dict Expr} (h : Dict.DEq σ σ') : SameAssignment σ σ' := SameAssignment.of_perm h.perm h.nodup

end Bartiq
