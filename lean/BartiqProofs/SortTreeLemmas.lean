/-
  `sorted_children_order` returns a permutation of the children's names, and re-ordering the children by it loses none:
  consequences of the correctness of the model of graphlib's `static_order` (GraphLemmas.lean).
-/
import BartiqModel.Compile
import BartiqProofs.GraphLemmas
import BartiqProofs.SortLemmas
namespace Bartiq

/-- child-to-child connections only mention children of this routine -/
def InnerEndpointsIn (names : List String) (conns : List (Endpoint × Endpoint)) : Prop :=
  ∀ c ∈ conns, ∀ s t, c.1.routine = some s → c.2.routine = some t → s ∈ names ∧ t ∈ names

theorem sortedChildrenOrder_perm (names ord : List String) (conns : List (Endpoint × Endpoint)) (o : List String)
    (hn : names.Nodup) (ho : ord.Perm names) (hin : InnerEndpointsIn names conns)
    (h : sortedChildrenOrder names ord conns = .ok o) : o.Perm names := by
  unfold sortedChildrenOrder at h
  simp only at h
  split at h
  · simp only [pure, Except.pure, Except.ok.injEq] at h
    rw [← h]; exact ho
  · split at h
    · rename_i o' hso
      simp only [pure, Except.pure, Except.ok.injEq] at h
      subst h
      refine (Graph.staticOrder_perm _ _ hso).trans ?_
      apply (List.perm_ext_iff_of_nodup (Graph.nodes_nodup _) hn).mpr
      intro x
      constructor
      · intro hx
        obtain ⟨kv, hkv, hx⟩ := Graph.mem_nodes _ x hx
        simp only [List.mem_map] at hkv
        obtain ⟨n, hnm, rfl⟩ := hkv
        rcases hx with rfl | hx
        · exact hnm
        · have hx' := (sortBy_perm _).mem_iff.mp hx
          simp only [List.mem_eraseDups, List.mem_map, List.mem_filter, List.mem_filterMap] at hx'
          obtain ⟨e, ⟨⟨c, hc, hce⟩, _⟩, rfl⟩ := hx'
          cases h1 : c.1.routine with
          | none => simp [h1] at hce
          | some s =>
            cases h2 : c.2.routine with
            | none => simp [h1, h2] at hce
            | some t =>
              simp only [h1, h2, Option.some.injEq] at hce
              subst hce
              exact (hin c hc s t h1 h2).1
      · intro hx
        exact Graph.key_mem_nodes _ (x, _) (List.mem_map.mpr ⟨x, hx, rfl⟩)
    · simp [throw, throwThe, MonadExceptOf.throw] at h

theorem find?_self_of_nodup {α : Type} (name : α → String) : ∀ (xs : List α), (xs.map name).Nodup →
    ∀ x ∈ xs, xs.find? (fun y => name y = name x) = some x
  | [], _, _, hx => by cases hx
  | a :: as, h, x, hx => by
    simp only [List.map_cons, List.nodup_cons] at h
    rcases List.mem_cons.mp hx with rfl | hm
    · simp [List.find?_cons]
    · have hne : ¬ name a = name x := by
        intro e; exact h.1 (e ▸ List.mem_map_of_mem hm)
      simp only [List.find?_cons, hne, decide_false]
      exact find?_self_of_nodup name as h.2 x hm

theorem reorder_own_names {α : Type} (name : α → String) (xs : List α) (h : (xs.map name).Nodup) :
    reorder name xs (xs.map name) = xs := by
  unfold reorder
  rw [List.filterMap_map]
  have : ∀ x ∈ xs, ((fun n => xs.find? (fun y => name y = n)) ∘ name) x = some x := fun x hx => find?_self_of_nodup name xs h x hx
  rw [List.filterMap_congr this]
  exact List.filterMap_some

/-- re-ordering the children by a permutation of their (distinct) names keeps every child, exactly once -/
theorem reorder_perm {α : Type} (name : α → String) (xs : List α) (o : List String) (h : (xs.map name).Nodup)
    (ho : o.Perm (xs.map name)) : (reorder name xs o).Perm xs := by
  have := List.Perm.filterMap (fun n => xs.find? (fun y => name y = n)) ho
  have e := reorder_own_names name xs h
  unfold reorder at e ⊢
  rw [e] at this
  exact this

end Bartiq
