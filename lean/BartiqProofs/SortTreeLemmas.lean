/-
  `sorted_children_order` returns a permutation of the children's names, and re-ordering the children by it loses none:
  consequences of the correctness of the model of graphlib's `static_order` (GraphLemmas.lean).
-/
import BartiqModel.Compile
import BartiqProofs.GraphLemmas
import BartiqProofs.SortLemmas
namespace Bartiq

/-- child-to-child connections only mention children of this routine -/
def InnerEndpointsIn (names : List String) (conns : List (Endpoint × Endpoint)) : Prop :=
  ∀ c ∈ conns, ∀ s t, c.1.routine = some s → c.2.routine = some t → s ∈ names ∧ t ∈ names

theorem sortedChildrenOrder_perm (names ord : List String) (conns : List (Endpoint × Endpoint)) (o : List String)
    (hn : names.Nodup) (ho : ord.Perm names) (hin : InnerEndpointsIn names conns)
    (h : sortedChildrenOrder names ord conns = .ok o) : o.Perm names := by
  unfold sortedChildrenOrder at h
  simp only at h
  split at h
  · simp only [pure, Except.pure, Except.ok.injEq] at h
    rw [← h]; exact ho
  · split at h
    · rename_i o' hso
      simp only [pure, Except.pure, Except.ok.injEq] at h
      subst h
      refine (Graph.staticOrder_perm _ _ hso).trans ?_
      apply (List.perm_ext_iff_of_nodup (Graph.nodes_nodup _) hn).mpr
      intro x
      constructor
      · intro hx
        obtain ⟨kv, hkv, hx⟩ := Graph.mem_nodes _ x hx
        simp only [List.mem_map] at hkv
        obtain ⟨n, hnm, rfl⟩ := hkv
        rcases hx with rfl | hx
        · exact hnm
        · have hx' := (sortBy_perm _).mem_iff.mp hx
          simp only [List.mem_eraseDups, List.mem_map, List.mem_filter, List.mem_filterMap] at hx'
          obtain ⟨e, ⟨⟨c, hc, hce⟩, _⟩, rfl⟩ := hx'
          cases h1 : c.1.routine with
          | none => simp [h1] at hce
          | some s =>
            cases h2 : c.2.routine with
            | none => simp [h1, h2] at hce
            | some t =>
              simp only [h1, h2, Option.some.injEq] at hce
              subst hce
              exact (hin c hc s t h1 h2).1
      · intro hx
        exact Graph.key_mem_nodes _ (x, _) (List.mem_map.mpr ⟨x, hx, rfl⟩)
    · simp [throw, throwThe, MonadExceptOf.throw] at h

theorem find?_self_of_nodup {α : Type} (name : α → String) : ∀ (xs : List α), (xs.map name).Nodup →
    ∀ x ∈ xs, xs.find? (fun y => name y = name x) = some x
  | [], _, _, hx => by cases hx
  | a :: as, h, x, hx => by
    simp only [List.map_cons, List.nodup_cons] at h
    rcases List.mem_cons.mp hx with rfl | hm
    · simp [List.find?_cons]
    · have hne : ¬ name a = name x := by
        intro e; exact h.1 (e ▸ List.mem_map_of_mem hm)
      simp only [List.find?_cons, hne, decide_false]
      exact find?_self_of_nodup name as h.2 x hm

theorem reorder_own_names {α : Type} (name : α → String) (xs : List α) (h : (xs.map name).Nodup) :
    reorder name xs (xs.map name) = xs := by
  unfold reorder
  rw [List.filterMap_map]
  have : ∀ x ∈ xs, ((fun n => xs.find? (fun y => name y = n)) ∘ name) x = some x := fun x hx => find?_self_of_nodup name xs h x hx
  rw [List.filterMap_congr this]
  exact List.filterMap_some

/-- re-ordering the children by a permutation of their (distinct) names keeps every child, exactly once -/
theorem reorder_perm {α : Type} (name : α → String) (xs : List α) (o : List String) (h : (xs.map name).Nodup)
    (ho : o.Perm (xs.map name)) : (reorder name xs o).Perm xs := by
  have := List.Perm.filterMap (fun n => xs.find? (fun y => name y = n)) ho
  have e := reorder_own_names name xs h
  unfold reorder at e ⊢
  rw [e] at this
  exact this

/-! ### a cycle among the children is always a compilation error -/

/-- the child-to-child wires -/
def innerConns (conns : List (Endpoint × Endpoint)) : List (String × String) :=
  conns.filterMap fun c =>
    match c.1.routine, c.2.routine with
    | some s, some t => some (s, t)
    | _, _ => none

/-- predecessors of a child, as `sorted_children_order` collects them -/
def childPreds (conns : List (Endpoint × Endpoint)) (n : String) : List String :=
  (((innerConns conns).filter (·.2 = n)).map (·.1)).eraseDups

/-- the graph handed to the topological sorter -/
def childGraph (names : List String) (conns : List (Endpoint × Endpoint)) : Graph.G :=
  names.map fun n => (n, sortBy (· < ·) (childPreds conns n))

/-- the "already in data-flow order?" scan of `sorted_children_order` -/
def orderScan (conns : List (Endpoint × Endpoint)) (order : List String) (st : Bool × List String) : Bool × List String :=
  order.foldl (fun (st : Bool × List String) c =>
    if !st.1 then st
    else if (childPreds conns c).any (fun p => !st.2.contains p) then (false, st.2)
    else (true, c :: st.2)) st

theorem sortedChildrenOrder_unfold (names ord : List String) (conns : List (Endpoint × Endpoint)) :
    sortedChildrenOrder names ord conns =
      if (orderScan conns ord (true, [])).1 then pure ord
      else match Graph.staticOrder (childGraph names conns) with
        | some o => pure o
        | none => throw (.compilation "Connections between children form a cycle") := rfl

theorem orderScan_false (conns : List (Endpoint × Endpoint)) : ∀ (order : List String) (vis : List String),
    (orderScan conns order (false, vis)).1 = false
  | [], _ => rfl
  | c :: rest, vis => by
    simp only [orderScan, List.foldl_cons, Bool.not_false, if_true]
    exact orderScan_false conns rest vis

theorem edge_childGraph (names : List String) (conns : List (Endpoint × Endpoint)) (e : String × String)
    (h : e ∈ Graph.edges (childGraph names conns)) : e.2 ∈ names ∧ e.1 ∈ childPreds conns e.2 := by
  simp only [Graph.edges, childGraph, List.mem_flatMap, List.mem_map] at h
  obtain ⟨kv, ⟨n, hn, rfl⟩, p, hp, rfl⟩ := h
  exact ⟨hn, (sortBy_perm _).mem_iff.mp hp⟩

/-- when the scan succeeds, the listed order respects every registration of the children graph -/
theorem orderScan_respects (names : List String) (conns : List (Endpoint × Endpoint)) :
    ∀ (order done vis : List String), (∀ x, x ∈ vis ↔ x ∈ done) → (orderScan conns order (true, vis)).1 = true →
      Graph.respects (childGraph names conns) done order = true
  | [], _, _, _, _ => rfl
  | c :: rest, done, vis, hv, h => by
    simp only [orderScan, List.foldl_cons, Bool.not_true, Bool.false_eq_true, if_false] at h
    by_cases hany : (childPreds conns c).any (fun p => !vis.contains p) = true
    · simp only [hany, if_true] at h
      have := orderScan_false conns rest vis
      simp only [orderScan] at this
      rw [this] at h; cases h
    · simp only [hany, Bool.false_eq_true, if_false] at h
      simp only [Graph.respects, Bool.and_eq_true, List.all_eq_true, Bool.or_eq_true, bne_iff_ne, ne_eq]
      refine ⟨fun e he => ?_, orderScan_respects names conns rest (done ++ [c]) (c :: vis) (by
        intro x; simp only [List.mem_cons, List.mem_append, List.mem_singleton, hv x]; tauto) h⟩
      by_cases h2 : e.2 = c
      · right
        have hp := (edge_childGraph names conns e he).2
        rw [h2] at hp
        simp only [List.any_eq_true, Bool.not_eq_true', not_exists, not_and] at hany
        have := hany e.1 hp
        have hin : e.1 ∈ vis := by simpa using this
        simpa using (hv e.1).mp hin
      · left; exact h2

/-- **a connection cycle among the children is always a compilation error** (never a result, never an internal exception):
    neither the listed order can pass the data-flow scan, nor can the topological sorter return an order -/
theorem sortedChildrenOrder_cycle (names ord : List String) (conns : List (Endpoint × Endpoint)) (a : String)
    (hnd : ord.Nodup) (hall : ∀ n ∈ names, n ∈ ord) (hc : Graph.Before (childGraph names conns) a a) :
    ∃ m, sortedChildrenOrder names ord conns = .error (.compilation m) := by
  rw [sortedChildrenOrder_unfold]
  by_cases hs : (orderScan conns ord (true, [])).1 = true
  · exfalso
    have hr := orderScan_respects names conns ord [] [] (by intro x; simp) hs
    have := Graph.pos_of_respects (childGraph names conns) ord hnd hr
      (fun e he => hall e.2 (edge_childGraph names conns e he).1) a a hc
    exact Nat.lt_irrefl _ this
  · simp only [hs, Bool.false_eq_true, if_false]
    rw [Graph.staticOrder_none_of_cycle _ a hc]
    exact ⟨_, rfl⟩

end Bartiq
