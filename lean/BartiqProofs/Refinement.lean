/-
  Layer B — `_compile` refines the value-level evaluator `denoteV`:
  evaluating the compiled tree at a point = evaluating the source bottom-up at that point.
  Every step is "dictionary operations commute with taking values" + the substitution lemma.
-/
import BartiqModel.Denote
import BartiqProofs.CompileSpec
namespace Bartiq
open Expr

variable {V : Type}

/-! ### dictionaries commute with `mapVal` -/
namespace Dict
variable {α β : Type}

@[simp] theorem mapVal_nil (f : α → β) : mapVal f ([] : Dict α) = [] := rfl

theorem mapVal_cons (f : α → β) (x : String × α) (t : Dict α) : mapVal f (x :: t) = (x.1, f x.2) :: mapVal f t := rfl

theorem mapVal_set (f : α → β) (d : Dict α) (k : String) (v : α) : mapVal f (set d k v) = set (mapVal f d) k (f v) := by
  induction d with
  | nil => rfl
  | cons x xs ih =>
    obtain ⟨a, b⟩ := x
    simp only [set, mapVal_cons]
    by_cases h : a = k
    · simp [h, mapVal_cons]
    · simp [h, mapVal_cons, ih]

theorem mapVal_foldl_set (f : α → β) (b a : Dict α) :
    mapVal f (b.foldl (fun acc kv => acc.set kv.1 kv.2) a) = (mapVal f b).foldl (fun acc kv => acc.set kv.1 kv.2) (mapVal f a) := by
  induction b generalizing a with
  | nil => rfl
  | cons x xs ih =>
    simp only [List.foldl_cons, mapVal_cons]
    rw [ih, mapVal_set]

theorem mapVal_merge (f : α → β) (a b : Dict α) : mapVal f (merge a b) = merge (mapVal f a) (mapVal f b) := by
  unfold merge; exact mapVal_foldl_set f b a

theorem mapVal_ofList (f : α → β) (l : List (String × α)) : mapVal f (ofList l) = ofList (mapVal f l) := by
  unfold ofList; rw [mapVal_merge]; rfl

theorem mapVal_mapVal {γ : Type} (f : α → β) (g : β → γ) (d : Dict α) : mapVal g (mapVal f d) = mapVal (fun x => g (f x)) d := by
  simp [mapVal, List.map_map, Function.comp_def]

end Dict

/-! ### scopes -/

theorem scopeOf_mapVal (A : Alg V) (ρ : Env V) (d : Dict Expr) :
    scopeOf ρ (d.mapVal (eval A ρ)) = under A ρ d.get? := by
  funext x
  simp only [scopeOf, under, Dict.get?_mapVal]
  cases d.get? x <;> rfl

/-- evaluating a substituted binder-free expression = evaluating it in the scope of values -/
theorem eval_subst_instV (A : Alg V) (ρ : Env V) (d : Dict Expr) (e : Expr) (h : binders e = []) :
    eval A ρ (Expr.subst d e) = instV A ρ (d.mapVal (eval A ρ)) e := by
  unfold instV
  rw [scopeOf_mapVal, eval_subst A d ρ e (noCapture_of_no_binders h)]

/-! ### parameter trees -/

def PTreeG.map {α β : Type} (f : α → β) (t : PTreeG α) : PTreeG β :=
  { self := t.self.mapVal f, kids := t.kids.mapVal (Dict.mapVal f) }

def PUpdateG.map {α β : Type} (f : α → β) (u : PUpdateG α) : PUpdateG β := List.map (fun e => (e.1, e.2.1, f e.2.2)) u

theorem PTreeG.mergeUpd_map {α β : Type} (f : α → β) (t : PTreeG α) (u : PUpdateG α) :
    (t.mergeUpd u).map f = (t.map f).mergeUpd (PUpdateG.map f u) := by
  unfold PTreeG.mergeUpd PUpdateG.map
  induction u generalizing t with
  | nil => rfl
  | cons e es ih =>
    simp only [List.foldl_cons, List.map_cons]
    rw [ih]
    congr 1
    obtain ⟨k, x, v⟩ := e
    cases k with
    | none => simp [PTreeG.map, Dict.mapVal_set]
    | some c =>
      simp only [PTreeG.map, Dict.get?_mapVal]
      cases h : t.kids.get? c with
      | none => simp [PTreeG.map]
      | some d => simp [PTreeG.map, Dict.mapVal_set]

theorem Except.mapM_map {ε α β γ : Type} (g : α → Except ε β) (h : α → Except ε γ) (φ : β → γ)
    (hgh : ∀ x, h x = (g x).map φ) : ∀ (l : List α), l.mapM h = (l.mapM g).map (List.map φ)
  | [] => rfl
  | x :: xs => by
    simp only [List.mapM_cons, hgh x, Except.mapM_map g h φ hgh xs]
    cases g x with
    | error e => rfl
    | ok b =>
      cases List.mapM g xs with
      | error e => rfl
      | ok bs => rfl

theorem paramTreeFromSizes_map {α β : Type} (f : α → β) (cm : List (String × Endpoint)) (sizes : Dict α) :
    paramTreeFromSizes cm (sizes.mapVal f) = (paramTreeFromSizes cm sizes).map (PUpdateG.map f) := by
  unfold paramTreeFromSizes PUpdateG.map
  apply Except.mapM_map
  intro st
  simp only [Dict.get?_mapVal]
  cases sizes.get? st.1 <;> rfl

theorem exceptToOption_map {ε α β : Type} (g : α → β) (x : Except ε α) : exceptToOption (x.map g) = (exceptToOption x).map g := by
  cases x <;> rfl

/-! ### "plain" routines: no `sum_over`/`prod_over` in source expressions, no repetition -/


end Bartiq

namespace Bartiq
open Expr
variable {V : Type}

/-! ### local variables -/

theorem localsStep_map (A : Alg V) (ρ : Env V) (locals : Dict Expr) (hb : ∀ kv ∈ locals, binders kv.2 = [])
    (st : Dict Expr × Dict Expr) (v : String) :
    ((localsStep Expr.subst locals st v).1.mapVal (eval A ρ), (localsStep Expr.subst locals st v).2.mapVal (eval A ρ)) =
      localsStep (instV A ρ) locals (st.1.mapVal (eval A ρ), st.2.mapVal (eval A ρ)) v := by
  unfold localsStep
  cases h : locals.get? v with
  | none => rfl
  | some e =>
    have hbe : binders e = [] := by
      induction locals with
      | nil => simp at h
      | cons y ys ih =>
        rw [Dict.get?_cons] at h
        by_cases hy : y.1 = v
        · simp only [hy, if_true, Option.some.injEq] at h; subst h; exact hb y (by simp)
        · simp only [hy, if_false] at h; exact ih (fun kv hkv => hb kv (by simp [hkv])) h
    simp only [Dict.mapVal_set, eval_subst_instV A ρ st.2 e hbe]

theorem localsFold_map (A : Alg V) (ρ : Env V) (locals : Dict Expr) (hb : ∀ kv ∈ locals, binders kv.2 = []) :
    ∀ (order : List String) (st : Dict Expr × Dict Expr),
    (((order.foldl (localsStep Expr.subst locals) st).1.mapVal (eval A ρ)), ((order.foldl (localsStep Expr.subst locals) st).2.mapVal (eval A ρ))) =
      order.foldl (localsStep (instV A ρ) locals) (st.1.mapVal (eval A ρ), st.2.mapVal (eval A ρ))
  | [], _ => rfl
  | v :: vs, st => by
    simp only [List.foldl_cons]
    rw [localsFold_map A ρ locals hb vs, localsStep_map A ρ locals hb]

theorem compileLocalVariables_map (A : Alg V) (ρ : Env V) (locals inputs lv : Dict Expr)
    (hb : ∀ kv ∈ locals, binders kv.2 = []) (h : compileLocalVariables locals inputs = .ok lv) :
    localsV A ρ locals (inputs.mapVal (eval A ρ)) = some (lv.mapVal (eval A ρ)) := by
  unfold compileLocalVariables at h
  unfold localsV
  cases ho : localOrder locals with
  | none => rw [ho] at h; cases h
  | some order =>
    rw [ho] at h
    simp only [pure, Except.pure, Except.ok.injEq] at h
    simp only [Option.map_some, Option.some.injEq]
    have := localsFold_map A ρ locals hb order (([] : Dict Expr), inputs)
    simp only [Dict.mapVal_nil] at this
    rw [← this, h]

/-! ### links, ports -/

theorem compileLinkedParams_map (A : Alg V) (ρ : Env V) (d : Dict Expr) (lks : Dict (List (String × String))) :
    PUpdateG.map (eval A ρ) (compileLinkedParams d lks) = linksV ρ (d.mapVal (eval A ρ)) lks := by
  unfold compileLinkedParams linksV PUpdateG.map
  rw [List.map_flatMap]
  congr 1; funext kv
  simp only [List.map_map]
  congr 1; funext t
  simp only [Function.comp]
  have : eval A ρ (Expr.subst d (.sym kv.1)) = scopeOf ρ (d.mapVal (eval A ρ)) kv.1 := by
    have := eval_subst_instV A ρ d (.sym kv.1) rfl
    simpa [instV, eval] using this
  rw [this]

theorem kids_init_map {α β : Type} (f : α → β) (ch : List Routine) :
    Dict.mapVal (Dict.mapVal f) (ch.map fun c => (c.name, ([] : Dict α))) = ch.map fun c => (c.name, ([] : Dict β)) := by
  simp [Dict.mapVal, List.map_map, Function.comp_def]

theorem pmInit_map (A : Alg V) (ρ : Env V) (lv inputs : Dict Expr) (lks : Dict (List (String × String))) (ch : List Routine) :
    (pmInit lv inputs lks ch).map (eval A ρ) = pmInitV ρ (lv.mapVal (eval A ρ)) (inputs.mapVal (eval A ρ)) lks ch := by
  unfold pmInit pmInitV
  rw [PTreeG.mergeUpd_map, compileLinkedParams_map, Dict.mapVal_merge]
  simp only [PTreeG.map, Dict.mapVal_merge, kids_init_map]

theorem portVals_map (A : Alg V) (ρ : Env V) (d : Dict Expr) (ps : List Port) (hb : ∀ p ∈ ps, binders p.size = []) :
    (evaluatePorts ps d).map (fun p => (p.name, p.dir, eval A ρ p.size)) = portValsV A ρ (d.mapVal (eval A ρ)) ps := by
  unfold evaluatePorts portValsV
  rw [List.map_map]
  apply List.map_congr_left
  intro p hp
  simp only [Function.comp, eval_subst_instV A ρ d p.size (hb p hp)]

theorem sizesOfV_map (A : Alg V) (ρ : Env V) (ps : List Port) :
    sizesOfV (ps.map fun p => (p.name, p.dir, eval A ρ p.size)) = (portSizes ps).mapVal (eval A ρ) := by
  simp [sizesOfV, portSizes, Dict.mapVal, List.map_map, Function.comp_def]

theorem portsOf_binders (ps : List Port) (ds : List Dir) (hb : ∀ p ∈ ps, binders p.size = []) :
    ∀ p ∈ Port.portsOf ps ds, binders p.size = [] := by
  intro p hp
  exact hb p (List.mem_filter.mp hp).1

/-! ### children variables, signatures -/

theorem evalTree_name (A : Alg V) (ρ : Env V) (c : CRoutine) : (evalTree A ρ c).name = c.name := by
  obtain ⟨_, _, _, _, _, _, _, _, _, _⟩ := c; rfl

theorem evalTree_resources (A : Alg V) (ρ : Env V) (c : CRoutine) :
    (evalTree A ρ c).resources = c.resources.map fun r => (r.name, r.ty, eval A ρ r.value) := by
  obtain ⟨_, _, _, _, _, _, _, _, _, _⟩ := c; rfl

theorem evalTree_ports (A : Alg V) (ρ : Env V) (c : CRoutine) :
    (evalTree A ρ c).ports = c.ports.map fun p => (p.name, p.dir, eval A ρ p.size) := by
  obtain ⟨_, _, _, _, _, _, _, _, _, _⟩ := c; rfl

theorem evalTreeList_eq_map (A : Alg V) (ρ : Env V) : ∀ (cs : List CRoutine), evalTreeList A ρ cs = cs.map (evalTree A ρ)
  | [] => rfl
  | c :: cs => by simp [evalTreeList, evalTreeList_eq_map A ρ cs]

theorem childrenVariables_map (A : Alg V) (ρ : Env V) (cs : List CRoutine) :
    (childrenVariables cs).mapVal (eval A ρ) = childrenVariablesV (evalTreeList A ρ cs) := by
  unfold childrenVariables childrenVariablesV
  rw [Dict.mapVal_ofList, evalTreeList_eq_map]
  congr 1
  simp only [Dict.mapVal, List.map_flatMap, List.flatMap_map]
  congr 1; funext c
  simp [evalTree_name, evalTree_resources, List.map_map, Function.comp_def]

theorem childSigs_eq (A : Alg V) (ρ : Env V) (cs : List CRoutine) : childSigs cs = sigsV (evalTreeList A ρ cs) := by
  unfold childSigs sigsV
  rw [evalTreeList_eq_map, List.map_map]
  apply List.map_congr_left
  intro c _
  simp [evalTree_name, evalTree_resources, List.map_map, Function.comp_def]

end Bartiq

namespace Bartiq
open Expr
variable {V : Type}

theorem resourceVals_map (A : Alg V) (ρ : Env V) (d : Dict Expr) (rs : List Resource) (hb : ∀ r ∈ rs, binders r.value = []) :
    (evaluateResources rs d).map (fun r => (r.name, r.ty, eval A ρ r.value)) =
      rs.map (fun (r : Resource) => (r.name, r.ty, instV A ρ (d.mapVal (eval A ρ)) r.value)) := by
  unfold evaluateResources
  rw [List.map_map]
  apply List.map_congr_left
  intro r hr
  simp only [Function.comp, eval_subst_instV A ρ d r.value (hb r hr)]

/-! ### repetition wrappers: the closed forms contain no iterator -/

theorem getSum_binders (cnt x : Expr) (sq : Seq) (hs : plainSeqB sq = true) (hc : binders cnt = []) (hx : binders x = [])
    (e : Expr) (h : sq.getSum cnt x = .ok e) : binders e = [] := by
  cases sq with
  | constant m =>
    simp only [plainSeqB, List.isEmpty_iff] at hs
    simp only [Seq.getSum, pure, Except.pure, Except.ok.injEq] at h
    subst h; simp [binders, hs, hc, hx]
  | arithmetic i d =>
    simp only [plainSeqB, Bool.and_eq_true, List.isEmpty_iff] at hs
    simp only [Seq.getSum, pure, Except.pure, Except.ok.injEq] at h
    subst h; simp [binders, hs.1, hs.2, hc, hx]
  | geometric r =>
    simp only [plainSeqB, List.isEmpty_iff] at hs
    simp only [Seq.getSum, pure, Except.pure, Except.ok.injEq] at h
    subst h; simp [binders, hs, hc, hx]
  | closedForm _ _ _ => simp [plainSeqB] at hs
  | custom _ _ => simp [plainSeqB] at hs

theorem getProd_binders (cnt x : Expr) (sq : Seq) (hs : plainSeqB sq = true) (hc : binders cnt = []) (hx : binders x = [])
    (e : Expr) (h : sq.getProd cnt x = .ok e) : binders e = [] := by
  cases sq with
  | constant m =>
    simp only [plainSeqB, List.isEmpty_iff] at hs
    simp only [Seq.getProd, pure, Except.pure, Except.ok.injEq] at h
    subst h; simp [binders, hs, hc, hx]
  | arithmetic i d =>
    simp only [plainSeqB, Bool.and_eq_true, List.isEmpty_iff] at hs
    simp only [Seq.getProd, pure, Except.pure, Except.ok.injEq] at h
    subst h; simp [binders, bindersList, hs.1, hs.2, hc, hx]
  | geometric r =>
    simp only [plainSeqB, List.isEmpty_iff] at hs
    simp only [Seq.getProd, pure, Except.pure, Except.ok.injEq] at h
    subst h; simp [binders, hs, hc, hx]
  | closedForm _ _ _ => simp [plainSeqB] at hs
  | custom _ _ => simp [plainSeqB] at hs

theorem foldlM_except_inv {α β ε : Type} (P : β → Prop) (f : β → α → Except ε β)
    (hf : ∀ b a b', P b → f b a = .ok b' → P b') :
    ∀ (l : List α) (b b' : β), P b → l.foldlM f b = .ok b' → P b'
  | [], b, b', hb, h => by
    simp only [List.foldlM, pure, Except.pure, Except.ok.injEq] at h
    subst h; exact hb
  | a :: l, b, b', hb, h => by
    simp only [List.foldlM] at h
    obtain ⟨b1, h1, h2⟩ := Except.bind_ok h
    exact foldlM_except_inv P f hf l b1 b' (hf b a b1 hb h1) h2

theorem mem_resource_set (acc : List Resource) (z y : Resource) (h : y ∈ Resource.set acc z) : y ∈ acc ∨ y = z := by
  induction acc with
  | nil => simp only [Resource.set, List.mem_singleton] at h; exact Or.inr h
  | cons a as ih =>
    simp only [Resource.set] at h
    split at h
    · simp only [List.mem_cons] at h
      rcases h with rfl | h
      · exact Or.inr rfl
      · exact Or.inl (by simp [h])
    · simp only [List.mem_cons] at h
      rcases h with rfl | h
      · exact Or.inl (by simp)
      · rcases ih h with h | h
        · exact Or.inl (by simp [h])
        · exact Or.inr h

/-- the resources a plain repetition wrapper gets contain no iterator -/
theorem processRepeatedResources_binders (rp : Repetition) (rs : List Resource) (sigs : List (String × List (String × ResTy)))
    (hc : binders rp.count = []) (hs : plainSeqB rp.seq = true) (rs' : List Resource)
    (h : processRepeatedResources rp rs sigs = .ok rs') : ∀ r ∈ rs', binders r.value = [] := by
  unfold processRepeatedResources at h
  split at h
  · rename_i childName childRes
    split at h
    · simp [throw, throwThe, MonadExceptOf.throw] at h
    refine foldlM_except_inv (fun (acc : List Resource) => ∀ r ∈ acc, binders r.value = []) _ ?_ childRes [] rs'
      (by intro r hr; cases hr) h
    intro acc nt acc' hacc hstep
    cases hty : nt.2 with
    | additive =>
      simp only [hty] at hstep
      obtain ⟨e, he, hstep⟩ := Except.bind_ok hstep
      simp only [pure, Except.pure, Except.ok.injEq] at hstep
      subst hstep
      intro r hr
      rcases mem_resource_set _ _ _ hr with hr | rfl
      · exact hacc r hr
      · exact getSum_binders _ _ _ hs hc rfl e he
    | multiplicative =>
      simp only [hty] at hstep
      obtain ⟨e, he, hstep⟩ := Except.bind_ok hstep
      simp only [pure, Except.pure, Except.ok.injEq] at hstep
      subst hstep
      intro r hr
      rcases mem_resource_set _ _ _ hr with hr | rfl
      · exact hacc r hr
      · exact getProd_binders _ _ _ hs hc rfl e he
    | qubits =>
      simp only [hty] at hstep
      split at hstep
      · simp only [pure, Except.pure, Except.ok.injEq] at hstep
        subst hstep; exact hacc
      · simp [throw, throwThe, MonadExceptOf.throw] at hstep
    | other =>
      simp only [hty] at hstep
      simp [throw, throwThe, MonadExceptOf.throw] at hstep
  · simp [throw, throwThe, MonadExceptOf.throw] at h

/-- the resources that get evaluated (the node's own, or the closed forms of a repetition wrapper) contain no iterator, and
    the value-level evaluator picks the same ones -/
theorem repStep_resources (A : Alg V) (ρ : Env V) (rep : Option Repetition) (rs : List Resource) (ccs : List CRoutine)
    (d : Dict Expr) (res : List Resource) (rep' : Option Repetition)
    (hrp : repStep rep rs ccs d = .ok (res, rep')) (hrep : plainRepB rep = true) (hbr : ∀ r ∈ rs, binders r.value = []) :
    repResourcesV rep rs (sigsV (evalTreeList A ρ ccs)) = some res ∧ ∀ r ∈ res, binders r.value = [] := by
  cases rep with
  | none =>
    simp only [repStep, pure, Except.pure, Except.ok.injEq, Prod.mk.injEq] at hrp
    rw [← hrp.1]; exact ⟨rfl, hbr⟩
  | some rp =>
    simp only [repStep] at hrp
    obtain ⟨rs', hrs', hrp⟩ := Except.bind_ok hrp
    obtain ⟨rp2, _, hrp⟩ := Except.bind_ok hrp
    simp only [pure, Except.pure, Except.ok.injEq, Prod.mk.injEq] at hrp
    simp only [plainRepB, Bool.and_eq_true, List.isEmpty_iff] at hrep
    refine ⟨?_, by rw [← hrp.1]; exact processRepeatedResources_binders rp rs _ hrep.1 hrep.2 rs' hrs'⟩
    simp only [repResourcesV, ← childSigs_eq A ρ ccs, hrs', exceptToOption, hrp.1]

theorem plainB_node {name : String} {ty : Option String} {ips : List String} {lvs : Dict Expr} {lks : Dict (List (String × String))}
    {ps : List Port} {rs : List Resource} {cs : List (Endpoint × Endpoint)} {rep : Option Repetition} {cons : List Constraint}
    {ch : List Routine} {ord : List String}
    (h : plainB ⟨name, ty, ips, lvs, lks, ps, rs, cs, rep, cons, ch, ord⟩ = true) :
    (∀ kv ∈ lvs, binders kv.2 = []) ∧ (∀ p ∈ ps, binders p.size = []) ∧ (∀ r ∈ rs, binders r.value = []) ∧ plainRepB rep = true ∧
      plainListB ch = true := by
  simp only [plainB, Bool.and_eq_true, List.all_eq_true, List.isEmpty_iff] at h
  obtain ⟨⟨⟨⟨h1, h2⟩, h3⟩, h4⟩, h5⟩ := h
  exact ⟨h1, h2, h3, h4, h5⟩

mutual
/-- **Layer B, node**: the values of the compiled node (and everything below it) at any point ρ are the values the
    value-level evaluator computes from the source, handing down the values of the inputs. -/
theorem compile_refines_denoteV (A : Alg V) (ρ : Env V) (C : Comparator) :
    ∀ (r : Routine) (σ : Dict Expr) (path : String) (c : CRoutine), compile C σ path r = .ok c → plainB r = true →
      denoteV A ρ (σ.mapVal (eval A ρ)) r = some (evalTree A ρ c)
  | ⟨name, ty, ips, lvs, lks, ps, rs, cs, rep, cons, ch, ord⟩, σ, path, c, h, hp => by
    obtain ⟨⟨lv, nc, upd, pm2, ccs, res, rep', hlv0, hnc, hupd, hch, hrp, hc⟩⟩ := compile_trace h
    obtain ⟨hbl, hbp, hbr, hrep, hpc⟩ := plainB_node hp
    have hlv := compileLocalVariables_map A ρ lvs σ lv hbl hlv0
    simp only at hupd hch hrp hc
    have hres := repStep_resources A ρ rep rs ccs _ res rep' hrp hrep hbr
    subst hc
    have ih := compileChildren_refines_denoteV A ρ C ch cs path _ pm2 ccs hch hpc
    -- unfold the evaluator and rewrite step by step
    simp only [denoteV, hlv, Option.bind_some]
    rw [← pmInit_map A ρ lv σ lks ch]
    have hself : ((pmInit lv σ lks ch).map (eval A ρ)).self = (pmInit lv σ lks ch).self.mapVal (eval A ρ) := rfl
    rw [hself, ← portVals_map A ρ _ _ (portsOf_binders ps _ hbp), sizesOfV_map, paramTreeFromSizes_map]
    unfold paramTreeFromCompiledPorts at hupd
    rw [hupd]
    simp only [Except.map, exceptToOption, Option.bind_some]
    rw [← PTreeG.mergeUpd_map, ih]
    simp only [Option.bind_some]
    have hself2 : (pm2.map (eval A ρ)).self = pm2.self.mapVal (eval A ρ) := rfl
    rw [hself2, ← childrenVariables_map, ← Dict.mapVal_merge]
    rw [hres.1]
    simp only [Option.bind_some]
    rw [← portVals_map A ρ _ _ (portsOf_binders ps _ hbp), ← resourceVals_map A ρ _ res hres.2]
    simp only [evalTree, finishNode, List.map_append]
theorem compileChildren_refines_denoteV (A : Alg V) (ρ : Env V) (C : Comparator) :
    ∀ (ch : List Routine) (conns : List (Endpoint × Endpoint)) (path : String) (pm pm' : PTree) (ccs : List CRoutine),
      compileChildren C conns path pm ch = .ok (pm', ccs) → plainListB ch = true →
      denoteChildrenV A ρ conns (pm.map (eval A ρ)) ch = some (pm'.map (eval A ρ), evalTreeList A ρ ccs)
  | [], _, _, pm, pm', ccs, h, _ => by
    obtain ⟨rfl, rfl⟩ := compileChildren_nil h
    rfl
  | c :: cs, conns, path, pm, pm', ccs, h, hp => by
    obtain ⟨cc, upd, ccs', hcc, hupd, hrest, rfl⟩ := compileChildren_cons h
    simp only [plainListB, Bool.and_eq_true] at hp
    have ih1 := compile_refines_denoteV A ρ C c _ _ cc hcc hp.1
    have ih2 := compileChildren_refines_denoteV A ρ C cs conns path _ pm' ccs' hrest hp.2
    have hk : ((pm.map (eval A ρ)).kids.get? c.name).getD [] = (((pm.kids.get? c.name).getD []).mapVal (eval A ρ)) := by
      simp only [PTreeG.map, Dict.get?_mapVal]
      cases pm.kids.get? c.name <;> rfl
    simp only [denoteChildrenV, hk, ih1, Option.bind_some, evalTree_ports, sizesOfV_map, paramTreeFromSizes_map]
    unfold paramTreeFromCompiledPorts at hupd
    rw [hupd]
    simp only [Except.map, exceptToOption, Option.bind_some]
    rw [← PTreeG.mergeUpd_map, ih2]
    simp only [Option.bind_some, evalTreeList]
end

end Bartiq
