/-
  Well-scopedness, semantically: a routine is well-scoped relative to a set G of top-level names when its bottom-up reading
  (`denoteV`) is DEFINED everywhere as soon as exactly the names of G are given values.  Reading the expressions in the
  one-point algebra (every operation total, a symbol defined iff it is in the environment) turns "defined" into "mentions
  only names of the environment"; the refinement theorem then transports well-scopedness of the source into closedness of
  the compiled hierarchy.
-/
import BartiqProofs.Refinement
namespace Bartiq
open Expr

theorem evalList_defined (ρ : Env Unit) : ∀ (args : List Expr), evalList unitAlg ρ args ≠ none →
    ∀ a ∈ args, eval unitAlg ρ a ≠ none
  | [], _, _, ha => by cases ha
  | b :: bs, h, a, ha => by
    simp only [evalList] at h
    cases hb : eval unitAlg ρ b with
    | none => rw [hb] at h; simp at h
    | some v =>
      rw [hb] at h
      simp only [Option.bind_some] at h
      rcases List.mem_cons.mp ha with rfl | hm
      · rw [hb]; simp
      · apply evalList_defined ρ bs _ a hm
        intro hn; rw [hn] at h; simp at h

/-- in the one-point interpretation an expression is defined only if every free symbol is given -/
theorem eval_defined_fv : ∀ (e : Expr) (ρ : Env Unit), eval unitAlg ρ e ≠ none → ∀ x ∈ fv e, ρ x ≠ none := by
  apply Expr.ind
  · intro q ρ _ x hx; simp [fv] at hx
  · intro s ρ h x hx
    simp only [fv, List.mem_singleton] at hx
    subst hx
    simpa [eval] using h
  · intro a iha ρ h x hx
    simp only [eval] at h
    apply iha ρ _ x (by simpa [fv] using hx)
    intro hn; rw [hn] at h; simp at h
  · intro op a b iha ihb ρ h x hx
    simp only [eval] at h
    cases ha : eval unitAlg ρ a with
    | none => rw [ha] at h; simp at h
    | some va =>
      cases hb : eval unitAlg ρ b with
      | none => rw [ha, hb] at h; simp at h
      | some vb =>
        simp only [fv, List.mem_append] at hx
        rcases hx with hx | hx
        · exact iha ρ (by rw [ha]; simp) x hx
        · exact ihb ρ (by rw [hb]; simp) x hx
  · intro f args ih ρ h x hx
    simp only [eval] at h
    have hl : evalList unitAlg ρ args ≠ none := by
      intro hn; rw [hn] at h; simp at h
    have hall := evalList_defined ρ args hl
    -- x is free in one of the arguments
    have : ∀ (as : List Expr), x ∈ fvList as → ∃ a ∈ as, x ∈ fv a := by
      intro as
      induction as with
      | nil => intro h; simp [fvList] at h
      | cons a as iha =>
        intro h
        simp only [fvList, List.mem_append] at h
        rcases h with h | h
        · exact ⟨a, by simp, h⟩
        · obtain ⟨a', ha', hx'⟩ := iha h
          exact ⟨a', by simp [ha'], hx'⟩
    obtain ⟨a, ha, hxa⟩ := this args (by simpa [fv] using hx)
    exact ih a ha ρ (hall a ha) x hxa
  · intro k body i lo hi ihb ihl ihh ρ h x hx
    simp only [eval] at h
    cases hl : eval unitAlg ρ lo with
    | none => rw [hl] at h; simp at h
    | some vl =>
      cases hh : eval unitAlg ρ hi with
      | none => rw [hl, hh] at h; simp at h
      | some vh =>
        rw [hl, hh] at h
        simp only [Option.bind_some, unitAlg] at h
        simp only [fv, List.mem_append, List.mem_filter] at hx
        rcases hx with (⟨hxb, hne⟩ | hx) | hx
        · have := ihb (ρ.update i (some ())) h x hxb
          have hxi : ¬ x = i := by simpa using hne
          simpa [Env.update, hxi] using this
        · exact ihl ρ (by rw [hl]; simp) x hx
        · exact ihh ρ (by rw [hh]; simp) x hx

theorem fv_subset_of_defined (G : List String) (e : Expr) (h : eval unitAlg (envOf G) e ≠ none) : ∀ x ∈ fv e, x ∈ G := by
  intro x hx
  have := eval_defined_fv e (envOf G) h x hx
  unfold envOf at this
  by_cases hg : x ∈ G
  · exact hg
  · simp [hg] at this

mutual
/-- every port size and every resource of every node of the compiled hierarchy only mentions names of `G` -/
def CRoutine.closedOver (G : List String) : CRoutine → Prop
  | ⟨_, _, _, ps, rs, _, _, _, ch, _⟩ =>
    (∀ p ∈ ps, ∀ x ∈ fv p.size, x ∈ G) ∧ (∀ r ∈ rs, ∀ x ∈ fv r.value, x ∈ G) ∧ CRoutine.closedOverList G ch
def CRoutine.closedOverList (G : List String) : List CRoutine → Prop
  | [] => True
  | c :: cs => c.closedOver G ∧ CRoutine.closedOverList G cs
end

mutual
theorem closed_of_allDefined (G : List String) : ∀ (c : CRoutine), (evalTree unitAlg (envOf G) c).allDefined = true → c.closedOver G
  | ⟨n, ty, ips, ps, rs, cs, rep, cons, ch, ord⟩, h => by
    simp only [evalTree, NVal.allDefined, Bool.and_eq_true, List.all_eq_true, List.mem_map, forall_exists_index, and_imp,
      forall_apply_eq_imp_iff₂] at h
    obtain ⟨⟨hp, hr⟩, hc⟩ := h
    refine ⟨fun p hpm x hx => ?_, fun r hrm x hx => ?_, closedList_of_allDefined G ch hc⟩
    · exact fv_subset_of_defined G p.size (by have := hp p hpm; intro hn; rw [hn] at this; simp at this) x hx
    · exact fv_subset_of_defined G r.value (by have := hr r hrm; intro hn; rw [hn] at this; simp at this) x hx
theorem closedList_of_allDefined (G : List String) : ∀ (cs : List CRoutine),
    NVal.allDefinedList (evalTreeList unitAlg (envOf G) cs) = true → CRoutine.closedOverList G cs
  | [], _ => trivial
  | c :: cs, h => by
    simp only [evalTreeList, NVal.allDefinedList, Bool.and_eq_true] at h
    exact ⟨closed_of_allDefined G c h.1, closedList_of_allDefined G cs h.2⟩
end

end Bartiq
