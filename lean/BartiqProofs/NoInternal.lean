/-
  BartiqProofs.NoInternal — `_compile` raises nothing but its own error classes: the places where the Python code would fail
  with `KeyError` / `CycleError` / `AssertionError` (modelled as `Err.internal`) are unreachable on soundly wired trees.
-/
import BartiqProofs.CompileSpec
import BartiqModel.Sound
import BartiqModel.Functions
namespace Bartiq

theorem Except.bind_error {ε α β : Type} {x : Except ε α} {f : α → Except ε β} {e : ε}
    (h : (x >>= f) = .error e) : x = .error e ∨ ∃ a, x = .ok a ∧ f a = .error e := by
  cases x with
  | error e' => left; simpa [bind, Except.bind] using h
  | ok a => right; exact ⟨a, rfl, by simpa [bind, Except.bind] using h⟩

theorem mapM_error {ε α β : Type} (f : α → Except ε β) : ∀ (l : List α) (e : ε), l.mapM f = .error e → ∃ a ∈ l, f a = .error e
  | [], e, h => by simp [List.mapM_nil, pure, Except.pure] at h
  | a :: l, e, h => by
    rw [List.mapM_cons] at h
    rcases Except.bind_error h with h1 | ⟨b, _, h2⟩
    · exact ⟨a, by simp, h1⟩
    · rcases Except.bind_error h2 with h3 | ⟨bs, _, h4⟩
      · obtain ⟨x, hx, hfx⟩ := mapM_error f l e h3
        exact ⟨x, by simp [hx], hfx⟩
      · simp [pure, Except.pure] at h4

theorem compileLocalVariables_error {lvs inputs : Dict Expr} {e : Err} (h : compileLocalVariables lvs inputs = .error e) :
    localOrder lvs = none := by
  unfold compileLocalVariables at h
  cases ho : localOrder lvs with
  | none => rfl
  | some o => simp [ho, pure, Except.pure] at h

theorem evaluateConstraints_error {C : Comparator} {cs : List Constraint} {σ : Dict Expr} {path : String} {e : Err}
    (h : evaluateConstraints C cs σ path = .error e) : e.isInternal = false := by
  unfold evaluateConstraints at h
  obtain ⟨c, _, hc⟩ := mapM_error _ _ _ h
  cases hcc : evaluateConstraint C c σ with
  | ok nc => simp [hcc, pure, Except.pure] at hc
  | error x => simp only [hcc, throw, throwThe, MonadExceptOf.throw, Except.error.injEq] at hc; subst hc; rfl

theorem paramTreeFromSizes_error {α : Type} {cm : List (String × Endpoint)} {sizes : Dict α} {e : Err}
    (h : paramTreeFromSizes cm sizes = .error e) : ∃ st ∈ cm, sizes.get? st.1 = none := by
  unfold paramTreeFromSizes at h
  obtain ⟨st, hst, hf⟩ := mapM_error _ _ _ h
  refine ⟨st, hst, ?_⟩
  cases hs : sizes.get? st.1 with
  | none => rfl
  | some s => simp [hs, pure, Except.pure] at hf

theorem get?_portSizes_of_mem : ∀ (ports : List Port) (n : String), (∃ p ∈ ports, p.name = n) → (portSizes ports).get? n ≠ none
  | [], _, ⟨_, hp, _⟩ => by simp at hp
  | q :: ports, n, ⟨p, hp, hn⟩ => by
    simp only [portSizes, List.map_cons, Dict.get?]
    by_cases hq : q.name = n
    · simp [hq]
    · simp only [hq, if_false]
      rcases List.mem_cons.mp hp with rfl | hp'
      · exact absurd hn hq
      · exact get?_portSizes_of_mem ports n ⟨p, hp', hn⟩

theorem mem_connectionsFrom {conns : List (Endpoint × Endpoint)} {src : Option String} {st : String × Endpoint}
    (h : st ∈ connectionsFrom conns src) : ∃ c ∈ conns, c.1.routine = src ∧ c.1.port = st.1 := by
  unfold connectionsFrom at h
  obtain ⟨c, hc, rfl⟩ := List.mem_map.mp h
  have := List.mem_filter.mp hc
  exact ⟨c, this.1, by simpa using this.2, rfl⟩

/-- the compiled node has a port for every port of the source -/
theorem finishNode_has_port (name : String) (ty : Option String) (ips : List String) (inputs : Dict Expr) (ps : List Port)
    (cs : List (Endpoint × Endpoint)) (ord : List String) (nc : List Constraint) (σ₁ σ₂ : Dict Expr) (res : List Resource)
    (rep : Option Repetition) (ccs : List CRoutine) (n : String) (h : ∃ p ∈ ps, p.name = n) :
    ∃ p ∈ (finishNode name ty ips inputs ps cs ord nc (evaluatePorts (Port.portsOf ps [.input, .through]) σ₁) σ₂ res rep ccs).ports,
      p.name = n := by
  obtain ⟨p, hp, hn⟩ := h
  simp only [finishNode, evaluatePorts, List.mem_append, List.mem_map]
  cases hd : p.dir with
  | output =>
    exact ⟨{ p with size := Expr.subst σ₂ p.size }, Or.inr ⟨p, by simp [Port.portsOf, hp, hd], rfl⟩, hn⟩
  | input =>
    exact ⟨{ p with size := Expr.subst σ₁ p.size }, Or.inl ⟨p, by simp [Port.portsOf, hp, hd], rfl⟩, hn⟩
  | through =>
    exact ⟨{ p with size := Expr.subst σ₁ p.size }, Or.inl ⟨p, by simp [Port.portsOf, hp, hd], rfl⟩, hn⟩

theorem compile_has_port {C : Comparator} {inputs : Dict Expr} {path : String} {r : Routine} {c : CRoutine}
    (h : compile C inputs path r = .ok c) (n : String) (hn : ∃ p ∈ r.ports, p.name = n) : ∃ p ∈ c.ports, p.name = n := by
  obtain ⟨t⟩ := compile_trace h
  rw [t.hc]
  exact finishNode_has_port _ _ _ _ _ _ _ _ _ _ _ _ _ n hn

theorem foldlM_error {ε α β : Type} (f : β → α → Except ε β) : ∀ (l : List α) (b : β) (e : ε),
    l.foldlM f b = .error e → ∃ b' a, a ∈ l ∧ f b' a = .error e
  | [], b, e, h => by simp [List.foldlM, pure, Except.pure] at h
  | a :: l, b, e, h => by
    simp only [List.foldlM] at h
    rcases Except.bind_error h with h1 | ⟨b1, _, h2⟩
    · exact ⟨b, a, by simp, h1⟩
    · obtain ⟨b', a', ha', hf⟩ := foldlM_error f l b1 e h2
      exact ⟨b', a', by simp [ha'], hf⟩

theorem getSum_error {count x : Expr} {s : Seq} {e : Err} (hs : s.iteratorOK = true) (h : s.getSum count x = .error e) :
    e.isInternal = false := by
  cases s with
  | constant m => simp [Seq.getSum, pure, Except.pure] at h
  | arithmetic a d => simp [Seq.getSum, pure, Except.pure] at h
  | geometric r => simp [Seq.getSum, pure, Except.pure] at h
  | closedForm sm pr n =>
    cases sm with
    | none => simp only [Seq.getSum, throw, throwThe, MonadExceptOf.throw, Except.error.injEq] at h; subst h; rfl
    | some sm => cases n <;> simp [Seq.getSum, pure, Except.pure] at h
  | custom t i =>
    cases i <;> first | (simp [Seq.getSum, pure, Except.pure] at h; done) | (simp [Seq.iteratorOK] at hs)

theorem getProd_error {count x : Expr} {s : Seq} {e : Err} (hs : s.iteratorOK = true) (h : s.getProd count x = .error e) :
    e.isInternal = false := by
  cases s with
  | constant m => simp [Seq.getProd, pure, Except.pure] at h
  | arithmetic a d => simp [Seq.getProd, pure, Except.pure] at h
  | geometric r => simp [Seq.getProd, pure, Except.pure] at h
  | closedForm sm pr n =>
    cases pr with
    | none => simp only [Seq.getProd, throw, throwThe, MonadExceptOf.throw, Except.error.injEq] at h; subst h; rfl
    | some pr => cases n <;> simp [Seq.getProd, pure, Except.pure] at h
  | custom t i =>
    cases i <;> first | (simp [Seq.getProd, pure, Except.pure] at h; done) | (simp [Seq.iteratorOK] at hs)

theorem substituteSymbols_error {σ : Dict Expr} {rp : Repetition} {e : Err} (h : rp.substituteSymbols σ = .error e) :
    e.isInternal = false := by
  unfold Repetition.substituteSymbols at h
  rcases Except.bind_error h with h | ⟨s, _, h⟩
  · cases hs : rp.seq with
    | custom t i =>
      rw [hs] at h
      cases i with
      | sym it =>
        simp only [Seq.substituteSymbols] at h
        split at h
        · simp only [throw, throwThe, MonadExceptOf.throw, Except.error.injEq] at h; subst h; rfl
        · simp [pure, Except.pure] at h
      | _ => simp [Seq.substituteSymbols, pure, Except.pure] at h
    | _ => rw [hs] at h; simp [Seq.substituteSymbols, pure, Except.pure] at h
  · simp [pure, Except.pure] at h

/-- the repeated-resources step fails internally only when one of its assertions fails -/
theorem processRepeatedResources_error {rp : Repetition} {rs : List Resource} {cn : String} {cr : List (String × ResTy)} {e : Err}
    (hit : rp.seq.iteratorOK = true) (hok : rs.all (repResourceOK cn cr) = true)
    (h : processRepeatedResources rp rs [(cn, cr)] = .error e) : e.isInternal = false := by
  unfold processRepeatedResources at h
  simp only [hok, Bool.not_true, Bool.false_eq_true, if_false] at h
  obtain ⟨acc, nt, _, hf⟩ := foldlM_error _ _ _ _ h
  cases hty : nt.2 with
  | additive =>
    simp only [hty] at hf
    rcases Except.bind_error hf with hf | ⟨v, _, hf⟩
    · exact getSum_error hit hf
    · simp [pure, Except.pure] at hf
  | multiplicative =>
    simp only [hty] at hf
    rcases Except.bind_error hf with hf | ⟨v, _, hf⟩
    · exact getProd_error hit hf
    · simp [pure, Except.pure] at hf
  | qubits =>
    simp only [hty] at hf
    split at hf
    · simp [pure, Except.pure] at hf
    · simp only [throw, throwThe, MonadExceptOf.throw, Except.error.injEq] at hf; subst hf; rfl
  | other =>
    simp only [hty, throw, throwThe, MonadExceptOf.throw, Except.error.injEq] at hf; subst hf; rfl

/-! ### which additive/multiplicative resources a compiled node certainly carries -/

theorem set_keeps (acc : List Resource) (z : Resource) (m : String) (hz : z.ty.isAM = true)
    (h : ∃ y ∈ acc, y.name = m ∧ y.ty.isAM = true) : ∃ y ∈ Resource.set acc z, y.name = m ∧ y.ty.isAM = true := by
  induction acc with
  | nil => obtain ⟨y, hy, _⟩ := h; cases hy
  | cons a as ih =>
    obtain ⟨y, hy, hn, ht⟩ := h
    simp only [Resource.set]
    split
    · rename_i hname
      rcases List.mem_cons.mp hy with rfl | hy'
      · exact ⟨z, by simp, by rw [← hname, hn], hz⟩
      · exact ⟨y, by simp [hy'], hn, ht⟩
    · rcases List.mem_cons.mp hy with rfl | hy'
      · exact ⟨y, by simp, hn, ht⟩
      · obtain ⟨y', hy', h'⟩ := ih ⟨y, hy', hn, ht⟩
        exact ⟨y', by simp [hy'], h'⟩

theorem set_has (acc : List Resource) (z : Resource) : ∃ y ∈ Resource.set acc z, y.name = z.name ∧ y.ty = z.ty := by
  induction acc with
  | nil => exact ⟨z, by simp [Resource.set], rfl, rfl⟩
  | cons a as ih =>
    simp only [Resource.set]
    split
    · exact ⟨z, by simp, rfl, rfl⟩
    · obtain ⟨y, hy, h'⟩ := ih
      exact ⟨y, by simp [hy], h'⟩

theorem foldlM_am {α : Type} (f : List Resource → α → Except Err (List Resource)) (key : α → String × ResTy)
    (hstep : ∀ acc a acc', f acc a = .ok acc' →
      (∀ m, (∃ y ∈ acc, y.name = m ∧ y.ty.isAM = true) → ∃ y ∈ acc', y.name = m ∧ y.ty.isAM = true) ∧
      ((key a).2.isAM = true → ∃ y ∈ acc', y.name = (key a).1 ∧ y.ty.isAM = true)) (n : String) :
    ∀ (l : List α) (acc out : List Resource), l.foldlM f acc = .ok out →
      ((∃ y ∈ acc, y.name = n ∧ y.ty.isAM = true) ∨ (∃ a ∈ l, (key a).1 = n ∧ (key a).2.isAM = true)) →
      ∃ y ∈ out, y.name = n ∧ y.ty.isAM = true
  | [], acc, out, h, hor => by
    simp only [List.foldlM, pure, Except.pure, Except.ok.injEq] at h
    subst h
    rcases hor with h1 | ⟨_, hm, _⟩
    · exact h1
    · cases hm
  | a :: l, acc, out, h, hor => by
    simp only [List.foldlM] at h
    obtain ⟨acc1, hs, hrest⟩ := Except.bind_ok h
    obtain ⟨hkeep, hnew⟩ := hstep acc a acc1 hs
    apply foldlM_am f key hstep n l acc1 out hrest
    rcases hor with h1 | ⟨a', hm, hn1, hn2⟩
    · exact Or.inl (hkeep n h1)
    · rcases List.mem_cons.mp hm with rfl | hm'
      · left; rw [← hn1]; exact hnew hn2
      · exact Or.inr ⟨a', hm', hn1, hn2⟩

/-- a successful repeated-resources step carries every additive/multiplicative resource of the compiled child -/
theorem processRepeatedResources_am {rp : Repetition} {rs : List Resource} {cn : String} {cr : List (String × ResTy)}
    {out : List Resource} (h : processRepeatedResources rp rs [(cn, cr)] = .ok out) (n : String)
    (hn : ∃ nt ∈ cr, nt.1 = n ∧ nt.2.isAM = true) : ∃ y ∈ out, y.name = n ∧ y.ty.isAM = true := by
  unfold processRepeatedResources at h
  split at h
  · rename_i childName childRes heq
    simp only [List.cons.injEq, Prod.mk.injEq, and_true] at heq
    obtain ⟨rfl, rfl⟩ := heq
    split at h
    · simp [throw, throwThe, MonadExceptOf.throw] at h
    refine foldlM_am _ id ?_ n cr [] out h (Or.inr hn)
    intro acc nt acc' hstep
    cases hty : nt.2 with
    | additive =>
      simp only [hty] at hstep
      obtain ⟨v, _, hstep⟩ := Except.bind_ok hstep
      simp only [pure, Except.pure, Except.ok.injEq] at hstep
      subst hstep
      refine ⟨fun m hm => set_keeps acc _ m (by simp [ResTy.isAM]) hm, fun _ => ?_⟩
      obtain ⟨y, hy, hy1, hy2⟩ := set_has acc ⟨nt.1, ResTy.additive, v⟩
      exact ⟨y, hy, hy1, by rw [hy2]; rfl⟩
    | multiplicative =>
      simp only [hty] at hstep
      obtain ⟨v, _, hstep⟩ := Except.bind_ok hstep
      simp only [pure, Except.pure, Except.ok.injEq] at hstep
      subst hstep
      refine ⟨fun m hm => set_keeps acc _ m (by simp [ResTy.isAM]) hm, fun _ => ?_⟩
      obtain ⟨y, hy, hy1, hy2⟩ := set_has acc ⟨nt.1, ResTy.multiplicative, v⟩
      exact ⟨y, hy, hy1, by rw [hy2]; rfl⟩
    | qubits =>
      simp only [hty] at hstep
      split at hstep
      · simp only [pure, Except.pure, Except.ok.injEq] at hstep
        subst hstep
        exact ⟨fun m hm => hm, fun hq => by simp [id, hty, ResTy.isAM] at hq⟩
      · simp [throw, throwThe, MonadExceptOf.throw] at hstep
    | other =>
      simp only [hty] at hstep
      simp [throw, throwThe, MonadExceptOf.throw] at hstep
  · rename_i hne
    exact (hne cn cr rfl).elim

theorem compileChildren_length {C : Comparator} : ∀ {ch : List Routine} {conns : List (Endpoint × Endpoint)} {path : String}
    {pm pm' : PTree} {ccs : List CRoutine}, compileChildren C conns path pm ch = .ok (pm', ccs) → ccs.length = ch.length
  | [], _, _, _, _, _, h => by rw [(compileChildren_nil h).2]; rfl
  | _ :: cs, _, _, _, _, _, h => by
    obtain ⟨cc, upd, ccs', _, _, hrest, rfl⟩ := compileChildren_cons h
    simp [compileChildren_length hrest]

mutual
/-- **a compiled node carries an additive/multiplicative resource under every name of `amNames`** -/
theorem compile_am (C : Comparator) : ∀ (r : Routine) (inputs : Dict Expr) (path : String) (c : CRoutine),
    compile C inputs path r = .ok c → ∀ n ∈ r.amNames, ∃ x ∈ c.resources, x.name = n ∧ x.ty.isAM = true
  | ⟨name, ty, ips, lvs, lks, ps, rs, cs, rep, cons, ch, ord⟩, inputs, path, c, h, n, hn => by
    obtain ⟨t⟩ := compile_trace h
    have hres : ∃ x ∈ t.res, x.name = n ∧ x.ty.isAM = true := by
      have hr := t.hrep
      cases rep with
      | none =>
        simp only [repStep, pure, Except.pure, Except.ok.injEq, Prod.mk.injEq] at hr
        simp only [Routine.amNames, List.mem_map, List.mem_filter] at hn
        obtain ⟨x, ⟨hx1, hx2⟩, hx3⟩ := hn
        exact ⟨x, by rw [← hr.1]; exact hx1, hx3, hx2⟩
      | some rp =>
        simp only [repStep] at hr
        obtain ⟨rs', hrs', hr⟩ := Except.bind_ok hr
        obtain ⟨rp2, _, hr⟩ := Except.bind_ok hr
        simp only [pure, Except.pure, Except.ok.injEq, Prod.mk.injEq] at hr
        rw [← hr.1]
        simp only [Routine.amNames] at hn
        obtain ⟨cc, hccs, x, hx, hx1, hx2⟩ := compileChildren_am C ch cs path _ t.pm2 t.ccs t.hch n hn
        rw [hccs] at hrs'
        simp only [childSigs, List.map_cons, List.map_nil] at hrs'
        exact processRepeatedResources_am hrs' n ⟨(x.name, x.ty), List.mem_map.mpr ⟨x, hx, rfl⟩, hx1, hx2⟩
    obtain ⟨x, hx, hx1, hx2⟩ := hres
    rw [t.hc]
    simp only [finishNode, evaluateResources, List.mem_map]
    exact ⟨{ x with value := Expr.subst _ x.value }, ⟨x, hx, rfl⟩, hx1, hx2⟩
theorem compileChildren_am (C : Comparator) : ∀ (ch : List Routine) (conns : List (Endpoint × Endpoint)) (path : String)
    (pm pm' : PTree) (ccs : List CRoutine), compileChildren C conns path pm ch = .ok (pm', ccs) →
    ∀ n ∈ Routine.amNamesOnly ch, ∃ cc, ccs = [cc] ∧ ∃ x ∈ cc.resources, x.name = n ∧ x.ty.isAM = true
  | [], _, _, _, _, _, _, n, hn => by simp [Routine.amNamesOnly] at hn
  | [k], conns, path, pm, pm', ccs, h, n, hn => by
    simp only [Routine.amNamesOnly] at hn
    obtain ⟨cc, upd, ccs', hcc, _, hrest, hccs⟩ := compileChildren_cons h
    have hnil := (compileChildren_nil hrest).2
    subst hnil
    exact ⟨cc, hccs, compile_am C k _ _ cc hcc n hn⟩
  | _ :: _ :: _, _, _, _, _, _, _, n, hn => by simp [Routine.amNamesOnly] at hn
end

mutual
/-- **`_compile` fails only with its own error classes** on soundly wired trees (repetitions of every kind included) -/
theorem compile_no_internal (C : Comparator) : ∀ (r : Routine) (inputs : Dict Expr) (path : String) (e : Err),
    r.sound = true → compile C inputs path r = .error e → e.isInternal = false
  | ⟨name, ty, ips, lvs, lks, ps, rs, cs, rep, cons, ch, ord⟩, inputs, path, e, hs, h => by
    simp only [Routine.sound, Bool.and_eq_true, Option.isSome_iff_ne_none, ne_eq, List.all_eq_true] at hs
    obtain ⟨⟨⟨hlo, hrep⟩, hcs⟩, hch⟩ := hs
    simp only [compile] at h
    rcases Except.bind_error h with h | ⟨lv, _, h⟩
    · exact absurd (compileLocalVariables_error h) hlo
    rcases Except.bind_error h with h | ⟨nc, _, h⟩
    · exact evaluateConstraints_error h
    rcases Except.bind_error h with h | ⟨upd, _, h⟩
    · exfalso
      obtain ⟨st, hst, hnone⟩ := paramTreeFromSizes_error h
      obtain ⟨c, hc, hr, hp⟩ := mem_connectionsFrom hst
      have := hcs c hc
      simp only [hr, List.any_eq_true, beq_iff_eq] at this
      obtain ⟨p, hp1, hp2⟩ := this
      have hmem : ∃ q ∈ evaluatePorts (Port.portsOf ps [.input, .through]) (pmInit lv inputs lks ch).self, q.name = st.1 := by
        simp only [evaluatePorts, List.mem_map]
        exact ⟨_, ⟨p, hp1, rfl⟩, by simpa [hp] using hp2⟩
      exact get?_portSizes_of_mem _ st.1 hmem hnone
    rcases Except.bind_error h with h | ⟨⟨pm2, ccs⟩, hchildren, h⟩
    · refine compileChildren_no_internal C ch cs path _ e hch ?_ h
      intro c hc n hn k hk hkn
      have := hcs c hc
      simp only [hn, List.all_eq_true, Bool.or_eq_true, bne_iff_ne, ne_eq, List.any_eq_true, beq_iff_eq] at this
      rcases this k hk with h1 | h1
      · exact absurd hkn h1
      · exact h1
    rcases Except.bind_error h with h | ⟨_, _, h⟩
    · -- the repetition step
      cases rep with
      | none => simp [repStep, pure, Except.pure] at h
      | some rp =>
        simp only [Bool.and_eq_true] at hrep
        obtain ⟨hit, hone⟩ := hrep
        simp only [repStep] at h
        rcases Except.bind_error h with h | ⟨rs', _, h⟩
        · match ch, hchildren, hone, h with
          | [k], hchildren, hone, h =>
            obtain ⟨cc, upd', ccs', hcc, _, hrest, hccs⟩ := compileChildren_cons hchildren
            have hnil := (compileChildren_nil hrest).2
            subst hnil
            subst hccs
            simp only [childSigs, List.map_cons, List.map_nil] at h
            have hnm : cc.name = k.name := by
              obtain ⟨t⟩ := compile_trace hcc
              rw [t.hc]; rfl
            refine processRepeatedResources_error hit ?_ h
            simp only [List.all_eq_true] at hone ⊢
            intro r hr
            have h1 := hone r hr
            simp only [Bool.and_eq_true, List.contains_iff_mem] at h1
            obtain ⟨x, hx, hx1, _⟩ := compile_am C k _ _ cc hcc r.name h1.2
            simp only [repResourceOK, Bool.and_eq_true, List.any_eq_true, List.mem_map, decide_eq_true_eq]
            refine ⟨⟨(x.name, x.ty), ⟨x, hx, rfl⟩, hx1⟩, ?_⟩
            rw [hnm]; exact h1.1
          | [], _, hone, _ => simp at hone
          | _ :: _ :: _, _, hone, _ => simp at hone
        · rcases Except.bind_error h with h | ⟨_, _, h⟩
          · exact substituteSymbols_error h
          · simp [pure, Except.pure] at h
    · simp [pure, Except.pure] at h
theorem compileChildren_no_internal (C : Comparator) : ∀ (ch : List Routine) (conns : List (Endpoint × Endpoint)) (path : String)
    (pm : PTree) (e : Err), Routine.soundList ch = true →
    (∀ c ∈ conns, ∀ n, c.1.routine = some n → ∀ k ∈ ch, k.name = n → ∃ p ∈ k.ports, p.name = c.1.port) →
    compileChildren C conns path pm ch = .error e → e.isInternal = false
  | [], _, _, _, _, _, _, h => by simp [compileChildren, pure, Except.pure] at h
  | k :: ks, conns, path, pm, e, hs, hw, h => by
    simp only [Routine.soundList, Bool.and_eq_true] at hs
    simp only [compileChildren] at h
    rcases Except.bind_error h with h | ⟨cc, hcc, h⟩
    · exact compile_no_internal C k _ _ e hs.1 h
    rcases Except.bind_error h with h | ⟨upd, _, h⟩
    · exfalso
      obtain ⟨st, hst, hnone⟩ := paramTreeFromSizes_error h
      obtain ⟨c, hc, hr, hp⟩ := mem_connectionsFrom hst
      obtain ⟨p, hp1, hp2⟩ := hw c hc k.name hr k (by simp) rfl
      obtain ⟨q, hq1, hq2⟩ := compile_has_port hcc c.1.port ⟨p, hp1, hp2⟩
      exact get?_portSizes_of_mem cc.ports st.1 ⟨q, hq1, by rw [hq2, hp]⟩ hnone
    rcases Except.bind_error h with h | ⟨⟨pm', ccs⟩, _, h⟩
    · exact compileChildren_no_internal C ks conns path _ e hs.2 (fun c hc n hn k' hk' => hw c hc n hn k' (by simp [hk'])) h
    · simp [pure, Except.pure] at h
end

/-! ### evaluation -/

mutual
/-- **`evaluate` fails only with bartiq's own error class**: a violated constraint or a guarded iterator clash, at any node of the hierarchy -/
theorem evaluateInternal_no_internal (C : Comparator) (σ : Dict Expr) (fn : Expr → Expr) : ∀ (c : CRoutine) (path : String) (e : Err),
    evaluateInternal C σ fn path c = .error e → e.isInternal = false
  | ⟨name, ty, ips, ps, rs, cs, rep, cons, ch, ord⟩, path, e, h => by
    simp only [evaluateInternal] at h
    rcases Except.bind_error h with h | ⟨nc, _, h⟩
    · exact evaluateConstraints_error h
    rcases Except.bind_error h with h | ⟨rp, _, h⟩
    · cases rep with
      | none => simp [pure, Except.pure] at h
      | some r0 =>
        simp only at h
        rcases Except.bind_error h with h | ⟨r1, _, h⟩
        · exact substituteSymbols_error h
        · simp [pure, Except.pure] at h
    rcases Except.bind_error h with h | ⟨ch', _, h⟩
    · exact evaluateInternalList_no_internal C σ fn ch path e h
    · simp [pure, Except.pure] at h
theorem evaluateInternalList_no_internal (C : Comparator) (σ : Dict Expr) (fn : Expr → Expr) : ∀ (cs : List CRoutine) (path : String) (e : Err),
    evaluateInternalList C σ fn path cs = .error e → e.isInternal = false
  | [], _, e, h => by simp [evaluateInternalList, pure, Except.pure] at h
  | c :: cs, path, e, h => by
    simp only [evaluateInternalList] at h
    rcases Except.bind_error h with h | ⟨c', _, h⟩
    · exact evaluateInternal_no_internal C σ fn c _ e h
    rcases Except.bind_error h with h | ⟨cs', _, h⟩
    · exact evaluateInternalList_no_internal C σ fn cs path e h
    · simp [pure, Except.pure] at h
end

/-- a fold in the exception monad over a list containing an element on which the step never succeeds has no result -/
theorem foldlM_never_ok_of_mem {ε α β : Type} (f : β → α → Except ε β) (x : α) (hx : ∀ b, ∀ o, f b x ≠ .ok o) :
    ∀ (l : List α), x ∈ l → ∀ (b : β) (o : β), l.foldlM f b ≠ .ok o
  | [], h, _, _ => by simp at h
  | a :: l, h, b, o => by
    simp only [List.foldlM]
    intro hok
    cases hfa : f b a with
    | error e => rw [hfa] at hok; simp [bind, Except.bind] at hok
    | ok b1 =>
      rw [hfa] at hok
      simp only [bind, Except.bind] at hok
      rcases List.mem_cons.mp h with rfl | hl
      · exact hx b b1 hfa
      · exact foldlM_never_ok_of_mem f x hx l hl b1 o hok


end Bartiq
