/-
  BartiqProofs.ChildOrder — independent children can be compiled in either order: the compiled children are the same and the
  parameter tree handed on is the same up to the order of its entries.
-/
import BartiqProofs.CompileCongr
namespace Bartiq
open Expr Dict

/-! ### single updates of a parameter tree -/

def PTreeG.step (t : PTree) (e : Option String × String × Expr) : PTree := t.mergeUpd [e]

theorem step_none (t : PTree) (k : String) (v : Expr) : PTreeG.step t (none, k, v) = { t with self := t.self.set k v } := rfl
theorem step_some_none (t : PTree) (c k : String) (v : Expr) (h : t.kids.get? c = none) : PTreeG.step t (some c, k, v) = t := by
  simp [PTreeG.step, PTreeG.mergeUpd, h]
theorem step_some_some (t : PTree) (c k : String) (v : Expr) (d : Dict Expr) (h : t.kids.get? c = some d) :
    PTreeG.step t (some c, k, v) = { t with kids := t.kids.set c (d.set k v) } := by
  simp [PTreeG.step, PTreeG.mergeUpd, h]

theorem mergeUpd_nil (t : PTree) : t.mergeUpd [] = t := rfl
theorem mergeUpd_cons (t : PTree) (e : Option String × String × Expr) (u : PUpdate) : t.mergeUpd (e :: u) = (PTreeG.step t e).mergeUpd u := rfl
theorem mergeUpd_append (t : PTree) (u v : PUpdate) : t.mergeUpd (u ++ v) = (t.mergeUpd u).mergeUpd v := by
  simp [PTreeG.mergeUpd, List.foldl_append]

theorem PEq.step {p p' : PTree} (h : PEq p p') (e : Option String × String × Expr) : PEq (PTreeG.step p e) (PTreeG.step p' e) :=
  h.mergeUpd [e]

theorem KRel.symm {a b : Option (Dict Expr)} (h : KRel a b) : KRel b a := by
  cases a <;> cases b <;> simp only [KRel] at h ⊢
  exact h.symm

theorem KRel.trans {a b c : Option (Dict Expr)} (h1 : KRel a b) (h2 : KRel b c) : KRel a c := by
  cases a <;> cases b <;> cases c <;> simp only [KRel] at h1 h2 ⊢
  exact h1.trans h2

theorem KEq.symm {k k' : Dict (Dict Expr)} (h : KEq k k') : KEq k' k := fun c => (h c).symm

theorem KEq.trans {a b c : Dict (Dict Expr)} (h1 : KEq a b) (h2 : KEq b c) : KEq a c := fun x => (h1 x).trans (h2 x)

theorem PEq.trans {a b c : PTree} (h1 : PEq a b) (h2 : PEq b c) : PEq a c := ⟨h1.self.trans h2.self, h1.kids.trans h2.kids⟩
theorem PEq.symm {a b : PTree} (h : PEq a b) : PEq b a := ⟨h.self.symm, h.kids.symm⟩

/-- well-formed = related to itself: every dictionary of the tree has unique keys -/
abbrev PWF (p : PTree) : Prop := PEq p p

theorem PEq.wf_left {a b : PTree} (h : PEq a b) : PWF a := h.trans h.symm
theorem PEq.wf_right {a b : PTree} (h : PEq a b) : PWF b := h.symm.trans h

theorem Dict.set_set_same {α : Type} : ∀ (d : Dict α) (k : String) (v v' : α), (d.set k v).set k v' = d.set k v'
  | [], k, v, v' => by simp [Dict.set]
  | (k0, v0) :: t, k, v, v' => by
    simp only [Dict.set]
    by_cases h : k0 = k
    · simp [h, Dict.set]
    · simp [h, Dict.set, Dict.set_set_same t k v v']

theorem Dict.set_set_comm {α : Type} : ∀ (d : Dict α) (k1 k2 : String) (v1 v2 : α), k1 ≠ k2 → d.get? k1 ≠ none → d.get? k2 ≠ none →
    (d.set k1 v1).set k2 v2 = (d.set k2 v2).set k1 v1
  | [], _, _, _, _, _, h, _ => by simp [Dict.get?] at h
  | (k0, v0) :: t, k1, k2, v1, v2, hk, h1, h2 => by
    by_cases e1 : k0 = k1
    · subst e1
      have e2 : ¬ k0 = k2 := hk
      simp [Dict.set, e2]
    · by_cases e2 : k0 = k2
      · subst e2
        simp [Dict.set, e1]
      · have h1' : Dict.get? t k1 ≠ none := by simpa [Dict.get?, e1] using h1
        have h2' : Dict.get? t k2 ≠ none := by simpa [Dict.get?, e2] using h2
        simp [Dict.set, e1, e2, Dict.set_set_comm t k1 k2 v1 v2 hk h1' h2']

theorem kids_get?_step_other (t : PTree) (e : Option String × String × Expr) (c : String) (h : e.1 ≠ some c) :
    (PTreeG.step t e).kids.get? c = t.kids.get? c := by
  obtain ⟨r, k, v⟩ := e
  cases r with
  | none => rfl
  | some c' =>
    have hc : c' ≠ c := by intro e'; apply h; simp [e']
    cases hg : t.kids.get? c' with
    | none => rw [step_some_none t c' k v hg]
    | some d => rw [step_some_some t c' k v d hg]; simp [Dict.get?_set, hc]

/-- a child's inputs are untouched by updates that are addressed to others -/
theorem kids_get?_mergeUpd_other (c : String) : ∀ (u : PUpdate) (t : PTree), (∀ e ∈ u, e.1 ≠ some c) →
    (t.mergeUpd u).kids.get? c = t.kids.get? c
  | [], _, _ => rfl
  | e :: u, t, h => by
    rw [mergeUpd_cons, kids_get?_mergeUpd_other c u _ (fun e' he' => h e' (by simp [he'])), kids_get?_step_other t e c (h e (by simp))]

theorem PWF.kid_nodup {t : PTree} (hw : PWF t) {c : String} {d : Dict Expr} (hg : t.kids.get? c = some d) : NodupKeys d := by
  rcases hw.kids.get? c with ⟨h1, _⟩ | ⟨d1, d2, h1, _, hdd⟩
  · rw [hg] at h1; cases h1
  · rw [hg] at h1; cases h1; exact hdd.nodup

/-- two single updates that write different (routine, key) slots commute -/
theorem step_comm (t : PTree) (hw : PWF t) (e1 e2 : Option String × String × Expr) (hne : (e1.1, e1.2.1) ≠ (e2.1, e2.2.1)) :
    PEq (PTreeG.step (PTreeG.step t e1) e2) (PTreeG.step (PTreeG.step t e2) e1) := by
  obtain ⟨r1, k1, v1⟩ := e1
  obtain ⟨r2, k2, v2⟩ := e2
  cases r1 with
  | none =>
    cases r2 with
    | none =>
      have hk : k1 ≠ k2 := by intro e; apply hne; simp [e]
      rw [step_none, step_none, step_none, step_none]
      exact ⟨set_comm t.self k1 k2 v1 v2 hk hw.self.nodup, hw.kids⟩
    | some c2 =>
      cases hg : t.kids.get? c2 with
      | none =>
        rw [step_some_none t c2 k2 v2 hg, step_some_none (PTreeG.step t (none, k1, v1)) c2 k2 v2 (by rw [step_none]; exact hg)]
        exact hw.step _
      | some d =>
        have s12 := step_some_some (PTreeG.step t (none, k1, v1)) c2 k2 v2 d (by rw [step_none]; exact hg)
        have := (hw.step (none, k1, v1)).step (some c2, k2, v2)
        rw [s12] at this
        rw [s12, step_some_some t c2 k2 v2 d hg]
        rw [step_none] at this ⊢
        exact this
  | some c1 =>
    cases r2 with
    | none =>
      cases hg : t.kids.get? c1 with
      | none =>
        rw [step_some_none t c1 k1 v1 hg, step_some_none (PTreeG.step t (none, k2, v2)) c1 k1 v1 (by rw [step_none]; exact hg)]
        exact hw.step _
      | some d =>
        have s21 := step_some_some (PTreeG.step t (none, k2, v2)) c1 k1 v1 d (by rw [step_none]; exact hg)
        have := (hw.step (none, k2, v2)).step (some c1, k1, v1)
        rw [s21] at this
        rw [s21, step_some_some t c1 k1 v1 d hg]
        rw [step_none] at this ⊢
        exact this
    | some c2 =>
      by_cases hc : c1 = c2
      · subst hc
        have hk : k1 ≠ k2 := by intro e; apply hne; simp [e]
        cases hg : t.kids.get? c1 with
        | none =>
          rw [step_some_none t c1 k1 v1 hg, step_some_none t c1 k2 v2 hg, step_some_none t c1 k1 v1 hg]
          exact hw
        | some d =>
          have hd := hw.kid_nodup hg
          have s1 := step_some_some t c1 k1 v1 d hg
          have s2 := step_some_some t c1 k2 v2 d hg
          have g1 : (PTreeG.step t (some c1, k1, v1)).kids.get? c1 = some (d.set k1 v1) := by
            rw [s1]; simp [Dict.get?_set]
          have g2 : (PTreeG.step t (some c1, k2, v2)).kids.get? c1 = some (d.set k2 v2) := by
            rw [s2]; simp [Dict.get?_set]
          rw [step_some_some (PTreeG.step t (some c1, k1, v1)) c1 k2 v2 _ g1,
              step_some_some (PTreeG.step t (some c1, k2, v2)) c1 k1 v1 _ g2, s1, s2]
          simp only [Dict.set_set_same]
          exact ⟨hw.self, hw.kids.set c1 (set_comm d k1 k2 v1 v2 hk hd) (by rw [hg]; simp)⟩
      · have hc' : c2 ≠ c1 := fun e => hc e.symm
        have o1 : (PTreeG.step t (some c1, k1, v1)).kids.get? c2 = t.kids.get? c2 := kids_get?_step_other t _ c2 (by simp [hc])
        have o2 : (PTreeG.step t (some c2, k2, v2)).kids.get? c1 = t.kids.get? c1 := kids_get?_step_other t _ c1 (by simp [hc'])
        cases hg1 : t.kids.get? c1 with
        | none =>
          rw [step_some_none t c1 k1 v1 hg1, step_some_none (PTreeG.step t (some c2, k2, v2)) c1 k1 v1 (by rw [o2]; exact hg1)]
          exact hw.step _
        | some d1 =>
          cases hg2 : t.kids.get? c2 with
          | none =>
            rw [step_some_none t c2 k2 v2 hg2, step_some_none (PTreeG.step t (some c1, k1, v1)) c2 k2 v2 (by rw [o1]; exact hg2)]
            exact hw.step _
          | some d2 =>
            have s1 := step_some_some t c1 k1 v1 d1 hg1
            have s2 := step_some_some t c2 k2 v2 d2 hg2
            have s12 := step_some_some (PTreeG.step t (some c1, k1, v1)) c2 k2 v2 d2 (by rw [o1]; exact hg2)
            have s21 := step_some_some (PTreeG.step t (some c2, k2, v2)) c1 k1 v1 d1 (by rw [o2]; exact hg1)
            have := (hw.step (some c2, k2, v2)).step (some c1, k1, v1)
            rw [s21, s2] at this
            rw [s12, s21, s1, s2]
            simp only at this ⊢
            rw [Dict.set_set_comm t.kids c1 c2 _ _ hc (by rw [hg1]; simp) (by rw [hg2]; simp)]
            exact this

def PUpdate.disjoint (u1 u2 : PUpdate) : Prop := ∀ e1 ∈ u1, ∀ e2 ∈ u2, (e1.1, e1.2.1) ≠ (e2.1, e2.2.1)

theorem mergeUpd_step_comm (e : Option String × String × Expr) : ∀ (u : PUpdate) (t : PTree), PWF t →
    (∀ e1 ∈ u, (e1.1, e1.2.1) ≠ (e.1, e.2.1)) →
    PEq (PTreeG.step (t.mergeUpd u) e) ((PTreeG.step t e).mergeUpd u)
  | [], t, hw, _ => hw.step e
  | e1 :: u, t, hw, h => by
    rw [mergeUpd_cons, mergeUpd_cons]
    have ih := mergeUpd_step_comm e u (PTreeG.step t e1) (hw.step e1) (fun x hx => h x (by simp [hx]))
    exact ih.trans ((step_comm t hw e1 e (h e1 (by simp))).mergeUpd u)

/-- **two batches of updates that write different slots commute** -/
theorem mergeUpd_comm : ∀ (u2 u1 : PUpdate) (t : PTree), PWF t → PUpdate.disjoint u1 u2 →
    PEq ((t.mergeUpd u1).mergeUpd u2) ((t.mergeUpd u2).mergeUpd u1)
  | [], u1, t, hw, _ => hw.mergeUpd u1
  | e :: u2, u1, t, hw, h => by
    rw [mergeUpd_cons, mergeUpd_cons]
    have h1 := mergeUpd_step_comm e u1 t hw (fun e1 he1 => h e1 he1 e (by simp))
    have h2 := mergeUpd_comm u2 u1 (PTreeG.step t e) (hw.step e) (fun e1 he1 e2 he2 => h e1 he1 e2 (by simp [he2]))
    exact (h1.mergeUpd u2).trans h2

/-! ### exchanging two independent children -/

/-- no wire between the two children, in either direction -/
def Independent (conns : List (Endpoint × Endpoint)) (a b : String) : Prop :=
  ∀ c ∈ conns, ¬ (c.1.routine = some a ∧ c.2.routine = some b) ∧ ¬ (c.1.routine = some b ∧ c.2.routine = some a)

/-- every port is the target of at most one connection (what verification enforces) -/
def TargetsDistinct (conns : List (Endpoint × Endpoint)) : Prop := ∀ c1 ∈ conns, ∀ c2 ∈ conns, c1.2 = c2.2 → c1 = c2

theorem hash_cancel (p q : String) (h : "#" ++ p = "#" ++ q) : p = q := by
  have := congrArg String.toList h
  simp only [String.toList_append, List.append_cancel_left_eq] at this
  exact String.toList_inj.mp this

theorem mapM_ok_mem {ε α β : Type} (f : α → Except ε β) : ∀ (l : List α) (r : List β), l.mapM f = .ok r → ∀ y ∈ r, ∃ x ∈ l, f x = .ok y
  | [], r, h, y, hy => by simp [List.mapM_nil, pure, Except.pure] at h; subst h; cases hy
  | a :: l, r, h, y, hy => by
    rw [List.mapM_cons] at h
    obtain ⟨b, hb, h⟩ := Except.bind_ok h
    obtain ⟨bs, hbs, h⟩ := Except.bind_ok h
    simp only [pure, Except.pure, Except.ok.injEq] at h
    subst h
    rcases List.mem_cons.mp hy with rfl | hy'
    · exact ⟨a, by simp, hb⟩
    · obtain ⟨x, hx, hfx⟩ := mapM_ok_mem f l bs hbs y hy'
      exact ⟨x, by simp [hx], hfx⟩

/-- where the entries of the update produced by a compiled child come from -/
theorem upd_entries {conns : List (Endpoint × Endpoint)} {x : String} {ports : List Port} {upd : PUpdate}
    (h : paramTreeFromCompiledPorts (connectionsFrom conns (some x)) ports = .ok upd) :
    ∀ e ∈ upd, ∃ c ∈ conns, c.1.routine = some x ∧ e.1 = c.2.routine ∧ e.2.1 = "#" ++ c.2.port := by
  intro e he
  unfold paramTreeFromCompiledPorts paramTreeFromSizes at h
  obtain ⟨st, hst, hf⟩ := mapM_ok_mem _ _ _ h e he
  unfold connectionsFrom at hst
  obtain ⟨c, hc, rfl⟩ := List.mem_map.mp hst
  have hc' := List.mem_filter.mp hc
  refine ⟨c, hc'.1, by simpa using hc'.2, ?_⟩
  cases hs : (portSizes ports).get? c.1.port with
  | none => simp [hs, throw, throwThe, MonadExceptOf.throw] at hf
  | some sz =>
    simp only [hs, pure, Except.pure, Except.ok.injEq] at hf
    subst hf
    exact ⟨rfl, rfl⟩

theorem compileChildren_cons_ok {C : Comparator} {conns : List (Endpoint × Endpoint)} {path : String} {pm pm' : PTree}
    {c : Routine} {cs : List Routine} {cc : CRoutine} {upd : PUpdate} {ccs : List CRoutine}
    (h1 : compile C ((pm.kids.get? c.name).getD []) (path ++ "." ++ c.name) c = .ok cc)
    (h2 : paramTreeFromCompiledPorts (connectionsFrom conns (some c.name)) cc.ports = .ok upd)
    (h3 : compileChildren C conns path (pm.mergeUpd upd) cs = .ok (pm', ccs)) :
    compileChildren C conns path pm (c :: cs) = .ok (pm', cc :: ccs) := by
  simp only [compileChildren, h1, h2, h3, bind, Except.bind, pure, Except.pure]

/-- **two children without a wire between them can be compiled in either order**: the same compiled children, the same
    compiled siblings after them, and a parameter tree that differs at most in the order of its entries -/
theorem compileChildren_swap (C : Comparator) (conns : List (Endpoint × Endpoint)) (path : String) (pm : PTree) (hw : PWF pm)
    (a b : Routine) (rest : List Routine) (hab : a.name ≠ b.name) (hind : Independent conns a.name b.name)
    (htd : TargetsDistinct conns) (p : PTree) (ca cb : CRoutine) (ccs : List CRoutine)
    (h : compileChildren C conns path pm (a :: b :: rest) = .ok (p, ca :: cb :: ccs)) :
    ∃ p', compileChildren C conns path pm (b :: a :: rest) = .ok (p', cb :: ca :: ccs) ∧ PEq p p' := by
  obtain ⟨ca', upd_a, ccs1, hca, hua, hrest1, hout⟩ := compileChildren_cons h
  obtain ⟨cb', upd_b, ccs2, hcb, hub, hrest2, hout2⟩ := compileChildren_cons hrest1
  have e1 : ca = ca' ∧ cb = cb' ∧ ccs = ccs2 := by
    rw [hout2] at hout
    simp only [List.cons.injEq] at hout
    exact ⟨hout.1, hout.2.1, hout.2.2⟩
  obtain ⟨rfl, rfl, rfl⟩ := e1
  -- entries of the two updates
  have hea := upd_entries hua
  have heb := upd_entries hub
  -- a's update does not address b, b's does not address a
  have na : ∀ e ∈ upd_a, e.1 ≠ some b.name := by
    intro e he hb
    obtain ⟨c, hc, hc1, hc2, _⟩ := hea e he
    exact (hind c hc).1 ⟨hc1, by rw [← hc2]; exact hb⟩
  have nb : ∀ e ∈ upd_b, e.1 ≠ some a.name := by
    intro e he hb
    obtain ⟨c, hc, hc1, hc2, _⟩ := heb e he
    exact (hind c hc).2 ⟨hc1, by rw [← hc2]; exact hb⟩
  -- the two updates write different slots
  have hdis : PUpdate.disjoint upd_a upd_b := by
    intro ea hea' eb heb' heq
    obtain ⟨c1, hc1, s1, r1, k1⟩ := hea ea hea'
    obtain ⟨c2, hc2, s2, r2, k2⟩ := heb eb heb'
    simp only [Prod.mk.injEq] at heq
    have hr : c1.2.routine = c2.2.routine := by rw [← r1, ← r2]; exact heq.1
    have hp : c1.2.port = c2.2.port := hash_cancel _ _ (by rw [← k1, ← k2]; exact heq.2)
    have : c1.2 = c2.2 := by
      cases h1 : c1.2; cases h2 : c2.2
      rw [h1] at hr hp; rw [h2] at hr hp
      simp only at hr hp
      rw [hr, hp]
    have hcc := htd c1 hc1 c2 hc2 this
    rw [hcc, s2] at s1
    exact hab (Option.some.inj s1).symm
  -- b first: its inputs are those it had after a
  have inb : (pm.kids.get? b.name) = ((pm.mergeUpd upd_a).kids.get? b.name) := (kids_get?_mergeUpd_other b.name upd_a pm na).symm
  have ina : ((pm.mergeUpd upd_b).kids.get? a.name) = (pm.kids.get? a.name) := kids_get?_mergeUpd_other a.name upd_b pm nb
  have hcomm := mergeUpd_comm upd_b upd_a pm hw hdis
  have hrel := compileChildren_congr C rest conns path _ _ hcomm
  rw [hrest2] at hrel
  cases h3 : compileChildren C conns path ((pm.mergeUpd upd_b).mergeUpd upd_a) rest with
  | error e => rw [h3] at hrel; simp [RelRes] at hrel
  | ok x =>
    obtain ⟨p', ccs'⟩ := x
    rw [h3] at hrel
    simp only [RelRes] at hrel
    obtain ⟨hp, hc⟩ := hrel
    subst hc
    refine ⟨p', ?_, hp⟩
    apply compileChildren_cons_ok (cc := cb) (upd := upd_b)
    · rw [inb]; exact hcb
    · exact hub
    · apply compileChildren_cons_ok (cc := ca) (upd := upd_a)
      · rw [ina]; exact hca
      · exact hua
      · exact h3

/-! ### any two processing orders that respect the wiring -/

def Feeds (conns : List (Endpoint × Endpoint)) (x y : String) : Prop := ∃ c ∈ conns, c.1.routine = some x ∧ c.2.routine = some y

/-- a processing order in which no child is fed by a child that comes later -/
def ValidOrder (conns : List (Endpoint × Endpoint)) : List Routine → Prop
  | [] => True
  | a :: rest => (∀ b ∈ rest, ¬ Feeds conns b.name a.name) ∧ ValidOrder conns rest

theorem independent_of_not_feeds {conns : List (Endpoint × Endpoint)} {a b : String} (h1 : ¬ Feeds conns a b) (h2 : ¬ Feeds conns b a) :
    Independent conns a b := fun c hc => ⟨fun h => h1 ⟨c, hc, h⟩, fun h => h2 ⟨c, hc, h⟩⟩

theorem ValidOrder.not_feeds_earlier {conns : List (Endpoint × Endpoint)} {a : Routine} {post : List Routine} :
    ∀ {pre : List Routine}, ValidOrder conns (pre ++ a :: post) → ∀ b ∈ pre, ¬ Feeds conns a.name b.name
  | [], _, b, hb => by cases hb
  | x :: pre, h, b, hb => by
    simp only [List.cons_append, ValidOrder] at h
    rcases List.mem_cons.mp hb with rfl | hb'
    · exact h.1 a (by simp)
    · exact ValidOrder.not_feeds_earlier h.2 b hb'

theorem ValidOrder.remove {conns : List (Endpoint × Endpoint)} {a : Routine} {post : List Routine} :
    ∀ {pre : List Routine}, ValidOrder conns (pre ++ a :: post) → ValidOrder conns (pre ++ post)
  | [], h => by simp only [List.nil_append, ValidOrder] at h ⊢; exact h.2
  | x :: pre, h => by
    simp only [List.cons_append, ValidOrder] at h ⊢
    exact ⟨fun b hb => h.1 b (by
      rcases List.mem_append.mp hb with hb | hb
      · exact List.mem_append.mpr (Or.inl hb)
      · exact List.mem_append.mpr (Or.inr (List.mem_cons_of_mem _ hb))), ValidOrder.remove h.2⟩

/-- a child that is independent of a block of siblings can be moved behind the block -/
theorem compileChildren_move (C : Comparator) (conns : List (Endpoint × Endpoint)) (path : String) (htd : TargetsDistinct conns)
    (a : Routine) (post : List Routine) : ∀ (pre : List Routine) (pm : PTree), PWF pm →
    (∀ b ∈ pre, a.name ≠ b.name ∧ Independent conns a.name b.name) →
    ∀ (p : PTree) (out : List CRoutine), compileChildren C conns path pm (a :: (pre ++ post)) = .ok (p, out) →
    ∃ p' out', compileChildren C conns path pm (pre ++ a :: post) = .ok (p', out') ∧ PEq p p' ∧ out.Perm out'
  | [], pm, hw, _, p, out, h => ⟨p, out, h, (compileChildren_congr C _ conns path pm pm hw) |> fun hr => by
      simp only [List.nil_append] at h
      rw [h] at hr
      simp only [RelRes] at hr
      exact hr.1, List.Perm.refl _⟩
  | b :: pre, pm, hw, hind, p, out, h => by
    simp only [List.cons_append] at h ⊢
    obtain ⟨ca, upd_a, ccs1, hca, hua, hrest1, hout⟩ := compileChildren_cons h
    obtain ⟨cb, upd_b, ccs2, hcb, hub, hrest2, hout2⟩ := compileChildren_cons hrest1
    subst hout2
    subst hout
    obtain ⟨hab, hi⟩ := hind b (by simp)
    obtain ⟨p1, hswap, hp1⟩ := compileChildren_swap C conns path pm hw a b (pre ++ post) hab hi htd p ca cb ccs2 h
    obtain ⟨cb', upd_b', ccs3, hcb', hub', hrest3, hout3⟩ := compileChildren_cons hswap
    simp only [List.cons.injEq] at hout3
    obtain ⟨rfl, rfl⟩ := hout3
    obtain ⟨p2, out2, hmove, hp2, hperm⟩ := compileChildren_move C conns path htd a post pre (pm.mergeUpd upd_b') (hw.mergeUpd upd_b')
      (fun x hx => hind x (by simp [hx])) p1 (ca :: ccs2) hrest3
    refine ⟨p2, cb :: out2, compileChildren_cons_ok hcb' hub' hmove, hp1.trans hp2, ?_⟩
    exact (List.Perm.swap cb ca ccs2).trans (hperm.cons cb)

/-- **children are processed consistently with the wiring whatever order they are listed in**: any two processing orders
    in which no child is fed by a later one compile every child to the same result and hand on the same parameters (up to the
    order of dictionary entries) -/
theorem compileChildren_order_irrelevant (C : Comparator) (conns : List (Endpoint × Endpoint)) (path : String)
    (htd : TargetsDistinct conns) : ∀ (l1 l2 : List Routine) (pm : PTree), PWF pm → l1.Perm l2 → (l1.map (·.name)).Nodup →
    ValidOrder conns l1 → ValidOrder conns l2 →
    ∀ (p1 : PTree) (out1 : List CRoutine), compileChildren C conns path pm l1 = .ok (p1, out1) →
    ∃ p2 out2, compileChildren C conns path pm l2 = .ok (p2, out2) ∧ PEq p1 p2 ∧ out1.Perm out2
  | [], l2, pm, hw, hp, _, _, _, p1, out1, h => by
    have : l2 = [] := List.Perm.eq_nil (hp.symm)
    subst this
    obtain ⟨rfl, rfl⟩ := compileChildren_nil h
    exact ⟨_, _, h, hw, List.Perm.refl _⟩
  | a :: l1, l2, pm, hw, hp, hnd, hv1, hv2, p1, out1, h => by
    have ha2 : a ∈ l2 := hp.mem_iff.mp (by simp)
    obtain ⟨pre, post, rfl⟩ := List.append_of_mem ha2
    have hp' : l1.Perm (pre ++ post) := (hp.trans List.perm_middle).cons_inv
    simp only [List.map_cons, List.nodup_cons] at hnd
    simp only [ValidOrder] at hv1
    obtain ⟨ca, upd_a, ccs1, hca, hua, hrest1, hout⟩ := compileChildren_cons h
    subst hout
    obtain ⟨p2, out2, h2, hp2, hperm2⟩ := compileChildren_order_irrelevant C conns path htd l1 (pre ++ post) (pm.mergeUpd upd_a)
      (hw.mergeUpd upd_a) hp' hnd.2 hv1.2 (ValidOrder.remove hv2) p1 ccs1 hrest1
    have hfront : compileChildren C conns path pm (a :: (pre ++ post)) = .ok (p2, ca :: out2) := compileChildren_cons_ok hca hua h2
    have hind : ∀ b ∈ pre, a.name ≠ b.name ∧ Independent conns a.name b.name := by
      intro b hb
      have hb1 : b ∈ l1 := hp'.mem_iff.mpr (List.mem_append.mpr (Or.inl hb))
      refine ⟨?_, independent_of_not_feeds (ValidOrder.not_feeds_earlier hv2 b hb) (hv1.1 b hb1)⟩
      intro e
      exact hnd.1 (List.mem_map.mpr ⟨b, hb1, e.symm⟩)
    obtain ⟨p3, out3, h3, hp3, hperm3⟩ := compileChildren_move C conns path htd a post pre pm hw hind p2 (ca :: out2) hfront
    exact ⟨p3, out3, h3, hp2.trans hp3, (hperm2.cons ca).trans hperm3⟩

/-! ### the parent node: listing its children in another valid order -/

/-- the bindings `child.resource ↦ value` the parent reads -/
def cvList (cs : List CRoutine) : Dict Expr := cs.flatMap fun c => c.resources.map fun r => (c.name ++ "." ++ r.name, r.value)

theorem childrenVariables_perm {ccs ccs' : List CRoutine} (hp : ccs.Perm ccs') (hn : NodupKeys (cvList ccs)) :
    DEq (childrenVariables ccs) (childrenVariables ccs') := by
  unfold childrenVariables Dict.ofList Dict.merge
  exact foldl_set_perm (hp.flatMap_right _) hn [] nodupKeys_nil

theorem processRepeatedResources_perm (rp : Repetition) (rs : List Resource) {ccs ccs' : List CRoutine} (hp : ccs.Perm ccs') :
    processRepeatedResources rp rs (childSigs ccs) = processRepeatedResources rp rs (childSigs ccs') := by
  match ccs, ccs', hp with
  | [], ccs', hp => rw [List.Perm.eq_nil hp.symm]
  | [x], ccs', hp => rw [List.perm_singleton.mp hp.symm]
  | x :: y :: t, ccs', hp =>
    have hl := hp.length_eq
    match ccs', hl with
    | x' :: y' :: t', _ => simp [processRepeatedResources, childSigs]
    | [], hl => simp at hl
    | [_], hl => simp at hl

theorem repStep_perm (rep : Option Repetition) (rs : List Resource) {ccs ccs' : List CRoutine} (hp : ccs.Perm ccs')
    {τ τ' : Dict Expr} (h : SameAssignment τ τ') : repStep rep rs ccs τ = repStep rep rs ccs' τ' := by
  cases rep with
  | none => rfl
  | some rp => simp only [repStep, Repetition.substituteSymbols_congr h, processRepeatedResources_perm rp rs hp]

theorem pmInit_children_perm (lv σ : Dict Expr) (lks : Dict (List (String × String))) {ch ch' : List Routine} (hp : ch.Perm ch')
    (hnd : (ch.map (·.name)).Nodup) (hw : PWF (pmInit lv σ lks ch)) : PEq (pmInit lv σ lks ch) (pmInit lv σ lks ch') := by
  unfold pmInit at hw ⊢
  -- the two initial trees differ only in the order of the (empty) children entries
  have base : PEq ({ self := Dict.merge lv σ, kids := ch.map fun c => (c.name, ([] : Dict Expr)) } : PTree)
      { self := Dict.merge lv σ, kids := ch'.map fun c => (c.name, ([] : Dict Expr)) } := by
    have hself : NodupKeys (Dict.merge lv σ) := by
      -- read off the well-formedness of the tree after the links were entered: `self` is never touched by link updates,
      -- but it is simpler to take it from `hw` through the fold
      have : ∀ (u : PUpdate) (t : PTree), (∀ e ∈ u, e.1 ≠ none) → (t.mergeUpd u).self = t.self := by
        intro u
        induction u with
        | nil => intro t _; rfl
        | cons e u ih =>
          intro t he
          rw [mergeUpd_cons, ih _ (fun x hx => he x (by simp [hx]))]
          obtain ⟨r, k, v⟩ := e
          cases r with
          | none => exact absurd rfl (he (none, k, v) (by simp))
          | some c =>
            cases hg : t.kids.get? c with
            | none => rw [step_some_none t c k v hg]
            | some d => rw [step_some_some t c k v d hg]
      have hs := this (compileLinkedParams (Dict.merge lv σ) lks)
        ({ self := Dict.merge lv σ, kids := ch.map fun c => (c.name, ([] : Dict Expr)) } : PTree) (by
        intro e he
        unfold compileLinkedParams at he
        obtain ⟨kv, _, he⟩ := List.mem_flatMap.mp he
        obtain ⟨t, _, rfl⟩ := List.mem_map.mp he
        simp)
      have := hw.self.nodup
      rw [hs] at this
      exact this
    refine ⟨DEq.refl hself, ?_⟩
    intro c
    have hperm : (ch.map fun c => (c.name, ([] : Dict Expr))).Perm (ch'.map fun c => (c.name, ([] : Dict Expr))) := hp.map _
    have hn : ((ch.map fun c => (c.name, ([] : Dict Expr))).map (·.1)).Nodup := by simpa [List.map_map, Function.comp_def] using hnd
    rw [← Dict.get?_perm hperm hn c]
    cases hg : Dict.get? (ch.map fun c => (c.name, ([] : Dict Expr))) c with
    | none => trivial
    | some d =>
      have : d = [] := by
        clear hperm hn hw hnd hp
        induction ch with
        | nil => simp [Dict.get?] at hg
        | cons x l ih =>
          simp only [List.map_cons, Dict.get?] at hg
          by_cases hx : x.name = c
          · simp [hx] at hg; exact hg
          · simp only [hx, if_false] at hg; exact ih hg
      subst this
      exact DEq.refl nodupKeys_nil
  exact base.mergeUpd _

/-- **the compiled parent does not depend on the order in which its children are processed**: for any two orders that respect
    the wiring, the parent gets the same ports, resources, input parameters, constraints and repetition, and the same compiled
    children (in the respective order) -/
theorem compile_children_order (C : Comparator) (name : String) (ty : Option String) (ips : List String) (lvs : Dict Expr)
    (lks : Dict (List (String × String))) (ps : List Port) (rs : List Resource) (cs : List (Endpoint × Endpoint))
    (rep : Option Repetition) (cons : List Constraint) (ord : List String) (ch ch' : List Routine) (σ : Dict Expr) (path : String)
    (hσ : NodupKeys σ) (hperm : ch.Perm ch') (hnd : (ch.map (·.name)).Nodup) (htd : TargetsDistinct cs)
    (hv : ValidOrder cs ch) (hv' : ValidOrder cs ch') (c : CRoutine)
    (h : compile C σ path ⟨name, ty, ips, lvs, lks, ps, rs, cs, rep, cons, ch, ord⟩ = .ok c)
    (hkeys : NodupKeys (cvList c.children)) :
    ∃ ccs', compile C σ path ⟨name, ty, ips, lvs, lks, ps, rs, cs, rep, cons, ch', ord⟩ = .ok { c with children := ccs' } ∧
      c.children.Perm ccs' := by
  obtain ⟨⟨lv, nc, upd, pm2, ccs, res, rep', hlv, hnc, hupd, hch, hrep, hc⟩⟩ := compile_trace h
  simp only at hlv hnc hupd hch hrep hc
  subst hc
  have hlvnd := compileLocalVariables_nodup hlv
  have hwf : PWF (pmInit lv σ lks ch) := pmInit_congr hlvnd (DEq.refl hσ) lks ch
  have hpm := pmInit_children_perm lv σ lks hperm hnd hwf
  -- children in the other order, from the same tree
  obtain ⟨p2, out2, h2, hp2, hperm2⟩ := compileChildren_order_irrelevant C cs path htd ch ch' _ (hwf.mergeUpd upd) hperm hnd hv hv'
    pm2 ccs hch
  -- … and from the tree whose children entries are listed in the other order
  have hrel := compileChildren_congr C ch' cs path _ _ (hpm.mergeUpd upd)
  rw [h2] at hrel
  cases h3 : compileChildren C cs path ((pmInit lv σ lks ch').mergeUpd upd) ch' with
  | error e => rw [h3] at hrel; simp [RelRes] at hrel
  | ok x =>
    obtain ⟨p3, out3⟩ := x
    rw [h3] at hrel
    simp only [RelRes] at hrel
    obtain ⟨hp3, hout⟩ := hrel
    subst hout
    have hkeys' : NodupKeys (cvList ccs) := hkeys
    refine ⟨out2, ?_, hperm2⟩
    have hself : DEq (Dict.merge pm2.self (childrenVariables ccs)) (Dict.merge p3.self (childrenVariables out2)) :=
      DEq.merge (hp2.self.trans hp3.self) (childrenVariables_perm hperm2 hkeys')
    have hports : evaluatePorts (Port.portsOf ps [.input, .through]) (pmInit lv σ lks ch').self =
        evaluatePorts (Port.portsOf ps [.input, .through]) (pmInit lv σ lks ch).self :=
      (evaluatePorts_congr hpm.self.sameAssignment _).symm
    have hupd' : paramTreeFromCompiledPorts (connectionsFrom cs none)
        (evaluatePorts (Port.portsOf ps [.input, .through]) (pmInit lv σ lks ch').self) = .ok upd := by
      rw [hports]; exact hupd
    have hrep' : repStep rep rs out2 (Dict.merge p3.self (childrenVariables out2)) = .ok (res, rep') := by
      rw [← repStep_perm rep rs hperm2 hself.sameAssignment]; exact hrep
    simp only [compile, hlv, hnc, hupd', h3, hrep', bind, Except.bind, pure, Except.pure]
    rw [hports]
    simp only [finishNode, evaluatePorts_congr hself.sameAssignment, evaluateResources_congr hself.sameAssignment]

end Bartiq
